"""C17 — malformed inputs are rejected at assignment, valid ones stored faithfully"""
from corr import callargs_family, valid_family
from oracles import c17 as oracle

GEN = ["Attr", "Setters", "NpNames"]
LEAN_TARGETS = ["MagpyVerif.Props.C17", "MagpyVerif.Props.C17b"]
PROPS = ["MagpyVerif.Props.C17", "MagpyVerif.Props.C17b"]


def run(ctx, model_ok):
    if ctx.driver_ok:
        st = valid_family.run_stream(ctx, ctx.scale(400, 20000))
        ctx.cov["correspondence"] = st
        ca = callargs_family.run_stream(ctx, ctx.scale(300, 6000))
        ctx.cov["correspondence_callargs"] = ca
    budget = 3 if len(ctx.broken) else 1
    fails, ost = oracle.sweep(ctx, ctx.scale(1, 12) * budget)
    ctx.failing += fails
    from oracles import c17_fieldfunc
    ff_fails, ff_stats = c17_fieldfunc.sweep(ctx)
    ctx.failing += ff_fails
    ctx.cov['oracle_field_func'] = ff_stats
    ctx.cov["oracle"] = ost
    ctx.cov["evaluations"] = ost["c17_assignments"]
    ctx.cov["distinct_nontrivial"] = ost["c17_assignments"] // 2
    ctx.cov["rule"] = ("18 (class, attribute) pairs x 60 grammar values (None, scalars, strings, sequences of rank 0-3 and length 0-6, ragged, signed/zero entries, "
                       "segment dimension variants, ndarrays of several dtypes) x {setter, constructor}; distinct = (attribute, value) pairs")
    ctx.cov["traces_validated_against_impl"] = ost["c17_assignments"]
    ctx.cov["samples"] = [ost]
    if "correspondence" in ctx.cov:
        st = ctx.cov["correspondence"]
        ctx.cov["evaluations"] += st["cases"]
        ctx.cov["distinct_nontrivial"] += st["distinct"]
        ctx.cov["traces_validated_against_impl"] += st["cases"]
        ctx.cov["rule"] += ("; valid stream: every validator command (incl. start, degrees, field, output, anchor, angle, axis, orientation) x fixed boundary values, plus random values of the PyVal grammar (None, bool, numpy.bool_, "
                            "complex, strings, objects, int/float/numpy scalars, nested lists/tuples incl. ragged and empty, ndarrays incl. 0-d and empty) "
                            "aimed at each validator's documented shape with one defect; distinct = (validator, result, value) triples")
        ctx.cov["samples"] = st.pop("samples") + ctx.cov["samples"]
    if "correspondence_callargs" in ctx.cov:
        ca = ctx.cov["correspondence_callargs"]
        ctx.cov["evaluations"] += ca["cases"]
        ctx.cov["distinct_nontrivial"] += ca["distinct"]
        ctx.cov["traces_validated_against_impl"] += ca["cases"]
        ctx.cov["rule"] += ("; valid stream also: every numpy scalar type (int8..uint64, float16..longdouble) for every validator of a scalar argument and inside vectors, "
                            "object-dtype ndarrays (0-d, empty, with None / string / complex / bool entries) for every validator of an array argument; callargs stream: "
                            "check_format_pixel_agg on every name of dir(numpy) + the later axis= use in getB, validate_field_func / field_func setter and constructor on generated "
                            "functions (argument names, result kinds for B and H, raising), _validate_mode_arg + its effect on an open mesh, in_out on a Tetrahedron and the "
                            "TriangularMesh of the same points, sumup / squeeze truth values, style argument (setter, constructor with / without style_* keywords, first access), "
                            "sources constructed without dimension / excitation then getB / getH / magpy.getB, 18 kinds of junk assigned to the four collection setters of a populated forest (ids of children, typed views, children_all and every parent before / after); distinct = (command, result, input) triples")
        ctx.cov["samples"] = ca.pop("samples") + ctx.cov["samples"]
    ctx.cov["not_shown"] = ["np.array(x) / np.array(arr, dtype=float) are assumed external functions (Model/Validators.lean header): non-integer floats, inf, bytes, integers beyond int64, "
                            "Fraction/Decimal (object dtype holding numbers only), objects with __array__, nestings deeper than numpy's axis limit are outside the "
                            "modelled grammar; object-dtype ndarrays are handed over by the stream as the realisation of a rectangular nesting (the model treats both alike; None rows are "
                            "separators only inside lists / tuples given to Polyline.vertices)",
                            "full-strength 'never a foreign error' is false of the faithful model for check_format_input_vector2 (ValueError, pinned by a test: witness vector2_bad_shape_is_foreign, "
                            "known finding), check_getBH_output_type (ValueError, pinned: output_rejection_is_foreign), check_format_pixel_agg (AttributeError pinned by "
                            "tests/test_getBH_level2.py, TypeError: pixel_agg_rejection_is_foreign), the TriangularMesh mode arguments (ValueError, promised by the docstrings: "
                            "mode_rejection_is_value_error), the style argument (ValueError / AttributeError / AssertionError of the style classes: style_rejection_is_foreign), field_func of a "
                            "callable whose signature inspect cannot read (field_func_unreadable_is_foreign) and an exception raised by the user's field function during validation",
                            "full-strength 'accepted iff documented' is false of the faithful model for: pixel_agg (names that return a number without reducing: "
                            "pixel_agg_accepted_non_reductions, failing later inside getBH_level2: pixel_agg_ndim_fails_later), the mode arguments (numbers equal to 1 / 0 pass `in` and are not "
                            "translated: mode_accepts_undocumented), in_out (validated nowhere: inout_is_validated_nowhere, inout_accepts_undocumented, and read differently by Tetrahedron and "
                            "TriangularMesh: inout_misspelt_classes_disagree), sumup / squeeze (truth value: flag_accepts_undocumented), the constructor's style argument (stored unexamined, fails "
                            "at the first access of .style: style_ctor_defers_validation)",
                            "'documented format' in the *_accepts_iff_documented theorems is Spec/ValidSpec.lean; its entry grammar (isEntry) is: numbers (int, float, bool, numpy.bool_, float nan). "
                            "A nan given as a float is accepted everywhere (passes 'no value <= 0', '>= 0' and all five CylinderSegment conditions: cylseg_accepts_nan, scalar_accepts_nan); "
                            "nan dimensions reach the kernels and give nan fields (C15), not an error",
                            "observed, not recorded as findings (oracle `observed_not_recorded`, re-evaluated on every run): the foreign errors above; accepted beyond the documented format: anchor=0j, "
                            "anchor=False, start=True, angle=[], nan floats in every scalar / vector attribute; refused although arguably documented: degrees=np.True_, start=1.0; getB observers still "
                            "coerce None / numeric strings (check_format_input_observers, outside attribute assignment)",
                            "a rejected assignment changes nothing, for every regenerated setter (setters_reject_without_change): 19 are validate-then-assign, the four BaseCollection setters are "
                            "assign-under-restore since repo fix 9176cc9 (collection_setters_restore_every_write; the handler of _replace_children is analysed statement by statement: "
                            "dropped_restore_is_flagged) — under the classification of calls stated in Model/CallArgs.lean (SetterForm: which calls can reject the input, which change state, which do "
                            "neither — e.g. scipy / numpy conversions of already validated data, the low-magnetization warning), under C11's `add` validates before it links, and with two things the "
                            "analysis does not examine: the VALUE a per-element restore assigns (`child._parent = self`: right because removed children had this parent, C11 invariant) and that "
                            "`self._children = [...]` rebinds (an in-place edit would be a call the analysis does not know and is flagged); the callargs stream compares the whole forest before / after "
                            "72 junk assignments per run. The values of the two setters repaired by 045b334 are modelled (childrenSetter / collectionsSetter, `collval` rows: error kind or the identities of the resulting "
                            "children): children_accepts_iff_documented, children_rejects_non_sequences_with_library_error, collections_setter_refuses_non_objects; still accepted beyond the "
                            "documented format: sources / sensors given to `collections` are dropped without a word (collections_setter_drops_other_objects), `c.sensors = [a_source]` drops the "
                            "sensors, `c.sources = [c]` is accepted (sources / sensors setters: values not modelled here, C11's Forest model has them): observed",
                            "constructor path = setter path: by theorem for the regenerated table of every __init__ (ctor_args_keep_their_names, ctor_args_reach_their_setters, "
                            "ctor_position_orientation_use_setter_validators); the padding logic of _init_position_orientation differs from the two setters' (subject of C09); "
                            "TriangularMesh vertices / faces have no setter (_input_check, foreign IndexError for bad face indices: observed)",
                            "start / degrees / anchor / angle / axis / orientation / field / output are modelled as the validator functions; that move, rotate*, getB call them on the argument before "
                            "touching any path is the subject of C09 (path stream incl. rejected calls); for getBH_level2 the order of the checks is regenerated (level2_checks_precede_fields): "
                            "`output` is checked AFTER the field computation, pixel_agg after check_dimensions / check_excitations",
                            "audit2 — the setter-form analysis (SetterForm, Model/CallArgs.lean) is a SYNTACTIC check of a regenerated statement skeleton; no execution semantics of the skeleton "
                            "exists in the framework, so 'form = true => a rejected call leaves the state unchanged' is the reading of the checker, not a theorem "
                            "(rwc_no_unrestored_change_before_rejection restates the checker on event lists; its clause for restoring handlers is existential in the saved references). Trusted "
                            "besides the call classification: that only CALLS can reject (an index / arithmetic error of a plain expression after a write is not an event), that loops taken 0 / 1 / 2 "
                            "times stand for all counts, that self._validate_style (MagicProperties.update, all-or-nothing by its own try / restore) and add / remove change nothing when they "
                            "reject. SetterForm.form drops an exception handler it does not recognise (narrower except, a branch, `raise X`) WITHOUT looking at its writes, and does not ask whether a "
                            "recognised handler writes more than it restores (witness form_ignores_unrestoring_handlers: four state-changing mutants pass `form`); for the regenerated table this is "
                            "closed by setters_reject_without_change_strict (every handler is recognised and writes only undos of the setter's own writes) — the driver command `setterform` still "
                            "evaluates the un-strict `form` (proposed: move handlersOnlyRestoreL into Model/CallArgs.lean and let `form` include it)",
                            "audit2 — 'no accepted object later fails inside a field computation with an internal error' is decided only for (1) missing dimension / excitation / field_func "
                            "(missing_attribute_rejected_before_fields, complete_objects_pass: the field computation itself is the opaque parameter `run` — that it does not fail is NOT stated) and "
                            "(2) pixel_agg (documented names reduce; 11 accepted names fail later: pixel_agg_ndim_fails_later). That an accepted dimension / vertices / polarization value meets the "
                            "shape preconditions of its kernel (DESIGN's `accepted_is_computable`) has no theorem: oracle only (assignment, then getB)",
                            "audit2 — by definition / weaker than their names: pixel_agg_documented_never_fails_later and the `documented => accepted` half of pixel_agg_accepts_iff_documented_partial "
                            "(docPixelAgg is defined as 'returns a number and reduces both ways' over the probed table; the content is the table, the two pinned lists and the stream); "
                            "style_setter_accepts_iff_documented (whether a dictionary's entries are valid is an input bit `defect` of the model, not modelled: C20); docChildren counts a bare object and a "
                            "list wrapped in one more list as documented because `add` unwraps them (spec written after repo fix 045b334); inout_is_validated_nowhere pins a detector that sees "
                            "positional arguments only while the source passes in_out by keyword (the `inout` stream rows carry that claim); the constructor table theorems were vacuous for an empty "
                            "table and blind to a second row of a parameter (closed: ctor_table_is_total_and_single_valued); `reach their setters` means, for position / orientation / style / the "
                            "TriangularMesh arguments / override_parent, 'is passed to the named call' (what that call does with it: C09, C20, not here)"]

def replay(ctx, payload):
    import json
    print(json.dumps(payload, indent=1, default=str)[:4000])
    return 0
