"""C17 — malformed inputs are rejected at assignment, valid ones stored faithfully"""
from oracles import c17 as oracle

GEN = ["Attr"]
LEAN_TARGETS = ["MagpyVerif.Props.C17"]
PROPS = ["MagpyVerif.Props.C17"]


def run(ctx, model_ok):
    budget = 3 if len(ctx.broken) else 1
    fails, ost = oracle.sweep(ctx, ctx.scale(1, 12) * budget)
    ctx.failing += fails
    ctx.cov["oracle"] = ost
    ctx.cov["evaluations"] = ost["c17_assignments"]
    ctx.cov["distinct_nontrivial"] = ost["c17_assignments"] // 2
    ctx.cov["rule"] = ("18 (class, attribute) pairs x 60 grammar values (None, scalars, strings, sequences of rank 0-3 and length 0-6, ragged, signed/zero entries, "
                       "segment dimension variants, ndarrays of several dtypes) x {setter, constructor}; distinct = (attribute, value) pairs")
    ctx.cov["traces_validated_against_impl"] = ost["c17_assignments"]
    ctx.cov["samples"] = [ost]
    ctx.cov["not_shown"] = ["scalar validators, orientation, CylinderSegment.dimension, Polyline.vertices, pixel, handedness, field_func: grammar oracle only",
                            "np.array(dtype=float) accepts numeric strings and None leaves (nan): outside the modelled grammar"]


def replay(ctx, payload):
    import json
    print(json.dumps(payload, indent=1, default=str)[:4000])
    return 0
