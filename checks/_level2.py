"""shared runner for the properties decided on the marshalling model (C03–C06)"""
from corr import level2_family

RULE = ("seeded random calls getB(entries, sensors) on CustomSources with integer affine field functions (shared function "
        "objects form multi-member groups): 1-4 entries, collections nested ≤2 with 1-3 children, duplicate objects, path "
        "lengths 1-4, octahedral orientations; 1-3 sensors with unit/static/rotating paths, pixel None/(3,)/(n,3)/(n1,n2,3), "
        "handedness; pixel_agg none/sum/min/max incl. mixed pixel shapes; sumup; squeeze. distinct = distinct output tensors. "
        "A fifth of the cases is forced order-sensitive (min / max over a rotated or left-handed sensor with >= 2 distinct pixels; an object "
        "whose multi-step path is shorter than the longest one). Stream level2f: the same scenes with pixel_agg = median / std / mean / ptp / "
        "min / max / sum against the polymorphic model evaluated in IEEE double (getBHF with Model/PixelAgg), 90 % forced order-sensitive, "
        "values compared with relative tolerance 1e-9, ndarray and dataframe output")


def run(ctx, oracle_fn, n_quick, n_thorough, not_shown):
    if ctx.driver_ok:
        st = level2_family.run_stream(ctx, ctx.scale(250, 6000))
        ctx.cov["evaluations"] = st["cases"]
        ctx.cov["distinct_nontrivial"] = st["distinct_outputs"]
        ctx.cov["rule"] = RULE
        ctx.cov["traces_validated_against_impl"] = st["cases"]
        ctx.cov["samples"] = st.pop("samples") or [{"note": "all sampled outputs were longer than 400 chars"}]
        ctx.cov["correspondence"] = st
        # c03post: pixel_agg as ANY numpy reduction (median, std, mean, ptp, ...), the post-processing order and edge padding of short
        # paths: Model/Level2.getBHF / dataframeF at Float against the real getB
        sf = level2_family.run_f_stream(ctx, ctx.scale(150, 4000))
        ctx.cov["traces_validated_against_impl"] += sf["cases"]
        ctx.cov["correspondence_level2f"] = sf
    else:
        ctx.cov["correspondence"] = "driver did not build"
    budget = 10 if len(ctx.broken) else 1
    fails, ost = oracle_fn(ctx, ctx.scale(n_quick, n_thorough) * budget)
    ctx.cov["oracle"] = ost
    ctx.failing += fails
    ctx.cov.setdefault("evaluations", sum(v for v in ost.values() if isinstance(v, int)))
    ctx.cov.setdefault("distinct_nontrivial", ctx.cov["evaluations"])
    ctx.cov.setdefault("samples", [ost])
    ctx.cov["not_shown"] = not_shown + [
        "numpy tile/repeat/reshape row order and the group-by-field-function scatter are assumed in the model (exercised exactly by the correspondence stream)",
        "floating-point rounding (oracle tolerance 1e-7 relative to the field scale)"]
    ctx.assumptions += ["scipy Rotation is a group acting linearly on R^3", "theorems hold for an arbitrary local field function F; kernels are C01/C02"]


def replay(ctx, payload):
    import json
    print(json.dumps(payload, indent=1, default=str)[:4000])
    return 0
