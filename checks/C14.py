from corr import kern_family
from oracles import c14 as oracle

GEN = ["Const", "Tol"]
LEAN_TARGETS = ["MagpyVerif.Props.C14"]
PROPS = ["MagpyVerif.Props.C14"]
NOT_SHOWN = {
 "C01": ["the vertices form of Polyline (current_vertices_field: repeat/reshape/sum over consecutive segments) is not modelled; single segments are proved equal to the Biot-Savart integral",
         "Cuboid, Triangle/Tetrahedron/TriangularMesh closed forms = their surface integrals (iterated one-variable integrals; not formalised)",
         "Circle, Cylinder, CylinderSegment: need Bulirsch cel/el3 (Legendre elliptic integral) theory, absent from Mathlib v4.33",
         "all of the above are checked against numerical quadrature of the defining integral by the oracle (rel. 2e-6 outside, 2e-4 inside)"],
 "C13": ["Cuboid = mesh = tetrahedra; Cylinder = sum of segments; partition additivity of magnets; Polyline -> Circle: equalities between different closed forms, oracle only"],
 "C14": ["NO integral-form statement (flux through a closed surface, circulation around a loop) is proved for any class, not even over boxes: proved are only the pointwise local forms "
         "div B = 0 / curl H = 0 for Dipole (r != 0) and Sphere (off its surface), div H = 0 for one straight segment of the UNMASKED kernel, and the Sphere interface conditions "
         "(sphere_interface_model). The passage local => integral (Gauss / Stokes; C^1 regularity — the theorems give existence of the partial derivatives at a point) is assumed",
         "Ampere's law with non-zero threading current (Circle, closed Polyline), curl H = 0 for closed polylines off the wire, and every statement for Cuboid, Cylinder, CylinderSegment, "
         "Tetrahedron, TriangularMesh, Circle and collections: flux / circulation quadrature oracle only",
         "segment_B_div_free is about q -> mu0 * segmentH q, not about the masked wrapper (not differentiable across the 1e-15 on-line mask)",
         "Mathlib has the divergence theorem for boxes only and no Stokes theorem for general loops"],
}["C14"]


def run(ctx, model_ok):
    if ctx.driver_ok:
        st = kern_family.run_stream(ctx, ctx.scale(400, 20000))
        ctx.cov["traces_validated_against_impl"] = st["rows"]
        st.pop("samples")
        ctx.cov["correspondence"] = st
    budget = 10 if len(ctx.broken) else 1
    fails, ost = oracle.sweep(ctx, ctx.scale(42, 800) * budget)
    ctx.failing += fails
    ctx.cov["oracle"] = ost
    k = [v for v in ost.values() if isinstance(v, int)][0]
    ctx.cov["evaluations"] = k
    ctx.cov["distinct_nontrivial"] = k
    ctx.cov["rule"] = "every case draws a fresh random source (all classes in turn), pose and observers / partition / surface; all are non-trivial (non-zero fields)"
    ctx.cov["samples"] = [ost]
    ctx.cov["not_shown"] = NOT_SHOWN


def replay(ctx, payload):
    import json
    print(json.dumps(payload, indent=1, default=str)[:4000])
    return 0
