from corr import kern_family
from oracles import c14 as oracle

GEN = ["Const", "Tol"]
LEAN_TARGETS = ["MagpyVerif.Props.C14"]
PROPS = ["MagpyVerif.Props.C14"]
NOT_SHOWN = {
 "C01": ["the vertices form of Polyline (current_vertices_field: repeat/reshape/sum over consecutive segments) is not modelled; single segments are proved equal to the Biot-Savart integral",
         "Cuboid, Triangle/Tetrahedron/TriangularMesh closed forms = their surface integrals (iterated one-variable integrals; not formalised)",
         "Circle, Cylinder, CylinderSegment: need Bulirsch cel/el3 (Legendre elliptic integral) theory, absent from Mathlib v4.33",
         "all of the above are checked against numerical quadrature of the defining integral by the oracle (rel. 2e-6 outside, 2e-4 inside)"],
 "C13": ["Cuboid = mesh = tetrahedra; Cylinder = sum of segments; partition additivity of magnets; Polyline -> Circle: equalities between different closed forms, oracle only"],
 "C14": ["integral forms are theorems ONLY for axis-aligned closed boxes (flux of B, six face integrals) and axis-aligned rectangles in coordinate planes (circulation of H, four line "
         "integrals) that lie within a region where the field is smooth: Dipole — box / filled rectangle not containing the origin (dipole_box_flux_zero, dipole_rect_circulation_zero); "
         "Cuboid closed form and the BHJM_magnet_cuboid row — box within one of the 27 cells cut out by the six face planes, resp. clear of the wrapper's 1e-15 shells "
         "(cuboid_box_flux_zero, cuboid_rect_circulation_zero, cuboid_wrapper_box_laws); Sphere — box strictly inside or strictly outside the ball (sphere_box_laws_inside/_outside); "
         "Triangle sheet (BHJM_triangle row), Tetrahedron (BHJM_magnet_tetrahedron row, inside test and chirality fix included) and the sheet sum of a TriangularMesh row plus a constant — "
         "closed box EVERY point of which satisfies TriClear w.r.t. every face: off the face planes, solid angle strictly below the clamp 6.2831853, strictly outside the on_edge tubes "
         "(triangle_box_flux_zero, triangle_rect_circulation_zero, tetra_box_flux_zero, tetra_rect_circulation_zero, trimesh_row_box_flux_zero, trimesh_row_rect_circulation_zero); such a box "
         "lies on one side of every face plane, i.e. beside a sheet, entirely outside or entirely INSIDE a Tetrahedron (there B = mu0 H + J, J constant: tetra_B_on_box); checkable sufficient "
         "condition TriFarBox (triFarBox_triClear): eight corners on one side of the plane with |N| >= m (N = 2 area x signed distance), 16 rho0^2 rho1^2 rho2^2 <= 1e16 m^2, 1e-30 l_i^2 |A|^2 < m^2. "
         "Generic: box_flux_zero_of_div_free / rect_circulation_zero_of_curl_free (1-D fundamental theorem + Fubini; partial derivatives continuous on the closed box)",
         "NOT shown by theorem: surfaces that are not axis-aligned boxes and loops that are not axis-aligned rectangles (rotated boxes, spheres, circles, polygons: Mathlib has the divergence "
         "theorem for boxes only and no Stokes theorem); boxes that CUT a CHARGED face of the Cuboid (J.n != 0) — the splitting argument is a theorem (BoxLaws.box_flux_zero_of_split_x: piecewise "
         "smooth field, normal component continuous across the cut) and is instantiated only for a face without charge (cuboid_box_flux_crossing_tangential: pol.x = 0, B jumps tangentially by J); "
         "for a charged face the one-sided smooth continuations of the closed form and hence the continuity of B_n are an explicit HYPOTHESIS (cuboid_box_flux_crossing_partial); no cutting "
         "statement for the wrapper row (its 1e-15 shells have positive measure), for circulation across a Cuboid face, or for the Sphere surface (pointwise interface conditions only: "
         "sphere_interface_model); boxes enclosing the Dipole position",
         "Ampere's law with non-zero threading current (Circle, closed Polyline: linking-number form), curl H = 0 for closed polylines off the wire, and every integral statement for Cylinder, "
         "CylinderSegment, Circle, Polyline and collections: flux / circulation quadrature oracle only",
         "Triangle / Tetrahedron / TriangularMesh rows: the local theorems (triangle_partials, triangle_div_free, triangle_curl_free, tetra_H_curl_free, tetra_B_div_free, trimesh_row_div_free: "
         "explicit Jacobian of triangle_Bfield, trace 0, symmetric) and the box / rectangle theorems built on them hold only where every observer is off the planes of the faces, the code "
         "does not clamp the solid angle (|Omega| < 6.2831853 strictly) and the observer is strictly outside the on_edge tubes (rho2 > 1e-30 l2 alongside an edge). NOT shown: boxes / rectangles that "
         "CUT the plane of a face — a box through a sheet (flux = enclosed magnetic charge sigma x area, the oracle's sensitivity probe), a box across the surface of a Tetrahedron / "
         "TriangularMesh (needs the jump of B_n across a charged triangle: one-sided continuations of the solid-angle term, as for the charged Cuboid face), a box that meets the EXTENDED "
         "plane of a face outside the triangle (the field is smooth there but TriClear asks N != 0); boxes inside the clamp band (known finding triangle-split:clamp-band, witness "
         "triangle_clamp_band_excluded) or touching a tube: the model is discontinuous there; the inside mask of a TriangularMesh row (ray casting) is a PARAMETER of the model — "
         "trimesh_row_box_flux_zero takes what it adds as a constant on the box (J inside, 0 outside) and does not derive that from the mesh; no statement for the full BHJM_magnet_trimesh batch "
         "(grouping loop) in integral form. Oracle: the proved Jacobian against 4th-order differences of the real triangle_Bfield (1e-6); Gauss-Legendre flux / four-side circulation for boxes "
         "beside Triangle sheets, inside and outside Tetrahedra and TriangularMeshes that satisfy TriFarBox face by face (1e-6 relative; observed 1e-14)",
         "the straight segment has only the pointwise div H = 0 of the UNMASKED kernel (segment_B_div_free is about q -> mu0 * segmentH q, not about the masked wrapper, which is not differentiable "
         "across the 1e-15 on-line mask); no box-flux theorem for it (continuity of its partial derivatives on a box not proved)",
         "the integral theorems are about the real-number model (exact Lebesgue integrals of the model functions at carrier R); the oracle's Gauss-Legendre sums of float64 values are compared with 0 "
         "to a tolerance, not derived from the theorems"],
}["C14"]


def run(ctx, model_ok):
    if ctx.driver_ok:
        st = kern_family.run_stream(ctx, ctx.scale(400, 20000))
        ctx.cov["traces_validated_against_impl"] = st["rows"]
        st.pop("samples")
        ctx.cov["correspondence"] = st
    budget = 10 if len(ctx.broken) else 1
    fails, ost = oracle.sweep(ctx, ctx.scale(42, 800) * budget)
    ctx.failing += fails
    ctx.cov["oracle"] = ost
    k = [v for v in ost.values() if isinstance(v, int)][0]
    ctx.cov["evaluations"] = k
    ctx.cov["distinct_nontrivial"] = k
    ctx.cov["rule"] = "every case draws a fresh random source (all classes in turn), pose and observers / partition / surface; all are non-trivial (non-zero fields)"
    ctx.cov["samples"] = [ost]
    ctx.cov["not_shown"] = NOT_SHOWN


def replay(ctx, payload):
    import json
    print(json.dumps(payload, indent=1, default=str)[:4000])
    return 0
