"""shared by the checks that rest on the kernel ports (C01 C02 C05 C12 C13 C15): the two ties that go beyond comparing
doubles.  (1) Gen/KernTrace.lean — the real numpy kernels executed on one symbolic row per branch, regenerated on every
run — with Lemmas/KernTraceEq.lean proving at the real carrier that each traced branch of Dipole, Sphere and the Cuboid
closed form (all eight octants) IS the hand-written model; (2) the `sym` stream: real code and model on the same symbolic
rows, formulas compared as rational functions of their atoms (corr/sym_family.py) — Dipole, Sphere, segment, Cuboid
wrapper incl. all masks, Triangle sheet, Circle with the cel iteration, Cylinder (axial part)."""
from corr import sym_family

GEN = ["KernTrace"]
LEAN_TARGETS = ["MagpyVerif.Lemmas.KernTraceEq"]
PROPS = ["MagpyVerif.Lemmas.KernTraceEq"]


def run(ctx, n):
    if not ctx.driver_ok:
        return None
    st = sym_family.run_stream(ctx, n)
    br = st.pop("branches")
    st["branches_sample"] = dict(list(br.items())[:12])
    ctx.cov["correspondence_symbolic"] = st
    return st
