"""C02 — B = mu0*H + J everywhere; J and M report the body's polarization"""
from corr import kern_family
from checks import _sym
from oracles import c02 as oracle

GEN = ["Const", "Tol", "CylSegGen", "ExcSync", "InOut"] + _sym.GEN  # ExcSync: the setters' constant / operator / skeletons; InOut: which core functions take `in_out`
LEAN_TARGETS = ["MagpyVerif.Props.C02", "MagpyVerif.Gen.CylSegGen"] + _sym.LEAN_TARGETS  # CylSegGen: the regenerated CylinderSegment translation and its `sync_*` theorems against the frozen model
PROPS = ["MagpyVerif.Props.C02"] + _sym.PROPS


def run(ctx, model_ok):
    _sym.run(ctx, ctx.scale(140, 4000))
    if ctx.driver_ok:
        st = kern_family.run_stream(ctx, ctx.scale(1100, 55000), with_in_out=True)
        ctx.cov["evaluations"] = st["rows"]
        ctx.cov["distinct_nontrivial"] = st["nonzero_rows"] + sum(st["branch"].values())
        ctx.cov["rule"] = ("rows cycle over dipole / sphere / straight segment / cuboid masks / ... / cylinder / cylinder masks, scale 1e-3..1e3, observers stratified "
                           "(far, inside, exactly on faces/edges/corners/surface, along and beyond the segment); distinct_nontrivial = rows "
                           "with a non-zero field value plus mask rows (every row has fresh random parameters)")
        ctx.cov["traces_validated_against_impl"] = st["rows"]
        ctx.cov["samples"] = st.pop("samples")
        ctx.cov["correspondence"] = st
    from checks import _cylseg
    cs = _cylseg.run(ctx, ctx.scale(700, 30000))
    if cs:
        ctx.cov["evaluations"] = ctx.cov.get("evaluations", 0) + cs["rows"]
        ctx.cov["traces_validated_against_impl"] = ctx.cov.get("traces_validated_against_impl", 0) + cs["rows"]
    if ctx.driver_ok:
        from corr import trimesh_family
        ctx.cov["correspondence_trimesh"] = trimesh_family.run_stream(ctx, ctx.scale(80, 3000))
    if ctx.driver_ok:
        from corr import trimesh_family as _tf
        ctx.cov["correspondence_trimesh_inside"] = _tf.run_inside_stream(ctx, ctx.scale(150, 5000))
    if ctx.driver_ok:
        # the keyword in_out on whole TriangularMesh batches (through getBH_level1), the excitation state machine on real magnet
        # objects (bit-exact), getJ / getM of rotated Cuboids read by rotated sensors (exact, pipeline model)
        from corr import exc_family, level2_family
        ctx.cov["correspondence_trimesh_in_out"] = trimesh_family.run_batch_stream(ctx, ctx.scale(80, 2500), with_in_out=True)
        st = exc_family.run_stream(ctx, ctx.scale(300, 8000))
        st.pop("samples", None)
        ctx.cov["correspondence_excitation"] = st
        st = level2_family.run_jm_stream(ctx, ctx.scale(150, 4000))
        st.pop("samples", None)
        ctx.cov["correspondence_level2_jm"] = st
    budget = 10 if len(ctx.broken) else 1
    fails, ost = oracle.sweep(ctx, ctx.scale(200, 6000) * budget)
    ctx.failing += fails
    ctx.cov["oracle"] = ost
    ctx.cov.setdefault("evaluations", ost["c02_rows"])
    ctx.cov.setdefault("distinct_nontrivial", ost["c02_rows"])
    ctx.cov.setdefault("samples", [ost])
    if ctx.driver_ok:
        # excitation masks of the wrappers (c05wrap): per wrapper kind six rows p, -p, signed zeros, q, a p + b q, +0 in ONE real call, every row against the port
        # (incl. the Dipole at its own position); run last so that the random sequence of everything above is unchanged
        st = kern_family.run_stream(ctx, ctx.scale(44, 2200), only=["exccancel"])
        st.pop("samples", None)
        ctx.cov["correspondence_exccancel"] = {"rows": st["rows"], "disagreements": st["disagreements"], **st["exccancel"]}
        ctx.cov["traces_validated_against_impl"] = ctx.cov.get("traces_validated_against_impl", 0) + st["rows"]
    ctx.cov["not_shown"] = ["masks = geometry, all at WRAPPER level (statements about bhjmSphere / bhjmCylinder / bhjmCuboid / bhjmTetra / bhjmCylSeg .J): proved for Sphere, Cylinder "
                            "(`cylinder_j_is_indicator`: closed cylinder, d > 0), Cuboid (`cuboid_j_is_indicator`: open box inflated by the relative 1e-15), Tetrahedron (`tetra_j_is_indicator`: "
                            "convex hull, det != 0) and since c05wrap CylinderSegment (`cylseg_j_is_indicator`: J = polarization on the OPEN segment r1 < rho < r2, |z| < h/2, azimuth in (phi1, phi2) "
                            "modulo full turns and 0 outside, raw inputs in any unit, angle ranges anywhere (the code's shift by full turns included), for observers OFF the tolerance band of the six "
                            "surface tests -- |rho - r_i|/r2 > 1e-12 (1 + r_i/r2), |z -+ h/2|/r2 > 1e-12 (1 + h/(2 r2)), azimuth farther than 1e-12 (1 + 2 pi) from every full-turn copy of the "
                            "bounding half-planes; `cylseg_masks_are_geometric_off_band` is the same on the normalised row with the code's own modulo test). NOT shown: inside the band (there the "
                            "surface masks may set J = 0 up to 1e-12 relative inside the body, by design; the band hypothesis on the azimuth is the geometric sufficient condition, not the code's "
                            "exact modulo test); r2 = 0; TriangularMesh (ray test is not the geometric predicate: witness below)",
                            "CylinderSegment: `cylseg_consistent` covers the whole ported BHJM_cylinder_segment (translated 26-case core, masks, angle normalisation) with ellipkinc/ellipeinc/el3_angle as opaque functions; "
                            "rows with an unhandled case id (111, 114, 121, 131) are NaN in the code and `none` in the model; the 360-degree branch of the internal wrapper is the Cylinder port (Cylinder, Triangle, Tetrahedron, Circle, "
                            "Sphere, Dipole and TriangularMesh with its ray-casting inside test: shown for the full ported function; `cylinder_is_wrapCylinder` ties the ported "
                            "BHJM_magnet_cylinder to the abstract dispatch). The TriangularMesh inside test is NOT the geometric inside predicate on planes through the ray start "
                            "and a mesh edge: witness trimesh_ray_test_misses_interior_point, replayed by the trimesh-inside stream and recorded as a known finding",
                            "Cylinder port: scipy's ellipk/ellipe are modelled through the repo's cel0 (assumption validated by the kern stream kind `cylinder`, 1e-9); "
                            "only the single-row path of `cel` (cel0, n < 10) is modelled, not the vectorised celv",
                            "full mu0_single: false on this tree (known finding)",
                            "Cuboid: J = polarization on the OPEN box inflated by the relative 1e-15 (cuboid_j_is_indicator), not on the closed body; Tetrahedron: point_inside = convex hull only for "
                            "det != 0 (tetraInside_iff_hull; a flat tetrahedron has no interior since repo fix 657dea6); "
                            "CylinderSegment: geometric predicate off the tolerance band only (cylseg_j_is_indicator); no theorem that bhjmCylSeg returns a value (cylseg_consistent / cylseg_internal_consistent are conditional on `some`; "
                            "Circle and Cylinder are unconditional via Props/C15: circle_consistent_total, cylinder_consistent_total)",
                            "Dipole at its own position: `bhjmDipole` has no r = 0 branch, dipole_consistent at x = 0 is about Lean's x/0 = 0; the r == 0 row is modelled separately since c05wrap "
                            "(Model/DipoleSing.lean, values in {-inf, 0, +inf}; B and H carry the same value there, J = M = 0, so B = mu0 H + J holds in the extended sense inf = mu0 inf; not stated as a theorem)",
                            "in_out: modelled as coded (Model/InOut.lean) — only BHJM_magnet_tetrahedron and BHJM_magnet_trimesh receive the keyword (regenerated table of signatures), for the other four "
                            "magnet classes getBH_level1 removes it, so 'inside' does NOT make J the polarization everywhere for Cuboid / Cylinder / CylinderSegment / Sphere (witness "
                            "cuboid_inside_override_is_ignored; truthful overrides change nothing: *_inout_truthful); the value of in_out is validated nowhere (a misspelt value means 'auto' for a Tetrahedron, "
                            "'outside' for a TriangularMesh: InOut.other). excitation_sync: full-strength statement with the EXPORTED mu_0 is false on this tree (excitation_sync_exported_mu0_partial, "
                            "setter_constant_is_not_exported = the known finding); proved with the setters' own constant. Not represented in the state machine: which values check_format_input_vector refuses "
                            "(C17), in-place edits of the arrays the getters hand out (obj.polarization[2] = x changes _polarization only), numpy's floating-point warnings (with ALL warnings escalated an "
                            "overflowing conversion raises between the two attribute writes: stream field observed_not_modelled). J in the observer frame: theorem over the pipeline model for ONE magnet and "
                            "right-handed sensors, local-frame J = indicator·polarization as hypothesis (discharged per class by *_j_is_indicator; stream level2-jm: Cuboids, observers off the faces)",
                            "theorems stated at mu0R use 4*pi*1e-7, which is not the exported mu_0 (scipy's 1.25663706127e-6); the generic-mu theorems are the ones that matter",
                            # --- added by audit2 (second audit of the statements) ---
                            "excitation_sync is a theorem in EXACT arithmetic (carrier R): in IEEE double the pair is in sync only up to rounding — after `obj.polarization = v` the stored "
                            "polarization differs from fl(magnetization * (4*pi*1e-7)) in the last bit for about 4 of 10 random vectors (relative 1.7e-16), and not at all after an overflowing / "
                            "underflowing conversion; the `exc` stream ties the Float run of the model to the real attributes bit for bit, but no theorem bounds the rounding. "
                            "misc.Triangle is a BaseMagnet too (same setters, no override) but is not among the classes the `exc` stream constructs. rejected_assignment_keeps_state / "
                            "constructor_both_given_is_error restate branches of the model (`.bad` returns the old state): their content is the model, tied by the stream",
                            "in_out: 'truthful' in tetra_inout_truthful / trimesh_inout_truthful means 'agrees with the code's OWN test' (tetraInside, resp. a free parameter `inside`), not with the geometric body; "
                            "geometric versions: tetra_inout_truthful_hull (det != 0) and tetra_/trimesh_inout_override_j (under an override that is truthful w.r.t. ANY set, J = polarization on that set and 0 "
                            "off it, M = J/mu0). For a TriangularMesh a geometrically truthful override DOES change the result where the ray-casting test is wrong (known finding): there the override is "
                            "right and 'auto' is not. inout_ignored is `hasInOut cls = false`, where hasInOut answers false also for a class MISSING from the regenerated table (getD false): the six rows are "
                            "pinned by inout_table_rows. Not modelled: the UserWarning getBH_level2 emits when in_out != 'auto' and no Tetrahedron / TriangularMesh is among the sources "
                            "(the call raises under -W error)",
                            "J in the observer frame: `body` is a free parameter of j_in_observer_frame(_end_to_end / _on_driver_carrier) and `s.F = indicatorField body pol` a hypothesis; 'inside the placed body' "
                            "is the geometric set p + R·body. The hypothesis is discharged formally only for the Cuboid on integer data (boxBody_is_cuboid_mask: edge lengths in (0, 1e15], integer observers); "
                            "the pipeline model has an abstract vector type, no theorem instantiates s.F with bhjmSphere / bhjmCylinder / bhjmTetra / the CylinderSegment or TriangularMesh wrappers. "
                            "The level2-jm stream compares after rounding to integers (accepts |value - integer| <= 1e-6), with ODD edge lengths only, so whether a face belongs to the body is never exercised there; "
                            "left-handed sensors, collections and several magnets occur in the stream but not in the theorem (they follow from C03 / C04 / C05, not composed here)"]
    ctx.assumptions += ["wrapper dispatch modelled by hand with the core as a parameter; cuboid masks, sphere, dipole, segment, triangle, tetrahedron, circle, cylinder ports tied by the kern stream"]


def replay(ctx, payload):
    import json
    print(json.dumps(payload, indent=1, default=str)[:4000])
    return 0
