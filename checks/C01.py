from corr import kern_family
from checks import _sym
from oracles import c01 as oracle

GEN = ["Const", "Tol"] + _sym.GEN
LEAN_TARGETS = ["MagpyVerif.Props.C01"] + _sym.LEAN_TARGETS
PROPS = ["MagpyVerif.Props.C01"] + _sym.PROPS
NOT_SHOWN = {
 "C01": ["the vertices form of Polyline (current_vertices_field: repeat/reshape/sum over consecutive segments) is not modelled; single segments are proved equal to the Biot-Savart integral",
         "Triangle/Tetrahedron/TriangularMesh closed forms = their surface integrals (iterated one-variable integrals; not formalised); Cuboid is proved off the six face planes (on the extended face planes: oracle only)",
         "Circle, Cylinder, CylinderSegment: need Bulirsch cel/el3 (Legendre elliptic integral) theory, absent from Mathlib v4.33",
         "all of the above are checked against numerical quadrature of the defining integral by the oracle (rel. 2e-6 outside, 2e-4 inside)"],
 "C13": ["Cuboid = mesh = tetrahedra; Cylinder = sum of segments; partition additivity of magnets; Polyline -> Circle: equalities between different closed forms, oracle only"],
 "C14": ["flux / circulation laws for general surfaces and loops and for the elliptic-integral classes: quadrature oracle only",
         "Mathlib has the divergence theorem for boxes only and no Stokes theorem for general loops"],
}["C01"]


def run(ctx, model_ok):
    _sym.run(ctx, ctx.scale(140, 4000))
    if ctx.driver_ok:
        st = kern_family.run_stream(ctx, ctx.scale(400, 20000))
        ctx.cov["traces_validated_against_impl"] = st["rows"]
        st.pop("samples")
        ctx.cov["correspondence"] = st
    budget = 10 if len(ctx.broken) else 1
    fails, ost = oracle.sweep(ctx, ctx.scale(30, 1500) * budget)
    ctx.failing += fails
    ctx.cov["oracle"] = ost
    k = [v for v in ost.values() if isinstance(v, int)][0]
    ctx.cov["evaluations"] = k
    ctx.cov["distinct_nontrivial"] = k
    ctx.cov["rule"] = "every case draws a fresh random source (all classes in turn), pose and observers / partition / surface; all are non-trivial (non-zero fields)"
    ctx.cov["samples"] = [ost]
    ctx.cov["not_shown"] = NOT_SHOWN


def replay(ctx, payload):
    import json
    print(json.dumps(payload, indent=1, default=str)[:4000])
    return 0
