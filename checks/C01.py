from corr import kern_family
from checks import _sym
from oracles import c01 as oracle

GEN = ["Const", "Tol"] + _sym.GEN
LEAN_TARGETS = ["MagpyVerif.Props.C01"] + _sym.LEAN_TARGETS
PROPS = ["MagpyVerif.Props.C01"] + _sym.PROPS
NOT_SHOWN = {
 "C01": ["Polyline: proved for ONE segment of the UNMASKED kernel segmentH (off the carrier line). The real code returns 0 for observers within a relative 1e-15 of the line and for "
         "start == end; that masked row (bhjmSegment) equals segmentH outside those masks (Props/C15 polyline_masks_cover_singular) but the composed statement is not spelled out here; "
         "the vertices form (current_vertices_field) IS modelled and proved row-wise (Props/C06, poly stream) but not stated as a sum of Biot-Savart integrals",
         "Sphere: NOT proved equal to its surface-charge integral — only: equals a dipole outside, 2/3 J inside, interface conditions (Props/C13, C14)",
         "Circle: only observers exactly ON THE AXIS (circle_on_axis_is_biot_savart); Dipole: dipole_is_point_dipole restates the kernel's definition (the formula IS the spec), H only",
         "all theorems are in exact real arithmetic with log / arctan2 / division totalised (positivity of the Cuboid log arguments is Props/C15); floating-point error of the closed forms "
         "against 'the numerical accuracy the library documents' is covered by the quadrature oracle only; B variants and poses: via C02 / C03",
         "the Dipole / Cuboid wrapper theorems are for mu0 := 4*pi*1e-7 (mu0R), not the exported scipy value; the proofs use mu0 != 0 only",
         "Triangle/Tetrahedron/TriangularMesh closed forms = their surface integrals (iterated one-variable integrals; not formalised); Cuboid is proved off the six face planes (on the extended face planes: oracle only)",
         "Circle off its axis: proved equal to kappa * Biot-Savart loop integral plus prefactor * (value of the cel iteration - cel integral), exactly and without hypothesis (core and wrapper); NOT shown: that Bulirsch's cel iteration converges to the cel integral (named hypothesis CelComputesIntegral of Props/C01, checked numerically on the real cel_iter / cel0 by the oracle's cel_hypothesis block), nor a bound on the truncation error at the loop exit (relative gap < 1e-8)",
         "Cylinder, CylinderSegment: need Bulirsch cel/el3 (Legendre elliptic integral) theory, absent from Mathlib v4.33",
         "all of the above are checked against numerical quadrature of the defining integral by the oracle (rel. 2e-6 outside, 2e-4 inside)"],
 "C13": ["Cuboid = mesh = tetrahedra; Cylinder = sum of segments; partition additivity of magnets; Polyline -> Circle: equalities between different closed forms, oracle only"],
 "C14": ["flux / circulation laws for general surfaces and loops and for the elliptic-integral classes: quadrature oracle only",
         "Mathlib has the divergence theorem for boxes only and no Stokes theorem for general loops"],
}["C01"]


def run(ctx, model_ok):
    _sym.run(ctx, ctx.scale(140, 4000))
    if ctx.driver_ok:
        st = kern_family.run_stream(ctx, ctx.scale(400, 20000))
        ctx.cov["traces_validated_against_impl"] = st["rows"]
        st.pop("samples")
        ctx.cov["correspondence"] = st
    budget = 10 if len(ctx.broken) else 1
    fails, ost = oracle.sweep(ctx, ctx.scale(30, 1500) * budget)
    ctx.failing += fails
    ctx.cov["oracle"] = ost
    k = [v for v in ost.values() if isinstance(v, int)][0]
    ctx.cov["evaluations"] = k
    ctx.cov["distinct_nontrivial"] = k
    ctx.cov["rule"] = "every case draws a fresh random source (all classes in turn), pose and observers / partition / surface; all are non-trivial (non-zero fields)"
    ctx.cov["samples"] = [ost]
    ctx.cov["not_shown"] = NOT_SHOWN


def replay(ctx, payload):
    import json
    print(json.dumps(payload, indent=1, default=str)[:4000])
    return 0
