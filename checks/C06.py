from checks import _level2
from oracles import level2 as oracle

GEN = ["Tol", "CylSegGen"]
LEAN_TARGETS = ["MagpyVerif.Props.C06", "MagpyVerif.Gen.CylSegGen"]  # CylSegGen: the regenerated CylinderSegment translation and its `sync_*` theorems against the frozen model
PROPS = ["MagpyVerif.Props.C06"]
NOT_SHOWN = {
 "03": ["full getBH pipeline covariance with Sensor observers (proved for position observers; sensors are C04)"],
 "04": ["pixel_agg reductions other than sum/min/max (mean, median, std, ...) are not modelled; the theorem holds for any reduction function of the pixel list, the stream exercises sum/min/max"],
 "05": ["linearity of each class's kernel in its excitation (kernel-level, see C01/C02); proved here: the marshalling preserves it for any F"],
 "06": ["batch-level control flow inside kernels: the whole TriangularMesh batch (flat triangle call, reshape/split sums, row grouping: trimesh_batch_rowwise, trimesh_grouping_rowwise; "
        "trimesh streams) and both branches of the Polyline batch (polyline_batch_rowwise, poly stream) are modelled and proved row-wise; "
        "the complete elliptic integral: the vectorised celv and the dispatcher cel (n < 10: list comprehension over cel0) ARE modelled (Model/Celv.lean, masks and the "
        "body-before-test loop as coded), tied bit for bit by the celbatch rows of the kern stream (batches of 1..40 entries on both sides of the switch, repeated entries, moduli "
        "1e-150..1e150) and proved row-wise on every carrier, IEEE double included: celv_rowwise / celv_entry_eq_alone (entry i of celv(batch) = celv([batch[i]])), celv_reindex "
        "(sub-batches, duplicates, other lengths), celv_perm; celv_eq_cel0_partial / cel_threshold_consistent_partial: celv and cel0 agree on every entry on which cel0 makes at "
        "least one pass. NOT true and therefore not shown: that cel returns the same number on either side of n = 10 for entries with 0 < |1 - |kc|| <= 1e-6 "
        "(cel0 returns without a pass, celv after its forced first pass: celv_ne_cel0_in_band gives the two different real values pi/(1+k) and 2pi/(1+sqrt k)^2; measured on the "
        "real code <= 7e-11 relative in cel, <= 8e-13 relative in Cylinder getB / getH for observers within 5e-7 radii of the axis, 1 vs >= 10 observers — far below the oracle's "
        "1e-7, above the few-ulp level) and at kc = 0 (cel0 raises, celv does not return: Props/C15 celv_loops_at_zero)",
        "not tied into the Cylinder model: Model/Cylinder.lean still calls cel0 (its one-row path); the per-row statement for a Cylinder batch of >= 10 rows follows from "
        "celv_rowwise only off the band. cel_iter (n < 15 pre-loop, then cel_iterv on all rows until the slowest has met its test): modelled (celIterV, kern stream celiter rows), "
        "a row gets as many passes as the slowest row of the batch — measured effect on Circle getB <= 6e-16 relative (1e-8 exit test of a quadratically convergent iteration); "
        "no row-wise theorem. el3 / el3v (n < 10 switch, CylinderSegment): only the control-flow skeleton of el3v's main loop is modelled (MaskedLoop: body on mask10, test on all "
        "entries, post on mask11, mask10 = mask11) and proved row-wise for abstract per-entry statements (el3v_loop_rowwise_partial; that every statement under a mask acts on the "
        "entry's own variables is read off the source); the VALUES of el3 on a batch are modelled entry by entry through the port of the scalar el30 and tied by the el3batch rows "
        "of the kern stream (real el3 / el3v on batches of 1..40 entries, relative 1e-12, largest seen 3e-15; el3v(batch)[i] bit-identical to el3v([batch[i]]) on the real code); "
        "for x < 0 in the logarithmic branch (bo false, bk false) el30 raises ValueError (int(nan)) where el3v returns NaN (known finding el3-nan-to-int; public API: "
        "1-9 vs >= 10 observers). CylinderSegment's all-on-surface early return: element-vs-single-call oracle only",
        "np.squeeze / np.expand_dims / reshape semantics are assumed as modelled (shape list + unchanged row-major data), exercised by the stream"],
}["06"]


def run(ctx, model_ok):
    if ctx.driver_ok:
        from corr import trimesh_family
        ctx.cov["correspondence_trimesh"] = trimesh_family.run_stream(ctx, ctx.scale(120, 4000))
        ctx.cov["correspondence_trimesh_batch"] = trimesh_family.run_batch_stream(ctx, ctx.scale(80, 2500))
        from corr import poly_family
        ctx.cov["correspondence_poly"] = poly_family.run_stream(ctx, ctx.scale(150, 5000))
        # celv / cel on whole batches (Model/Celv.lean; Props/C06 celv_rowwise, celv_perm, cel_threshold_consistent_partial), cel_iter batches, cel0
        from corr import kern_family
        kst = kern_family.run_stream(ctx, ctx.scale(150, 5000), only=["celbatch", "celbatch", "el3batch", "celiter", "cel0"])
        kst.pop("samples", None)
        ctx.cov["correspondence_cel_batch"] = {k: kst[k] for k in ("rows", "per_kind", "disagreements", "celbatch", "el3batch", "branch")}
    # the CylinderSegment theorems are about Model/CylSeg*.lean: is the frozen translation still what the source says, and does the port agree with the real code?
    from checks import _cylseg
    _cylseg.run(ctx, ctx.scale(300, 10000))
    _level2.run(ctx, oracle.c06_sweep, {"03": 60, "04": 60, "05": 40, "06": 50}["06"], {"03": 2000, "04": 2000, "05": 1200, "06": 1500}["06"], NOT_SHOWN)
    if ctx.driver_ok:
        # shape bookkeeping of every entry point (positions_output_shape, duplicates_are_kept in Props/C07): iface stream
        from corr import iface_family
        ist = iface_family.run_stream(ctx, ctx.scale(150, 3000))
        ist.pop("samples", None)
        ctx.cov["correspondence_iface"] = ist


replay = _level2.replay
