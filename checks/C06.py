from checks import _level2
from oracles import level2 as oracle

GEN = ["Tol", "CylSegGen"]
LEAN_TARGETS = ["MagpyVerif.Props.C06", "MagpyVerif.Gen.CylSegGen"]  # CylSegGen: the regenerated CylinderSegment translation and its `sync_*` theorems against the frozen model
PROPS = ["MagpyVerif.Props.C06"]
NOT_SHOWN = {
 "03": ["full getBH pipeline covariance with Sensor observers (proved for position observers; sensors are C04)"],
 "04": ["pixel_agg reductions other than sum/min/max (mean, median, std, ...) are not modelled; the theorem holds for any reduction function of the pixel list, the stream exercises sum/min/max"],
 "05": ["linearity of each class's kernel in its excitation (kernel-level, see C01/C02); proved here: the marshalling preserves it for any F"],
 "06": ["batch-level control flow inside kernels: the whole TriangularMesh batch (flat triangle call, reshape/split sums, row grouping: trimesh_batch_rowwise, trimesh_grouping_rowwise; "
        "trimesh streams) and both branches of the Polyline batch (polyline_batch_rowwise, poly stream) are modelled and proved row-wise; "
        "CylinderSegment's all-on-surface early return and the cel n<10 / cel_iter n<15 switches between scalar and vectorised routines: element-vs-single-call oracle only",
        "np.squeeze / np.expand_dims / reshape semantics are assumed as modelled (shape list + unchanged row-major data), exercised by the stream"],
}["06"]


def run(ctx, model_ok):
    if ctx.driver_ok:
        from corr import trimesh_family
        ctx.cov["correspondence_trimesh"] = trimesh_family.run_stream(ctx, ctx.scale(120, 4000))
        ctx.cov["correspondence_trimesh_batch"] = trimesh_family.run_batch_stream(ctx, ctx.scale(80, 2500))
        from corr import poly_family
        ctx.cov["correspondence_poly"] = poly_family.run_stream(ctx, ctx.scale(150, 5000))
    # the CylinderSegment theorems are about Model/CylSeg*.lean: is the frozen translation still what the source says, and does the port agree with the real code?
    from checks import _cylseg
    _cylseg.run(ctx, ctx.scale(300, 10000))
    _level2.run(ctx, oracle.c06_sweep, {"03": 60, "04": 60, "05": 40, "06": 50}["06"], {"03": 2000, "04": 2000, "05": 1200, "06": 1500}["06"], NOT_SHOWN)
    if ctx.driver_ok:
        # shape bookkeeping of every entry point (positions_output_shape, duplicates_are_kept in Props/C07): iface stream
        from corr import iface_family
        ist = iface_family.run_stream(ctx, ctx.scale(150, 3000))
        ist.pop("samples", None)
        ctx.cov["correspondence_iface"] = ist


replay = _level2.replay
