from checks import _level2
from oracles import level2 as oracle

GEN = ["Tol", "CylSegGen"]
LEAN_TARGETS = ["MagpyVerif.Props.C06", "MagpyVerif.Gen.CylSegGen"]  # CylSegGen: the regenerated CylinderSegment translation and its `sync_*` theorems against the frozen model
PROPS = ["MagpyVerif.Props.C06"]
NOT_SHOWN = {
 "03": ["full getBH pipeline covariance with Sensor observers (proved for position observers; sensors are C04)"],
 "04": ["pixel_agg reductions other than sum/min/max (mean, median, std, ...) are not modelled; the theorem holds for any reduction function of the pixel list, the stream exercises sum/min/max"],
 "05": ["linearity of each class's kernel in its excitation (kernel-level, see C01/C02); proved here: the marshalling preserves it for any F"],
 "06": ["batch-level control flow inside kernels: the whole TriangularMesh batch (flat triangle call, reshape/split sums, row grouping: trimesh_batch_rowwise, trimesh_grouping_rowwise; "
        "trimesh streams) and both branches of the Polyline batch (polyline_batch_rowwise, poly stream) are modelled and proved row-wise; "
        "the complete elliptic integral: the vectorised celv and the dispatcher cel (n < 10: list comprehension over cel0) ARE modelled (Model/Celv.lean, masks and the "
        "body-before-test loop as coded), tied bit for bit by the celbatch rows of the kern stream (batches of 1..40 entries on both sides of the switch, repeated entries, moduli "
        "1e-150..1e150) and proved row-wise on every carrier, IEEE double included: celv_rowwise / celv_entry_eq_alone (entry i of celv(batch) = celv([batch[i]])), celv_reindex "
        "(sub-batches, duplicates, other lengths), celv_perm; celv_eq_cel0_partial / cel_threshold_consistent_partial: celv and cel0 agree on every entry on which cel0 makes at "
        "least one pass. NOT true and therefore not shown: that cel returns the same number on either side of n = 10 for entries with 0 < |1 - |kc|| <= 1e-6 "
        "(cel0 returns without a pass, celv after its forced first pass: celv_ne_cel0_in_band gives the two different real values pi/(1+k) and 2pi/(1+sqrt k)^2; measured on the "
        "real code <= 7e-11 relative in cel, <= 8e-13 relative in Cylinder getB / getH for observers within 5e-7 radii of the axis, 1 vs >= 10 observers — far below the oracle's "
        "1e-7, above the few-ulp level) and at kc = 0 (cel0 raises, celv does not return: Props/C15 celv_loops_at_zero)",
        "Cylinder batches: BHJM_magnet_cylinder / magnet_cylinder_axial_Bfield / magnet_cylinder_diametral_Hfield ARE modelled on whole batches as coded (Model/CylinderBatch.lean: per-row "
        "masks, the sub-batch of mask_pol_tv rows, within it the slice of mask_general rows on which cel is called, the sub-batch of mask_pol_ax rows, masked write-back, cel = the "
        "dispatcher) and tied by the cylbatch rows of the kern stream (1..40 rows, sub-batch sizes straddling 10 separately, rows on r = r0, on the axis, in-band moduli, repeated and "
        "permuted rows; batches with axial polarization only: relative 1e-14, largest seen 8e-16 — the two cel paths differ by up to 7e-13 there; otherwise 1e-10, largest seen 3e-12, "
        "scipy ellipk / ellipe against their cel0 forms). Proved: cylinder_batch_rowwise (every carrier, IEEE double included: row i of the batch = the one-row function with cel0 or "
        "celv's per-entry loop according to the two sub-batch COUNTS and nothing else of the other rows), cylinder_batch_rowwise_small / _below_threshold (fewer than 10 rows reaching "
        "each kernel: row-wise without exception, bit for bit), cylinder_batch_rowwise_off_band (exact arithmetic: row-wise for every batch if no cel modulus of a row is 0 or within "
        "1e-6 of 1), cylinder_batch_perm, cylinder_row_depends_on_counts_only (audit2: by itself a congruence — celPath reads its count only through count < 10; its batch-level form is "
        "cylinder_batch_entry_same_side: the same row in two returning calls on the same side of both thresholds gets the same value). The row-wise / perm / same-side statements are equations of Option values or are "
        "conditional on the call returning; that bhjmCylinderBatch returns in exact arithmetic is shown for the example rows only (no general termination theorem for the batch; the celv part needs kc != 0 for every "
        "cel entry a row contributes, Props/C15 celv_terminates; at IEEE double it is observed on the rows of the stream only). NOT true and therefore not shown: row-wise across the threshold for rows with a modulus in the band — "
        "observers within ~5e-7 radii of the axis (axial kernel) or farther than ~1400 radii (diametral kernel): cel_band_exact gives the two values (return expression before / after "
        "the forced first pass, any p, c, s), cel_band_difference_le bounds their difference for the first-kind integral (p = c = s = 1) by (1-k)^2/15 <= 6.7e-14 relative "
        "(audit2: that entry shape is NOT one the Cylinder kernels pass to cel — they pass (k, 1, 1, -1) and (k, gamma^2, 1, gamma) in the axial and (k, 1 - argc, 1, 1), argc != 0, in the diametral "
        "kernel; celv_ne_cel0_in_band and cel_band_difference_le are therefore statements about the dispatcher cel, not about a Cylinder row; for the shape (k, 1, 1, -1) of the axial Br "
        "cel_band_axial_entry gives both values in closed form, that they differ for k != 1, and the bound (1-k)^2/10 <= 1e-13 relative — confirmed on the real cel: 2.35e-14 at k = 1 + 5e-7; "
        "for the other two entry shapes no bound is proved, and no theorem shows that Br, Bz or a Cylinder ROW differs between the two sides of the threshold or by how much: at the level of "
        "BHJM_magnet_cylinder the band is neither proved row-wise nor refuted in exact arithmetic, 'NOT true' above rests on the 18 differing real-code rows of the cylbatch stream, i.e. on IEEE double); for general "
        "p, c, s no bound is proved — measured through BHJM_magnet_cylinder on the real code <= 1.8e-12 relative (cylbatch rows: rows that differ between the batch and the single call, "
        "all in the band; off the band the real batch row is bit-identical to the single call, checked on every cylbatch row). scipy's ellipk / ellipe inside the batch are modelled "
        "per row through cel0 (they are elementwise ufuncs). "
        "cel_iter (n < 15 pre-loop whose result is discarded, then cel_iterv on all rows): modelled (celIterV, kern stream celiter rows); cel_iterv_same_pass_count (every carrier: all "
        "entries get the same number N of passes, N the first count at which all meet the exit test) and cel_iterv_passes_partial (exact arithmetic, rows of the loop's shape such as "
        "the Circle kernel's: an entry that has met its test keeps meeting it, so N is the LARGEST of the entries' own pass counts, each entry alone would stop after its own N_i <= N, "
        "and N is attained by the slowest entry, which gets exactly its own value); cel_iterv_extra_pass_at_fixed_point (a pass does not change the return expression at the fixed "
        "point 2 sqrt(kk) = em; audit2: under the loop's shape this hypothesis says g = qc, a state the iteration reaches only if the entry STARTS there — so it covers an entry that is exactly converged on entry "
        "and waits for slower ones, and no extra pass of an entry that is still converging); cel_iter_dispatch_is_iterv_partial (audit2): the function the driver and the celiter rows run, celIterDispatch = cel_iter "
        "with its n < 15 pre-loop, equals celIterV on rows of the loop's shape for every batch length and fuel (exact arithmetic), which is what makes the three celIterV theorems statements about the driver-run function. NOT shown: a bound on how much the N - N_i extra passes change an entry's value before the fixed point (it contracts quadratically with em - 2 sqrt(kk); "
        "measured on Circle getB <= 6e-16 relative), i.e. entry i of cel_iterv(batch) = cel_iter0(batch[i]) is false in exact arithmetic and no tolerance statement replaces it. "
        "el3 / el3v (n < 10 switch, CylinderSegment): only the control-flow skeleton of el3v's main loop is modelled (MaskedLoop: body on mask10, test on all "
        "entries, post on mask11, mask10 = mask11) and proved row-wise for abstract per-entry statements (el3v_loop_rowwise_partial; that every statement under a mask acts on the "
        "entry's own variables is read off the source; el3v's prologue masks are not modelled); the VALUES of el3 on a batch are modelled entry by entry through the port of the scalar el30 and tied by the el3batch rows "
        "of the kern stream (real el3 / el3v on batches of 1..40 entries, relative 1e-12, largest seen 3e-15; el3v(batch)[i] bit-identical to el3v([batch[i]]) on the real code); "
        "for x < 0 in the logarithmic branch (bo false, bk false) el30 raises ValueError (int(nan)) where el3v returns NaN (known finding el3-nan-to-int; public API: "
        "1-9 vs >= 10 observers). CylinderSegment's all-on-surface early return: element-vs-single-call oracle only",
        "np.squeeze / np.expand_dims / reshape semantics are assumed as modelled (shape list + unchanged row-major data), exercised by the stream",
        "short paths (audit2): the pipeline model the driver runs reads clampGet on the UNTILED paths; short_paths_edge_padded / level1_reads_tiled_paths prove that this is indexing the tiled arrays of the tiling "
        "model tilePath (Model/Level2State.lean, C08) — a model-to-model link; tilePath is not run by the driver, that np.concatenate((path, np.tile(path[-1], ...))) is tilePath is read off the source, and the tie to the "
        "code is the level2 / level2f streams (cases_with_short_multi_step_path, distinguishes_cyclic_tiling). cyclic_tiling_differs compares the two index functions xs[m % len] and xs[min m (len-1)] on [a, b] at "
        "index 2, not two pipelines; short_path_stays_at_last_pose / short_path_source_evaluated_at_last_pose unfold clampGet (for an empty path both sides are none / 0)"],
}["06"]


def run(ctx, model_ok):
    if ctx.driver_ok:
        from corr import trimesh_family
        ctx.cov["correspondence_trimesh"] = trimesh_family.run_stream(ctx, ctx.scale(120, 4000))
        ctx.cov["correspondence_trimesh_batch"] = trimesh_family.run_batch_stream(ctx, ctx.scale(80, 2500))
        from corr import poly_family
        ctx.cov["correspondence_poly"] = poly_family.run_stream(ctx, ctx.scale(150, 5000))
        # celv / cel on whole batches (Model/Celv.lean; Props/C06 celv_rowwise, celv_perm, cel_threshold_consistent_partial), BHJM_magnet_cylinder on whole batches (Model/CylinderBatch.lean; cylinder_batch_rowwise, cylinder_batch_rowwise_off_band, cylinder_batch_perm), cel_iter batches, cel0
        from corr import kern_family
        kst = kern_family.run_stream(ctx, ctx.scale(150, 5000), only=["celbatch", "cylbatch", "celbatch", "el3batch", "cylbatch", "celiter", "cel0"])
        kst.pop("samples", None)
        ctx.cov["correspondence_cel_batch"] = {k: kst[k] for k in ("rows", "per_kind", "disagreements", "celbatch", "cylbatch", "el3batch", "branch")}
    # the CylinderSegment theorems are about Model/CylSeg*.lean: is the frozen translation still what the source says, and does the port agree with the real code?
    from checks import _cylseg
    _cylseg.run(ctx, ctx.scale(300, 10000))
    _level2.run(ctx, oracle.c06_sweep, {"03": 60, "04": 60, "05": 40, "06": 50}["06"], {"03": 2000, "04": 2000, "05": 1200, "06": 1500}["06"], NOT_SHOWN)
    if ctx.driver_ok:
        # shape bookkeeping of every entry point (positions_output_shape, duplicates_are_kept in Props/C07): iface stream
        from corr import iface_family
        ist = iface_family.run_stream(ctx, ctx.scale(150, 3000))
        ist.pop("samples", None)
        ctx.cov["correspondence_iface"] = ist


replay = _level2.replay
