from checks import _level2
from oracles import level2 as oracle

GEN = []
LEAN_TARGETS = ["MagpyVerif.Props.C04"]
PROPS = ["MagpyVerif.Props.C04"]
NOT_SHOWN = {
 "03": ["full getBH pipeline covariance with Sensor observers (proved for position observers; sensors are C04)"],
 "04": ["pixel_agg reductions other than sum/min/max (mean, median, std, ...) are not modelled; the theorem holds for any reduction function of the pixel list, the stream exercises sum/min/max"],
 "05": ["linearity of each class's kernel in its excitation (kernel-level, see C01/C02); proved here: the marshalling preserves it for any F"],
 "06": ["batch-level control flow inside kernels (rowwise_c: trimesh grouping, segment early return, cel n<10) — kernel model pending",
        "np.squeeze / np.expand_dims / reshape semantics are assumed as modelled (shape list + unchanged row-major data), exercised by the stream"],
}["04"]


def run(ctx, model_ok):
    _run(ctx, model_ok)
    # observers_as_positions (Props/C07): position arrays as observers = a Sensor at the origin holding them as pixel; the glue
    # model (Model/Iface.lean) is tied by the iface stream
    if ctx.driver_ok:
        from corr import iface_family
        ist = iface_family.run_stream(ctx, ctx.scale(150, 3000))
        ist.pop("samples", None)
        ctx.cov["correspondence_iface"] = ist


def _run(ctx, model_ok):
    _level2.run(ctx, oracle.c04_sweep, {"03": 60, "04": 60, "05": 40, "06": 50}["04"], {"03": 2000, "04": 2000, "05": 1200, "06": 1500}["04"], NOT_SHOWN)


replay = _level2.replay
