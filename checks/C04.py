from checks import _level2
from oracles import level2 as oracle

GEN = ["Handed"]  # the handedness branch of getBH_level2 (literal, component, factor, position), pinned by Props/C04 source_handedness_branch / left_handed_flips_x
LEAN_TARGETS = ["MagpyVerif.Props.C04"]
PROPS = ["MagpyVerif.Props.C04"]
NOT_SHOWN = {
 "03": ["full getBH pipeline covariance with Sensor observers (proved for position observers; sensors are C04)"],
 "04": ["pixel_agg as ANY reduction IS modelled and proved (c03post): Model/Level2.getBHF takes the reduction as a function of the pixel list; "
        "`pixel_agg_is_reduction_of_sensor_frame_values`: element (l, m, k) of the result = f over exactly sensor k's own pixels of the SENSOR-FRAME values "
        "(global field at the pixel's global position, rotated by the sensor's orientation at path index m, x-flipped iff left-handed -- all BEFORE f), both "
        "pixel-shape branches; `..._named` = the sum / min / max instance of the integer driver (`getBH_eq_F`). mean / median / std / ptp / min / max / sum run "
        "in the driver at IEEE double (Model/PixelAgg.lean, stream level2f, relative tolerance 1e-9, rotated and left-handed multi-pixel sensors, mixed shapes); "
        "nothing is proved ABOUT the numpy reductions (e.g. that np.median is the median): they are arbitrary functions in the theorems and ported functions in the stream",
        "short paths (C04/C06, Props/C06 `short_paths_edge_padded`): indexing the tiled path of the C08 tiling model equals clampGet = the object's LAST pose at "
        "every index beyond its own path, with the witness `cyclic_tiling_differs`; the interface streams (iface) run min / max only (integer model), "
        "median / std go through getB directly in level2f",
        "audit2: (a) `pixel_agg_is_reduction_of_sensor_frame_values` is stated for sumup=False (either squeeze: `..._any_squeeze`; the data do not depend on squeeze BY "
        "DEFINITION of the model, `getBHF_data_squeeze_irrelevant`); with sumup=True the statement is Props/C05 `sumup_of_pixel_agg_is_sum_of_aggregates` (sum over the sources of "
        "the aggregated values). (b) the handedness flip is an ABSTRACT function `flipX : V -> V` in every theorem: they say that it is applied to a left-handed "
        "sensor's own values after the rotation and before the reduction, NOT that it negates the x-component -- that is the definition `flipX a = (-a.x, a.y, a.z)` in "
        "Driver/Level2Fam.lean / Level2FFam.lean, tied by the streams (left-handed sensors: counter `of_these_left_handed`). (c) the reduction is modelled as a function "
        "of the ROW-MAJOR FLATTENED pixel list; numpy reduces over several pixel axes at once (`axis=tuple(...)`) when all shapes are equal: that this is the same "
        "function of the flattened list is assumed for every numpy reduction (true for the symmetric ones), exercised by the streams with (n1, n2) pixel shapes. "
        "(d) a reduction of an EMPTY pixel list is 0 in the model (`aggList [] = 0`, `npMin [] = 0`); numpy raises for min / max of an empty axis -- a zero-pixel "
        "sensor passes `Sens.WF` but not the library's validators. (e) carrier: the theorem is over an abstract group; `..._on_driver_carrier` (audit2) transfers it to "
        "the `M3 Int` evaluation for octahedral matrices and ANY `f : List (V3 Int) -> V3 Int`, with an applied example on mixed pixel shapes (2,) / (3,), a left-handed "
        "rotating sensor and a short sensor path. The level2f stream evaluates `getBHF` at `M3 Float` / `V3 Float`, where no theorem applies: link = same polymorphic definition. "
        "audit2 added `named_numpy_reduction_is_reduction_of_sensor_frame_values`: the level2f driver expression (`byName name = some (some f)`, `getBHF ... (some f)`) at "
        "V3 Real with the octahedral group acting on it (Lemmas/Audit2C04.lean) is an instance of the theorem, applied in an example with Model/PixelAgg.npMedian -- "
        "exact real arithmetic, octahedral rotations only; nothing is proved about Float"],
 "05": ["linearity of each class's kernel in its excitation (kernel-level, see C01/C02); proved here: the marshalling preserves it for any F"],
 "06": ["batch-level control flow inside kernels (rowwise_c: trimesh grouping, segment early return, cel n<10) — kernel model pending",
        "np.squeeze / np.expand_dims / reshape semantics are assumed as modelled (shape list + unchanged row-major data), exercised by the stream"],
}["04"]


def run(ctx, model_ok):
    _run(ctx, model_ok)
    # observers_as_positions (Props/C07): position arrays as observers = a Sensor at the origin holding them as pixel; the glue
    # model (Model/Iface.lean) is tied by the iface stream
    if ctx.driver_ok:
        from corr import iface_family
        ist = iface_family.run_stream(ctx, ctx.scale(150, 3000))
        ist.pop("samples", None)
        ctx.cov["correspondence_iface"] = ist


def _run(ctx, model_ok):
    _level2.run(ctx, oracle.c04_sweep, {"03": 60, "04": 60, "05": 40, "06": 50}["04"], {"03": 2000, "04": 2000, "05": 1200, "06": 1500}["04"], NOT_SHOWN)


replay = _level2.replay
