from checks import _level2
from oracles import level2 as oracle

GEN = []
LEAN_TARGETS = ["MagpyVerif.Props.C04"]
PROPS = ["MagpyVerif.Props.C04"]
NOT_SHOWN = {
 "03": ["full getBH pipeline covariance with Sensor observers (proved for position observers; sensors are C04)"],
 "04": ["pixel_agg as ANY reduction IS modelled and proved (c03post): Model/Level2.getBHF takes the reduction as a function of the pixel list; "
        "`pixel_agg_is_reduction_of_sensor_frame_values`: element (l, m, k) of the result = f over exactly sensor k's own pixels of the SENSOR-FRAME values "
        "(global field at the pixel's global position, rotated by the sensor's orientation at path index m, x-flipped iff left-handed -- all BEFORE f), both "
        "pixel-shape branches; `..._named` = the sum / min / max instance of the integer driver (`getBH_eq_F`). mean / median / std / ptp / min / max / sum run "
        "in the driver at IEEE double (Model/PixelAgg.lean, stream level2f, relative tolerance 1e-9, rotated and left-handed multi-pixel sensors, mixed shapes); "
        "nothing is proved ABOUT the numpy reductions (e.g. that np.median is the median): they are arbitrary functions in the theorems and ported functions in the stream",
        "short paths (C04/C06, Props/C06 `short_paths_edge_padded`): indexing the tiled path of the C08 tiling model equals clampGet = the object's LAST pose at "
        "every index beyond its own path, with the witness `cyclic_tiling_differs`; the interface streams (iface) run min / max only (integer model), "
        "median / std go through getB directly in level2f"],
 "05": ["linearity of each class's kernel in its excitation (kernel-level, see C01/C02); proved here: the marshalling preserves it for any F"],
 "06": ["batch-level control flow inside kernels (rowwise_c: trimesh grouping, segment early return, cel n<10) — kernel model pending",
        "np.squeeze / np.expand_dims / reshape semantics are assumed as modelled (shape list + unchanged row-major data), exercised by the stream"],
}["04"]


def run(ctx, model_ok):
    _run(ctx, model_ok)
    # observers_as_positions (Props/C07): position arrays as observers = a Sensor at the origin holding them as pixel; the glue
    # model (Model/Iface.lean) is tied by the iface stream
    if ctx.driver_ok:
        from corr import iface_family
        ist = iface_family.run_stream(ctx, ctx.scale(150, 3000))
        ist.pop("samples", None)
        ctx.cov["correspondence_iface"] = ist


def _run(ctx, model_ok):
    _level2.run(ctx, oracle.c04_sweep, {"03": 60, "04": 60, "05": 40, "06": 50}["04"], {"03": 2000, "04": 2000, "05": 1200, "06": 1500}["04"], NOT_SHOWN)


replay = _level2.replay
