"""C10 — operations on a Collection keep every child's pose relative to it"""
from corr import path_family
from oracles import c10 as oracle

GEN = ["PathPad"]
LEAN_TARGETS = ["MagpyVerif.Props.C10"]
PROPS = ["MagpyVerif.Props.C10"]


def run(ctx, model_ok):
    if ctx.driver_ok:
        st = path_family.run_stream(ctx, ctx.scale(150, 4000), ctx.scale(8, 10), equal_lengths_share=0.7)
        ctx.cov["evaluations"] = st["ops"]
        ctx.cov["distinct_nontrivial"] = st["distinct_states"]
        ctx.cov["rule"] = ("seeded random histories on random collection trees (≤6 nodes, nesting ≤ depth of a random recursive tree), "
                           "70% in the equal-path-length regime operated at the root (incl. the rotate_from_* entry points with raw arguments, add of a fresh object / nested "
                           "collection followed by a position assignment that restores the common length, remove; 20% of the operations addressed to a DESCENDANT with length-preserving scalar input — "
                           "the regime of history_refines_spec_any_address), rest unrestricted (any address, any input); own-sensor rows: trees of CustomSource leaves (integer affine field "
                           "functions), one sensor and idle objects, getB(collection, sensor) compared exactly with the model reading after every operation and with the reading before the "
                           "operation through the index map; distinct = distinct full tree states")
        ctx.cov["traces_validated_against_impl"] = st["histories"]
        ctx.cov["samples"] = st.pop("samples")
        ctx.cov["correspondence"] = st
        # own-sensor row: exact tie of `Node.ownTensor` (the reading the theorems are about) to getB(collection, own sensor) after every
        # operation, and the before/after index-map relation of `own_sensor_reading_invariant_history` on the real values
        ctx.cov["own_sensor_stream"] = path_family.run_own_sensor_stream(ctx, ctx.scale(40, 900), ctx.scale(8, 10))
    else:
        ctx.cov["correspondence"] = "driver did not build"
    budget = 10 if len(ctx.broken) else 1
    fails, ost = oracle.sweep(ctx, ctx.scale(40, 1200) * budget, 8)
    f2, ost2 = oracle.own_sensor_sweep(ctx, ctx.scale(25, 600) * budget)
    ctx.cov["oracle"] = {**ost, **ost2}
    ctx.failing += fails + f2
    ctx.cov.setdefault("evaluations", ost["oracle_ops"])
    ctx.cov.setdefault("distinct_nontrivial", ost["oracle_ops"])
    ctx.cov.setdefault("samples", [{"oracle": ost}])
    ctx.cov["not_shown"] = [
        "histories with operations at ANY address ARE covered (history_refines_spec_any_address: abstract state with the tree shape kept, induction over the operation "
        "list and over the address; history_index_map: closed index map `histIdx`; own_sensor_reading_invariant_history) under `AdmissibleAt`: an operation addressed "
        "to a DESCENDANT must keep the path length (scalar input with start inside the path, vector input merged inside the path, a setter with an input of the current "
        "length) — a descendant whose path gets longer or shorter than the collection's leaves the property's domain (members share the collection's path length) until "
        "a `position=` / `orientation=` / `reset_path` on the collection restores the common length; that re-entry is sampled by the stream but not stated as a theorem",
        "history_index_map / own_sensor_reading_invariant_history speak about members the history does not touch (`histTrack`: not removed, not addressed themselves or "
        "through an ancestor below the collection); for a touched member the new relative path is given by the abstract step (descendant_step_spelled_out: "
        "`relPath frame (objStep (compose frame rel) op)`), not by an index map — by design (operating on a child alone changes that child)",
        "on the driver's carrier (M3 Int, inverse = transpose): history_index_map_on_driver_carrier covers histories of base operations at any address with octahedral "
        "inputs (rotate_from_* steps are such steps by C09(j); add / remove copy subtrees); own_sensor_reading_invariant_history is proved over a group only — on the carrier it "
        "follows from history_index_map_on_driver_carrier with tensor_eq_spec_on_driver_carrier, not instantiated; the driver's reading (`Node.ownTensor` = Model/Level2 `tensor` on "
        "the objects at the addresses) is tied to getB(collection, own sensor) exactly by the `path` own-sensor rows, and its equality with `reading` is `tensor_eq_spec` (C06), "
        "restated for ownTensor by audit2 (`ownTensor_eq_readings`; `own_sensor_tensor_invariant_history`: row i of the driver's tensor after the history = row histIdx(i) before, both "
        "rows exist) over a group with lawful BEq — still not instantiated on the M3 Int carrier",
        "audit2: own_sensor_field_invariant is the one-operation statement for `rotate` / rotate_from_* on the collection only; move / position= / orientation= / reset_path reach the "
        "own-sensor reading only through own_sensor_reading_invariant_history (members not touched, `AdmissibleAt`). 'Invariant' means: the reading at new index i equals the reading at "
        "the old index the operation's index map sends i to (paths change length), not equality of whole arrays",
        "audit2: relative poses are tracked in the frame of the ROOT collection of the tree (history_index_map, history_index_map_some). For an operation addressed to an INNER collection "
        "the invariance of its members' poses relative to THAT collection is contained in the abstract step (descendant_step_spelled_out: the child's own forest is re-indexed) and follows "
        "by applying the root theorems to the subtree (`Node.modifyAt (i :: rest)` acts on child i as `modifyAt rest`); the projection of a mixed history onto a subtree is not stated as a theorem",
        "audit2: `Admissible` / `AdmissibleAt` require an added object or collection to have the CURRENT common path length (`c.UniformLen N`): adding a fresh length-1 object to a collection "
        "whose path is longer leaves the property's domain like a length-changing descendant operation does; the proved counter-example in Props/C10 shows that the equal-length hypothesis "
        "cannot be dropped (relative pose at index 1 changes under a vector `move` of a collection whose child has a longer path)",
        "float rounding: oracle (coll.getB with an internal sensor, 1e-9); the own-sensor stream rows are exact (integer positions, octahedral rotations, integer affine field functions)",
    ]
    ctx.assumptions += ["scipy Rotation is a group acting linearly on R^3", "np.pad(edge)/slicing behave as edgePad/mapSlice"]


def replay(ctx, payload):
    import json
    print(json.dumps(payload, indent=1)[:4000])
    return 0
