"""C10 — operations on a Collection keep every child's pose relative to it"""
from corr import path_family
from oracles import c10 as oracle

GEN = ["PathPad"]
LEAN_TARGETS = ["MagpyVerif.Props.C10"]
PROPS = ["MagpyVerif.Props.C10"]


def run(ctx, model_ok):
    if ctx.driver_ok:
        st = path_family.run_stream(ctx, ctx.scale(150, 4000), ctx.scale(8, 10), equal_lengths_share=0.7)
        ctx.cov["evaluations"] = st["ops"]
        ctx.cov["distinct_nontrivial"] = st["distinct_states"]
        ctx.cov["rule"] = ("seeded random histories on random collection trees (≤6 nodes, nesting ≤ depth of a random recursive tree), "
                           "70% in the equal-path-length regime operated at the root (incl. the rotate_from_* entry points with raw arguments, add of a fresh object / nested "
                           "collection followed by a position assignment that restores the common length, remove), rest unrestricted; distinct = distinct full tree states")
        ctx.cov["traces_validated_against_impl"] = st["histories"]
        ctx.cov["samples"] = st.pop("samples")
        ctx.cov["correspondence"] = st
    else:
        ctx.cov["correspondence"] = "driver did not build"
    budget = 10 if len(ctx.broken) else 1
    fails, ost = oracle.sweep(ctx, ctx.scale(40, 1200) * budget, 8)
    f2, ost2 = oracle.own_sensor_sweep(ctx, ctx.scale(25, 600) * budget)
    ctx.cov["oracle"] = {**ost, **ost2}
    ctx.failing += fails + f2
    ctx.cov.setdefault("evaluations", ost["oracle_ops"])
    ctx.cov.setdefault("distinct_nontrivial", ost["oracle_ops"])
    ctx.cov.setdefault("samples", [{"oracle": ost}])
    ctx.cov["not_shown"] = [
        "histories (history_refines_spec): operations addressed to the collection itself, plus add / remove of its children; an operation addressed to a "
        "descendant changes that descendant's relative pose by design (child_operation_is_local) — a history is cut there and the theorem applies again from the "
        "next state whose members share one path length; the composed index map of a history is the fold of the per-step maps (specStep), not a closed formula",
        "own_sensor_field_invariant is stated for rotate (every rotate_from_* form, anchor, start) on the group carrier; for move / setters / whole histories the same "
        "conclusion follows from reading_eq_of_relAt_eq with the relative-pose equalities of history_refines_spec, not instantiated as separate theorems; "
        "float rounding: oracle (coll.getB with an internal sensor, 1e-9)",
    ]
    ctx.assumptions += ["scipy Rotation is a group acting linearly on R^3", "np.pad(edge)/slicing behave as edgePad/mapSlice"]


def replay(ctx, payload):
    import json
    print(json.dumps(payload, indent=1)[:4000])
    return 0
