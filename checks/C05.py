from checks import _level2
from checks import _sym
from oracles import level2 as oracle

GEN = ["Tol", "CylSegGen"] + _sym.GEN
LEAN_TARGETS = ["MagpyVerif.Props.C05", "MagpyVerif.Gen.CylSegGen"] + _sym.LEAN_TARGETS  # CylSegGen: the regenerated CylinderSegment translation and its `sync_*` theorems against the frozen model
PROPS = ["MagpyVerif.Props.C05"] + _sym.PROPS
NOT_SHOWN = {
 "03": ["full getBH pipeline covariance with Sensor observers (proved for position observers; sensors are C04)"],
 "04": ["pixel_agg reductions other than sum/min/max (mean, median, std, ...) are not modelled; the theorem holds for any reduction function of the pixel list, the stream exercises sum/min/max"],
 "05": ["TriangularMesh: linearity in the polarization vector IS proved for the modelled BHJM_magnet_trimesh (c03post, `trimesh_linear_in_polarization`: B, H, J, M, "
        "in_out='auto' with the inside term; per row of any batch -- different meshes, face counts, repeated meshes, different polarizations per row -- via "
        "C13.trimesh_is_wrapH_of_sheets, triangleB_linear per sheet and wrapH_linear; the inside verdict is a function of mesh identity and observer, hence "
        "independent of the polarization as long as the grouping key does not look at it, hypothesis `hid`, met by the code's comparison of the mesh arrays). "
        "NOT shown: the ray-casting inside test itself is a parameter here (its own properties are C16 / C02 trimesh_ray_test_*); in_out='inside' / 'outside' "
        "(keyword handling is C02 inout_*); float rounding. Also proved: the marshalling preserves linearity for any F, and the Dipole, Sphere (C12), segment, "
        "Circle, Cuboid, Triangle, Tetrahedron kernels are linear",
        "WRAPPER level (c05wrap, Lemmas/WrapLinear.lean, any value of mu_0, all four fields, arbitrary real a, b and arbitrary excitations): f(a p + b q) = a f(p) + b f(q) IS proved for "
        "every modelled BHJM wrapper through every mask row -- Cuboid (`cuboid_wrapper_linear`: inside / outside / face / edge / zero side and the `pol == 0` rows; the mask is shown "
        "redundant, `cuboid_pol_mask_is_redundant`, because the closed form vanishes at p = 0, `cuboid_kernel_vanishes_at_zero_polarization`), Sphere, Dipole (r != 0), the Polyline "
        "segment row with its start == end and on-the-line masks and a whole Polyline instance, Circle (zero diameter / on the wire / on the axis / general; equation between optional "
        "results, definedness independent of the current), Triangle / Tetrahedron / TriangularMesh row (no excitation masks), CylinderSegment (`cylseg_linear_in_magnetization`, NaN rows "
        "included) and the function the class calls (`cylseg_internal_wrapper_linear`, 360-degree branch = difference of two Cylinders), Cylinder (`cylinder_wrapper_linear`: if the code "
        "returns for p and q it RETURNS for a p + b q with the combined value, whatever mask rows -- zero / axial-only / transversal-only / mixed, on the edge -- the three polarizations "
        "fall into; `cylinder_wrapper_linear_total`: unconditional for 0 < d, 0 <= h with the fuel of C15). No wrapper thresholds the size of the excitation (all excitation masks are exact "
        "== 0 tests), so none of these needs a witness. The ONE row that is not linear: the Dipole at its own position (`r == 0` mask: +-inf per non-zero moment component, 0 "
        "otherwise; Model/DipoleSing.lean, driver `kern dipole0`): witness `dipole_at_position_not_additive` (H(1,0,0) = (+inf,0,0), H(-1,0,0) = (-inf,0,0), H of the sum = 0), what holds "
        "there `dipole_at_position_homogeneous_partial` (positive factors, oddness). NOT shown: float rounding (measured on the real code by the stream kind `exccancel`: linearity residual <= 2e-14 of the field scale in 4800 rows of two seeds); the statement "
        "for the Cylinder as an equation between optional results is false for a finite fuel (the sum of two polarizations may skip a kernel whose cel0 ran out of fuel) -- an artefact of "
        "the fuel, not of the code. Tie: stream kind `exccancel` (corr/exccancel_rows.py): per wrapper kind one real call on six rows p, -p, signed zeros, q, a p + b q, +0 (zero patterns: "
        "none / one / two / all components; q cancelling the transversal or axial part of p), each row against the port",
        "sumup and pixel_agg (c03post): the code sums over the source axis AFTER rotation / flip AND after pixel_agg. Proved for any reduction: "
        "`sumup_after_eq_sum_before` (flat element j of sumup=True = sum over entries of element l*N + j of sumup=False), `sumup_commutes_with_sensor_frame` "
        "(no pixel_agg: = reading of ONE compound source of all entries), `sumup_of_pixel_agg_is_sum_of_aggregates` (what the code returns with a pixel_agg: "
        "sum over entries of f(readings of the entry)), `sumup_commutes_with_additive_pixel_agg` (additive f, e.g. sum / mean: = f(readings of the compound)), "
        "and the witness `sum_of_max_ne_max_of_sum` (max: (1,0,0) vs (0,0,0)): for non-linear reductions sumup is NOT the aggregate of the summed field, "
        "by design of the code; whether that is the intended meaning of sumup + pixel_agg is not decided here (the docstrings do not say)",
        "CylinderSegment: full linearity in the polarization VECTOR of all four outputs of the ported BHJM_cylinder_segment IS proved (`cylseg_linear_in_magnetization`: 129 case functions "
        "each linear in the unit vector, statements generated from the source's parameter lists (Lemmas/KernCylSegLinGen.lean, kept in sync by cylseg_lin_in_sync), the code's "
        "arctan2-conversion proved a right inverse of spherical->Cartesian for every vector); ellipkinc / ellipeinc / el3_angle are opaque functions (they never see the magnetization "
        "angles: `cylseg_special_functions_magnetization_free`); the batch path of el3 (n >= 10 rows) and float rounding are not modelled",
        "Cylinder (ported BHJM_magnet_cylinder, single-row path, cel0 opaque): full linearity in the polarization IS proved (`cylinder_linear_in_polarization`, whenever "
        "the three evaluations return; `cylinder_wrapper_linear`: the third returns whenever the first two do; plus proportionality and transversal + axial split as equalities of "
        "optional results); not modelled: the vectorised celv path (n >= 10 rows)",
        "(audit 2) literal reading of the new theorems. The four sumup / pixel_agg theorems are stated for an abstract Group G with a DistribMulAction; the driver runs getBHF at "
        "M3 Int (family level2, through getBH_eq_F) and at M3 Float (family level2f), neither a group: `sumup_after_eq_sum_before_on_driver_carrier`, "
        "`sumup_of_pixel_agg_is_sum_of_aggregates_on_driver_carrier`, `sumup_commutes_with_sensor_frame_on_driver_carrier` (added by audit 2, octahedral rotation matrices, transfer "
        "along getBHF_mapG) close this for M3 Int; NOTHING is proved about the Float evaluation (stream level2f only, tolerance 1e-9), and real rotations are a group only up to rounding. "
        "`sumup_commutes_with_additive_pixel_agg`: the hypotheses hadd / hzero are shown to hold for `sum` only (`sum_is_additive_reduction`); `mean` is named in the text above but no "
        "theorem instantiates it. `sum_of_max_ne_max_of_sum` is a `decide` on the driver's carrier (genuine witness). `cylseg_special_functions_magnetization_free` is a `decide` over the "
        "table emitted by the translator (Model/CylSeg.lean, pinned to Gen/CylSegGen.lean by sync_specialCallDeps := rfl; 84 entries, non-emptiness now stated: "
        "`cylseg_special_call_table_nonempty`); `magArgOffences = []` is the translator's own verdict, its scan is trusted; the Lean proof of cylseg_linear_in_magnetization does not use "
        "either table. Circle / Cylinder: `circleHcyl_linear_total`, `cylinder_linear_in_polarization_total` (audit 2) discharge the `some` hypotheses by the termination lemmas behind C15 "
        "(d > 0, h >= 0, resp. q2 > 0; input-dependent fuel bound, <= 200 shown for cel_iter0 only). CylinderSegment: equality of Options, `none` = NaN row on both sides; that the row is "
        "`some` off the NaN case ids is C06 dispatch_falls_through_iff, not restated here. TIE: bhjmTrimesh (trimesh_linear_in_polarization) is not run against the real code by THIS check "
        "(streams trimesh / trimesh batch: checks/C02.py, C06.py); the inside test and the mesh identification are free parameters of the theorem"],
 "06": ["batch-level control flow inside kernels (rowwise_c: trimesh grouping, segment early return, cel n<10) — kernel model pending",
        "np.squeeze / np.expand_dims / reshape semantics are assumed as modelled (shape list + unchanged row-major data), exercised by the stream"],
}["05"]


def run(ctx, model_ok):
    _sym.run(ctx, ctx.scale(70, 2000))
    _level2.run(ctx, oracle.c05_sweep, {"03": 60, "04": 60, "05": 40, "06": 50}["05"], {"03": 2000, "04": 2000, "05": 1200, "06": 1500}["05"], NOT_SHOWN)
    if ctx.driver_ok:
        # the kernel-linearity theorems are about the ports in Model/Kernels.lean: tie them to the real functions on this run too
        from corr import kern_family
        st = kern_family.run_stream(ctx, ctx.scale(360, 18000))
        st.pop("samples")
        ctx.cov["correspondence_kern"] = st
        ctx.cov["traces_validated_against_impl"] = ctx.cov.get("traces_validated_against_impl", 0) + st["rows"]
        # the wrapper-level linearity theorems (c05wrap) run through the excitation masks: for every wrapper kind batches of six rows
        # p, -p, signed zeros, q, a p + b q, +0 with zero patterns in p and q, each row against the port (corr/exccancel_rows.py)
        st = kern_family.run_stream(ctx, ctx.scale(66, 3300), only=["exccancel"])
        st.pop("samples")
        ctx.cov["correspondence_exccancel"] = {"rows": st["rows"], "disagreements": st["disagreements"], **st["exccancel"]}
        ctx.cov["traces_validated_against_impl"] += st["rows"]
    if ctx.driver_ok:
        # (audit2) trimesh_linear_in_polarization is about Model/TrimeshSum.bhjmTrimesh (per row of any batch): tie it on this check's run too
        from corr import trimesh_family
        ctx.cov["correspondence_trimesh_batch"] = trimesh_family.run_batch_stream(ctx, ctx.scale(40, 1200))
    # the CylinderSegment theorems are about Model/CylSeg*.lean: is the frozen translation still what the source says, and does the port agree with the real code?
    from checks import _cylseg
    _cylseg.run(ctx, ctx.scale(300, 10000))


replay = _level2.replay
