from checks import _level2
from checks import _sym
from oracles import level2 as oracle

GEN = ["Tol", "CylSegGen"] + _sym.GEN
LEAN_TARGETS = ["MagpyVerif.Props.C05", "MagpyVerif.Gen.CylSegGen"] + _sym.LEAN_TARGETS  # CylSegGen: the regenerated CylinderSegment translation and its `sync_*` theorems against the frozen model
PROPS = ["MagpyVerif.Props.C05"] + _sym.PROPS
NOT_SHOWN = {
 "03": ["full getBH pipeline covariance with Sensor observers (proved for position observers; sensors are C04)"],
 "04": ["pixel_agg reductions other than sum/min/max (mean, median, std, ...) are not modelled; the theorem holds for any reduction function of the pixel list, the stream exercises sum/min/max"],
 "05": ["linearity of the TriangularMesh kernel in its excitation (not ported to the real carrier; oracle only); proved: the marshalling "
        "preserves linearity for any F, and the Dipole, Sphere (C12), segment, Circle, Cuboid, Triangle, Tetrahedron kernels are linear",
        "CylinderSegment: full linearity in the polarization VECTOR of all four outputs of the ported BHJM_cylinder_segment IS proved (`cylseg_linear_in_magnetization`: 129 case functions "
        "each linear in the unit vector, statements generated from the source's parameter lists (Lemmas/KernCylSegLinGen.lean, kept in sync by cylseg_lin_in_sync), the code's "
        "arctan2-conversion proved a right inverse of spherical->Cartesian for every vector); ellipkinc / ellipeinc / el3_angle are opaque functions (they never see the magnetization "
        "angles: `cylseg_special_functions_magnetization_free`); the batch path of el3 (n >= 10 rows) and float rounding are not modelled",
        "Cylinder (ported BHJM_magnet_cylinder, single-row path, cel0 opaque): full linearity in the polarization IS proved (`cylinder_linear_in_polarization`, whenever "
        "the three evaluations return; plus proportionality and transversal + axial split as equalities of optional results); not modelled: the vectorised celv path (n >= 10 rows)"],
 "06": ["batch-level control flow inside kernels (rowwise_c: trimesh grouping, segment early return, cel n<10) — kernel model pending",
        "np.squeeze / np.expand_dims / reshape semantics are assumed as modelled (shape list + unchanged row-major data), exercised by the stream"],
}["05"]


def run(ctx, model_ok):
    _sym.run(ctx, ctx.scale(70, 2000))
    _level2.run(ctx, oracle.c05_sweep, {"03": 60, "04": 60, "05": 40, "06": 50}["05"], {"03": 2000, "04": 2000, "05": 1200, "06": 1500}["05"], NOT_SHOWN)
    if ctx.driver_ok:
        # the kernel-linearity theorems are about the ports in Model/Kernels.lean: tie them to the real functions on this run too
        from corr import kern_family
        st = kern_family.run_stream(ctx, ctx.scale(360, 18000))
        st.pop("samples")
        ctx.cov["correspondence_kern"] = st
        ctx.cov["traces_validated_against_impl"] = ctx.cov.get("traces_validated_against_impl", 0) + st["rows"]
    # the CylinderSegment theorems are about Model/CylSeg*.lean: is the frozen translation still what the source says, and does the port agree with the real code?
    from checks import _cylseg
    _cylseg.run(ctx, ctx.scale(300, 10000))


replay = _level2.replay
