"""shared by the checks that rest on the CylinderSegment port (C02, C05, C06, C13): is the frozen translation
lean/MagpyVerif/Model/CylSeg.lean still what translate/cylseg2lean.py produces from the source as it is now, and does the port
(translated case functions + hand-written dispatch/wrappers + Float special functions) agree with the real code row by row?"""
import os
import sys

from corr import kern_family
from vlib.core import REPO, ROOT


def run(ctx, n):
    sys.path.insert(0, os.path.join(ROOT, "translate"))
    import cylseg2lean

    try:
        stale = cylseg2lean.cylseg_in_sync(os.path.join(REPO, cylseg2lean.REL_SRC))
    except cylseg2lean.Refusal as r:
        stale = []
        ctx.broken.append({"kind": "translator-refusal", "name": "CylSeg", "detail": f"cylseg2lean refused: {r}"})
    for name in stale:
        ctx.broken.append({"kind": "model-out-of-date", "name": f"Model/CylSeg.lean:{name}",
                           "detail": f"model out of date with the source: the translation of `{name}` from {cylseg2lean.REL_SRC} "
                                     "differs from the frozen, reviewed definition the theorems and the driver use"})
    ctx.cov["cylseg_model_in_sync"] = not stale
    # the generated statements "linear in the magnetization direction" (Lemmas/KernCylSegLinGen.lean, C05): one per case function
    # of the source as it is now?
    try:
        stale_lin = cylseg2lean.cylseg_lin_in_sync(os.path.join(REPO, cylseg2lean.REL_SRC))
    except cylseg2lean.Refusal as r:
        stale_lin = []
        ctx.broken.append({"kind": "translator-refusal", "name": "CylSegLin", "detail": f"cylseg2lean.render_lin refused: {r}"})
    for name in stale_lin:
        ctx.broken.append({"kind": "model-out-of-date", "name": f"Lemmas/KernCylSegLinGen.lean:{name}",
                           "detail": f"the statement `{name}` generated from the parameter lists of {cylseg2lean.REL_SRC} differs from the frozen one"})
    ctx.cov["cylseg_lin_statements_in_sync"] = not stale_lin
    if ctx.driver_ok:
        st = kern_family.run_stream(ctx, n, only=kern_family.CYLSEG_KINDS)
        st.pop("samples", None)
        for k in ("cylinder_strata", "cylinder_max_reldiff"):
            st.pop(k, None)
        ctx.cov["correspondence_cylseg"] = st
        return st
    return None
