"""C19 — show() draws each object where it is and does not alter it"""
from corr import disp_family
from oracles import c19 as oracle

GEN = ["Units"]
LEAN_TARGETS = ["MagpyVerif.Props.C19"]
PROPS = ["MagpyVerif.Props.C19"]


def run(ctx, model_ok):
    corr = None
    if ctx.driver_ok:
        corr = disp_family.run_stream(ctx, ctx.scale(400, 8000))
        ctx.cov["correspondence"] = corr
    budget = 4 if len(ctx.broken) else 1
    fails, ost = oracle.sweep(ctx, ctx.scale(25, 800) * budget)
    ctx.failing += fails
    ctx.cov["oracle"] = ost
    ctx.cov["evaluations"] = ost["c19_figures"]
    ctx.cov["distinct_nontrivial"] = ost["c19_figures"]
    ctx.cov["rule"] = ("one plotly figure per case: Cuboid / Cylinder / Sphere / Circle / Polyline with random size, path of 1-3 random poses (all frames shown), "
                       "length unit m/mm/km/cm, bare or inside a Collection; every case has fresh random geometry and poses")
    ctx.cov["traces_validated_against_impl"] = ost["c19_figures"]
    ctx.cov["samples"] = [ost] + (corr.pop("samples") if corr else [])
    if corr:
        ctx.cov["evaluations"] += corr["cases"]
        ctx.cov["distinct_nontrivial"] += corr["distinct"]
        ctx.cov["traces_validated_against_impl"] += corr["cases"]
        ctx.cov["rule"] += ("; disp stream: get_rot_pos_from_path on integer paths of length 1-8 with show_path None/True/False/int (0, negative)/"
                            "list (out-of-range, negative, duplicate entries)/other, make_Cuboid (integer dimension, position, 4 backends), make_Tetrahedron "
                            "(integer vertices, both chiralities), make_Prism / make_Pyramid index arrays (base 0-50) against Model/Display.lean, exact; "
                            "vertex coordinates of make_Prism (N 1-60), make_Pyramid, make_CylinderSegment (r1 = 0, zero / full-360 / reversed / "
                            "negative / beyond-360 angle ranges), make_Ellipsoid (N 0-24, ValueError for N <= 3), make_Circle and make_Polyline line traces "
                            "against Model/DisplayTrig.lean at Float: lengths and order exact, values relative 1e-12 (observed bit-identical); "
                            "distinct = distinct (kind, canonical result) pairs (input lines for the coordinate rows); place rows: place_and_orient_model3d on dict traces (x/y/z or custom keys, "
                            "other entries, 1-d and 2-d coordinate arrays) and args tuples (default and custom coordsargs), orientation None / octahedral, position None / integer, scale and "
                            "length_factor 1 or 2^-2..2^3, **kwargs overriding entries, missing key / args index out of range / different shapes (error kind), all return_* combinations, "
                            "inputs compared before / after, against Display.placeModel, exact on the 1/64 grid")
    ctx.cov["not_shown"] = ["index arrays of make_Ellipsoid / make_CylinderSegment (their vertex coordinates are modelled and proved on the surface, the triangulation "
                            "between them is not), make_Arrow, make_Sensor, arrow traces of currents (draw_arrow_on_circle / draw_arrow_from_vertices), "
                            "trace grouping/merging, plotly/matplotlib/pyvista glue: "
                            "display oracle only (plotly backend; matplotlib/pyvista not exercised)",
                            "polygonal approximation: theorems say the vertices lie ON the cylinder / ellipsoid / circle; the distance of the facets between "
                            "vertices from the true surface is not bounded by a theorem; IEEE rounding of sin/cos (first and last circle point differ by "
                            "sin(fl(2pi))*d/2 ~ 1.2e-16 d in double, equal in exact arithmetic)",
                            "frames: 'the last path row is always displayed' and 'no row is drawn twice' hold only for the show_path classes named in "
                            "frames_contains_last_partial / frames_rows_strictly_increasing_partial (witness theorems show the exclusions are necessary)",
                            "CylinderSegment, Tetrahedron, TriangularMesh, Triangle, Dipole, Sensor graphics are not mapped back by the oracle",
                            "placement: place_is_pose / place_inverse / place_preserves_extent are about Display.place (Model/Display.lean), the vertex map of Display.placeModel "
                            "(= place_and_orient_model3d; placeModel_vertices, placeModel_early_return), executed by the driver (`disp place`) and compared with the real function by the "
                            "place rows of the disp stream on dyadic data (integer vertices / positions, octahedral rotations, scale and length factor powers of two; real values snapped to the "
                            "1/64 grid with tolerance 1e-6). Still abstract: R is any element of a group acting on V (not an isometry), scipy's Rotation.apply is assumed to be that action; "
                            "coordsargs mixing dict keys and args[i], non-array coordinate entries and trace values other than arrays / strings are not in the model",
                            "Cuboid and Tetrahedron models are over the integers (doubled coordinates): theorems and stream rows cover integer dimensions / positions / vertices only; their sign and "
                            "index tables are hand-copied literals pinned by the disp stream, not regenerated",
                            "'spans the full extent': Cylinder graphic x = -d/2 only for even N and y = +-d/2 only when 4 | N (default 50: not); Sphere graphic: only the z-extent (poles); "
                            "CylinderSegment: the 8 corners",
                            "path line through the path positions, 'displaying never modifies objects, styles or defaults' (style_temp_edit), axis title unit = factor applied by rescale_traces, "
                            "collections / nesting: no model and no theorem, display oracle only; unit_factor_table is a decide over the 18 recorded outputs of get_unit_factor and says nothing "
                            "about which factor show() applies"]


def replay(ctx, payload):
    import json
    print(json.dumps(payload, indent=1, default=str)[:4000])
    return 0
