"""C19 — show() draws each object where it is and does not alter it"""
from oracles import c19 as oracle

GEN = ["Units"]
LEAN_TARGETS = ["MagpyVerif.Props.C19"]
PROPS = ["MagpyVerif.Props.C19"]


def run(ctx, model_ok):
    budget = 4 if len(ctx.broken) else 1
    fails, ost = oracle.sweep(ctx, ctx.scale(25, 800) * budget)
    ctx.failing += fails
    ctx.cov["oracle"] = ost
    ctx.cov["evaluations"] = ost["c19_figures"]
    ctx.cov["distinct_nontrivial"] = ost["c19_figures"]
    ctx.cov["rule"] = ("one plotly figure per case: Cuboid / Cylinder / Sphere / Circle / Polyline with random size, path of 1-3 random poses (all frames shown), "
                       "length unit m/mm/km/cm, bare or inside a Collection; every case has fresh random geometry and poses")
    ctx.cov["traces_validated_against_impl"] = ost["c19_figures"]
    ctx.cov["samples"] = [ost]
    ctx.cov["not_shown"] = ["local model generators (make_Cuboid ... make_Sensor), trace grouping/merging, frame selection, plotly/matplotlib/pyvista glue: display oracle only "
                            "(plotly backend; matplotlib/pyvista not exercised)",
                            "CylinderSegment, Tetrahedron, TriangularMesh, Triangle, Dipole, Sensor graphics are not mapped back by the oracle"]


def replay(ctx, payload):
    import json
    print(json.dumps(payload, indent=1, default=str)[:4000])
    return 0
