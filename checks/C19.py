"""C19 — show() draws each object where it is and does not alter it"""
from corr import disp_family, disp_out_family
from oracles import c19 as oracle

GEN = ["Units", "StyleTemp", "SensorMesh"]
LEAN_TARGETS = ["MagpyVerif.Props.C19", "MagpyVerif.Props.C20b"]
PROPS = ["MagpyVerif.Props.C19", "MagpyVerif.Props.C20b"]  # C20b: style_temp_edit_restores (only the obj._style slot of the with-block, as a three-Boolean skeleton; see not_shown)


def run(ctx, model_ok):
    corr = None
    if ctx.driver_ok:
        corr = disp_family.run_stream(ctx, ctx.scale(400, 8000))
        # outward winding (signed volume), rotated Polyline arrows, Sensor glyph / hull, user model3d traces at several frames (Driver/DispFam2.lean)
        disp_out_family.run_out(ctx, ctx.scale(400, 6000), corr)
        ctx.cov["correspondence"] = corr
    budget = 4 if len(ctx.broken) else 1
    fails, ost = oracle.sweep(ctx, ctx.scale(25, 800) * budget)
    ctx.failing += fails
    ctx.cov["oracle"] = ost
    ctx.cov["evaluations"] = ost["c19_figures"]
    ctx.cov["distinct_nontrivial"] = ost["c19_figures"]
    ctx.cov["rule"] = ("one plotly figure per case: Cuboid / Cylinder / Sphere / Circle / Polyline with random size, path of 1-3 random poses (all frames shown), "
                       "length unit m/mm/km/cm, bare or inside a Collection; every case has fresh random geometry and poses; map-back figures for Tetrahedron / Triangle / "
                       "TriangularMesh / CylinderSegment / Dipole / Sensor; one figure per unit prefix")
    ctx.cov["traces_validated_against_impl"] = ost["c19_figures"]
    ctx.cov["samples"] = [ost] + (corr.pop("samples") if corr else [])
    if corr:
        ctx.cov["evaluations"] += corr["cases"]
        ctx.cov["distinct_nontrivial"] += corr["distinct"]
        ctx.cov["traces_validated_against_impl"] += corr["cases"]
        ctx.cov["rule"] += ("; disp stream: get_rot_pos_from_path on integer paths of length 1-8 with show_path None/True/False/int (0, negative)/"
                            "list (out-of-range, negative, duplicate entries)/other, make_Cuboid (integer dimension, position, 4 backends), make_Tetrahedron "
                            "(integer vertices, both chiralities), make_Prism / make_Pyramid index arrays (base 0-50) against Model/Display.lean, exact; "
                            "vertex coordinates of make_Prism (N 1-60), make_Pyramid, make_CylinderSegment (r1 = 0, zero / full-360 / reversed / "
                            "negative / beyond-360 angle ranges), make_Ellipsoid (N 0-24, ValueError for N <= 3), make_Circle and make_Polyline line traces "
                            "against Model/DisplayTrig.lean at Float: lengths and order exact, values relative 1e-12 (observed bit-identical); "
                            "distinct = distinct (kind, canonical result) pairs (input lines for the coordinate rows); place rows: place_and_orient_model3d on dict traces (x/y/z or custom keys, "
                            "other entries, 1-d and 2-d coordinate arrays) and args tuples (default and custom coordsargs), orientation None / octahedral, position None / integer, scale and "
                            "length_factor 1 or 2^-2..2^3, **kwargs overriding entries, missing key / args index out of range / different shapes (error kind), all return_* combinations, "
                            "inputs compared before / after, against Display.placeModel, exact on the 1/64 grid; idx rows (Model/DisplayIdx.lean): make_Ellipsoid i/j/k for every N = 0..40, "
                            "make_CylinderSegment i/j/k for vert 3..60 x 10 angle ranges (exact 360, 360 up to rounding, beyond 360, zero / reversed span, r1 = 0) plus random, make_Arrow i/j/k "
                            "(N 0..30) and vertices, merge_mesh3d / merge_scatter3d on random small integer traces (error kinds, None separators, first-input mutation counted), make_path + "
                            "rescale_traces bit-exact, unit_prefix / get_unit_factor for 10^k * {0.999, 1, 1.001, 5}, k = -27..27, nextafter neighbours of powers of ten and random values, "
                            "get_scene_ranges + rmax + auto unit on random scatter / mesh traces bit-exact")
    ctx.cov["rule"] += ("; wind rows: directed edges not used exactly once / without reverse of the REAL index arrays of make_CylinderSegment (arc count 5..60, caps and "
                        "full ring), make_Ellipsoid (0..24), make_Prism / make_Pyramid (0..60), make_Arrow (0..40), make_Cuboid, make_Tetrahedron against Display.windingDefects / "
                        "unmatchedEdges of the model triangulation, exact; group rows: group_traces on 1-7 random trace dicts (mesh3d / scatter3d / other type, random subsets of "
                        "the key properties from pools with colliding concatenations, nested and flat line / marker dicts, copies of earlier traces) against Display.groupTraces: "
                        "which inputs end in which output trace, in order, exact")
    ctx.cov["rule"] += ("; arrowc / arrowl / pixels rows (Model/DisplayArrow.lean at Float, relative 1e-12 of the drawn size, observed <= 5e-16): draw_arrow_on_circle "
                        "directly (signs incl. 0, angles incl. 0 / 90 / 180 / random) and through make_Circle (current +/- / 0 / None, style.arrow.offset, sizemode), "
                        "draw_arrowed_line along +y (the template), the pixel-cube rows of make_Sensor (1-8 pixels, repeated pixels, one pixel at the origin, "
                        "scaled / absolute, pixel size 0)")
    ctx.cov["rule"] += ("; svol rows: six times the signed volume of the REAL vertex / index arrays of make_Prism (N 3-60), make_CylinderSegment (vert 0-200, r1 = 0, ranges up to 359.5 deg), "
                        "make_Ellipsoid (N 4-24) and the cone of make_Pyramid about its base centre against DisplayTrig.meshVol6 of the model (relative 1e-9 of the box volume), both positive; "
                        "arrowr / arrowsv rows: draw_arrowed_line with random directions incl. exactly parallel / exactly anti-parallel / nearly (anti-)parallel to y, a zero vector, all pivots, "
                        "with and without the line (NaN rows as symbols), and draw_arrow_from_vertices directly and through make_Polyline (repeated vertices, segments along -y, fewer than two "
                        "vertices: ValueError) against DisplayTrig.arrowedLine / arrowFromVertices with Rodrigues' rotation, relative 1e-12 of the drawn size (observed <= 1e-15); sensor rows: ALL "
                        "vertex rows of make_Sensor (glyph 98, pixel cubes, hull box) right- / left-handed, no / one / several pixels, coplanar / collinear pixels, autosize, sizemodes, against "
                        "DisplayTrig.sensorTrace (template regenerated from sensor_mesh.py), relative 1e-12; extraf rows: a matplotlib model3d trace with static kwargs / args on an object with 1-4 "
                        "poses through get_generic_traces3D(extra_backend='matplotlib') and through process_extra_trace in a loop with one Trace3d object: every frame exact on the 1/64 grid "
                        "against Display.extraFrames, the caller's and the stored kwargs dict / args tuple / coordsargs compared before / after")
    ctx.cov["not_shown"] = ["current arrows: circle_arrow_on_circle / circle_arrow_direction are about draw_arrow_on_circle in the loop's own frame (the z-rotation written with cos / sin; "
                            "scipy's from_euler agrees to 1e-12 in the arrowc rows); Polyline arrows: draw_arrowed_line is modelled WITH the rotation (DisplayTrig.arrowedLine, scipy's "
                            "from_rotvec(r).apply as a parameter): polyline_arrow_placed (tip on the segment at arrow_pos, barbs mirror images in the segment, for every vec != 0) ASSUMES of the "
                            "rotation that it is linear on the template's plane, takes y to vec/|vec| and x to a unit vector perpendicular to vec (TurnsOnto) - proved for Rodrigues' formula "
                            "(what the driver runs) only in the exactly anti-parallel branch (polyline_arrow_antiparallel) and when nothing is rotated; the general branch (rotvec = -arccos(dot) cross / n) "
                            "is tied by the arrowr rows only (1e-12), as is scipy = Rodrigues; pivots tip / tail and include_line=False (NaN rows) are in the model and the rows, not in the theorem; "
                            "draw_arrow_from_vertices: arrows_from_vertices_loop (per-segment recursion, size rule, ValueError below two vertices); a ZERO-LENGTH segment (repeated vertex) gives an "
                            "all-NaN block and a RuntimeWarning in the real code (model: the same NaNs) - an invisible gap, reported as an observation; "
                            "make_Sensor: sensor_pixel_cubes / sensor_pixel_size_rule (pixel cubes), sensor_glyph_axes / sensor_glyph_tip_ranges / sensor_glyph_placed (glyph origin = sensor position, "
                            "arrow tips along +-local axes with length dim_ext, left-handed flips exactly the x arrow) about DisplayTrig.sensorGlyph over the REGENERATED template Gen.SensorMesh; "
                            "the left-handed turn is written exactly as (x, y, z) -> (-z, y, x) (scipy's from_euler('y', -90) is off by ~2e-16: sensor rows, 1e-12); np.unique's sorting is done by the harness; "
                            "dim_ext / hull box (sensorDimExt, hullBox: zero extents replaced by pixel_dim / 2) are modelled and tied by the sensor rows but have no theorem beyond an example; "
                            "facecolor / show flags of the glyph (which faces are kept) are not modelled; that positive current = counter-clockwise is the Circle kernel's convention, not derived here; "
                            "subdivide_mesh_by_facecolor, plotly/matplotlib/pyvista glue: display oracle only (plotly backend; matplotlib only in the no-alteration sweep, pyvista not exercised). "
                            "group_traces / merge_traces: modelled on linearised traces (type, str(value) of the present keys, facecolor-is-None) - group_traces_partition, "
                            "group_traces_merges_within_group, group_key_injective, traces_of_different_subplots_never_merge (tuple key since repo fix 4b91a64; concat_key_collision_witness keeps the "
                            "old concatenated key as a literal); linearize_dict itself (nesting depth > 1) and the arrays inside the merged traces (merge_mesh3d / merge_scatter3d theorems "
                            "are about Display.mergeMesh3d / mergeScatter3d, composed by hand, not in one model function) are not. Modelled and tied since the ninth batch "
                            "(Model/DisplayIdx.lean, rows ellidx / segidx / arrow / arrowv / mmesh / mscat / path / autounit / ranges): index arrays of make_Ellipsoid (closed for every "
                            "N >= 4: ellipsoid_mesh_closed) and make_CylinderSegment (closed for every arc count whenever phi2 - phi1 != 360: cylinder_segment_mesh_closed; exactly 360: "
                            "no caps and the seam columns are different rows holding the same points, 8 index-level open edges, cylinder_segment_full_turn_seam_open), make_Arrow, "
                            "merge_mesh3d / merge_scatter3d, make_path + rescale_traces, unit_prefix / get_unit_factor as used by units_length='auto', get_scene_ranges for one subplot",
                            "winding: every closed-surface generator is consistently wound for EVERY size - cylinder_segment_consistently_wound (N >= 2, caps drawn; since repo fix 64dd71f; "
                            "old_start_cap_was_inverted keeps the pre-fix pattern as a literal witness: four directed edges twice for every N), prism_consistently_wound (N >= 3), "
                            "ellipsoid_consistently_wound (N >= 4), pyramid / arrow (open base ring; no directed edge twice), cuboid_tetra_consistently_wound; OUTWARD: prism_wound_outwards (N >= 3), cylinder_segment_wound_outwards (every N >= 2, r1 < r2, 0 < phi2 - phi1 < 180 (N - 1); _of_args: every vert, phi2 - phi1 <= 360), "
                            "ellipsoid_wound_outwards (N >= 4), pyramid_wound_outwards: ONE explicit triangle of the index arrays has normal . (centroid - interior point) > 0; that consistent winding of a "
                            "CONNECTED closed surface carries this to every triangle is a graph-traversal argument that is NOT formalised (nor is connectedness); the svol rows compare the signed volume of "
                            "the real arrays with the model's, positive in every row (no generator is wound inwards); reversed angle ranges (phi2 < phi1, rejected by the CylinderSegment validator) "
                            "would be wound inwards and are excluded by hypothesis; and the exact-360 ring (no caps: index-open along the seam)",
                            "merge_mesh3d model: x/y/z/i/j/k mandatory (the real function skips i/j/k missing from the FIRST trace), intensity / facecolor as optional arrays, other "
                            "entries as opaque tags; a later trace whose facecolor / intensity is None while the first has an array (numpy would hstack the None) is not in the model; "
                            "merge_scatter3d: the theorem needs the two string facts 'mode non-empty' and '\"line\" in mode' as hypotheses (string literals do not reduce in the "
                            "kernel; the mscat rows run the full function, incl. the write of mode='markers' into the first INPUT dict, which is counted)",
                            "units_length='auto': auto_unit_factor_bounds is about the real-number carrier (int(log10(x)) = truncation towards zero of the exact logarithm); in IEEE double "
                            "log10 of a number just below a power of ten can round up to the integer (the autounit rows compare the Float model with the real function on nextafter(10^k, "
                            "0 / inf) and 10^k * {0.999, 1, 1.001, 5}, k = -27..27). Below 1 the displayed number lies in (0.1, 100], not [1, 1000) (second clause of the theorem). "
                            "get_scene_ranges is modelled for ONE subplot of NaN-free 3-d traces (rows `ranges`); rows / cols, 2-d traces, 'constructor' traces (extra backend models) and "
                            "the zoom dict are not; that get_frames passes exactly these ranges to unit_prefix is read off the code, the two lines are repeated in the harness",
                            "path trace: make_path draws ALL path positions (not only the displayed frames) iff the path has > 1 position and style.path.show; its grouping with other "
                            "scatter traces of the same style (group_traces) is not modelled; marker / line / text styling is not modelled",
                            "polygonal approximation: theorems say the vertices lie ON the cylinder / ellipsoid / circle; the distance of the facets between "
                            "vertices from the true surface is not bounded by a theorem; IEEE rounding of sin/cos (first and last circle point differ by "
                            "sin(fl(2pi))*d/2 ~ 1.2e-16 d in double, equal in exact arithmetic)",
                            "frames: 'the last path row is always displayed' and 'no row is drawn twice' hold only for the show_path classes named in "
                            "frames_contains_last_partial / frames_rows_strictly_increasing_partial (witness theorems show the exclusions are necessary)",
                            "map back (oracle, no theorem): Tetrahedron / Triangle / TriangularMesh drawn vertex set = object's vertices at every displayed pose (+ signed volume), "
                            "CylinderSegment radii / height / azimuth range / 8 corners, Dipole arrow axis through the position along the moment (pivot), Sensor pixel cubes and axes glyph; "
                            "one scene per unit prefix of _UNIT_PREFIX (+ d, c) with explicit units_length: axis titles and drawn corners = metres * 10^(-power)",
                            "placement: place_is_pose / place_inverse / place_preserves_extent are about Display.place (Model/Display.lean), the vertex map of Display.placeModel "
                            "(= place_and_orient_model3d; placeModel_vertices, placeModel_early_return), executed by the driver (`disp place`) and compared with the real function by the "
                            "place rows of the disp stream on dyadic data (integer vertices / positions, octahedral rotations, scale and length factor powers of two; real values snapped to the "
                            "1/64 grid with tolerance 1e-6). Still abstract: R is any element of a group acting on V (not an isometry), scipy's Rotation.apply is assumed to be that action; "
                            "coordsargs mixing dict keys and args[i], non-array coordinate entries and trace values other than arrays / strings are not in the model",
                            "Cuboid and Tetrahedron models are over the integers (doubled coordinates): theorems and stream rows cover integer dimensions / positions / vertices only; their sign and "
                            "index tables are hand-copied literals pinned by the disp stream, not regenerated",
                            "'spans the full extent': Cylinder graphic x = -d/2 only for even N and y = +-d/2 only when 4 | N (default 50: not); Sphere graphic: only the z-extent (poles); "
                            "CylinderSegment: the 8 corners",
                            "'displaying never modifies objects, styles or defaults' (style_temp_edit), axis title unit = factor applied by rescale_traces for an EXPLICIT units_length, "
                            "collections / nesting: no model and no theorem, display oracle only; user model3d traces of a non-generic backend: extra_trace_frames_independent (frame k = process_extra_trace of the "
                            "ORIGINAL user trace at pose k, user dict unchanged) is about Display.extraFrames, where the user's dict is threaded as state; extra_trace_without_copy_accumulates keeps the variant without the "
                            "dict copy as a literal witness; callables as kwargs / args, the generic-backend branch (linearize_dict) and the backends' constructors are not modelled (extraf rows: matplotlib traces only); unit_factor_table / unit_table_powers are decides over the 18 recorded outputs of get_unit_factor (every power of _UNIT_PREFIX incl. 6..24 = M..Y, and d, c)",
                            "audit2: (a) place_is_pose / place_inverse / place_preserves_extent live in a Mathlib context (Group G, DistribMulAction G V, Module K V over a FIELD K) that is "
                            "instantiated only at Q-units on Q and at linear equivalences of Fin 3 -> R, never at the M3 / V3 carrier placeModel runs on; on that carrier (alpha = R, the model's own "
                            "instances) place_V3_isometry (orthogonal R: all distances multiplied by |f * scale|) and place_V3_inverse are proved instead - that scipy's Rotation.apply is "
                            "multiplication by an orthogonal matrix stays an assumption, and Float rounding is not covered (place rows: dyadic data only); "
                            "(b) cylinder_segment_full_turn_seam_open is the instance N = 5; cylinder_segment_full_turn_seam_open_N gives the exact set of 8 open rungs for every N >= 2; "
                            "(c) auto_unit_prefix_table enumerates 17 + 2 digits; auto_unit_prefix_all_digits / auto_unit_displayed_range state it for every multiple of three and for autoUnit "
                            "(the driver-run function) over the regenerated table, on the real-number carrier only; the model looks digits up in Gen.Units.table, which also holds d / c "
                            "(-1, -2) that _UNIT_PREFIX lacks - unreachable because digits is a multiple of three (auto_unit_digits_multiple_of_three); "
                            "(d) merge_scatter3d_preserves_polylines has NO instance with a concrete mode string in Lean (containsLine \"lines\" = true is not provable by decide / rfl / simp); "
                            "merge_scatter3d_core_preserves_polylines states the same for mergeScatter3dCore false true; that mode strings are mapped to these two Booleans as Python does is "
                            "observed by the mscat rows only; "
                            "(e) group_key_injective holds by construction of the key as a list (the content is that the code builds a tuple - observed by the group rows); the parts are str(value): "
                            "1 and '1', None and 'None', a missing key and '' still share a group in the code and in the model; concat_key_collision_witness / old_start_cap_was_inverted are about "
                            "literal pre-fix definitions that nothing executes; "
                            "(f) path_trace_through_positions restates Display.pathTrace (plus 1 * x + 0 = x); that make_path really takes obj.position and all of it is the path rows' observation (20 rows); "
                            "(g) sensor_pixel_size_rule covers >= 2 pixels and min distance != 0; the one-pixel case (origin put in front), min distance 0 (dim_ext / 5) and the pixel_size > 0 gate of "
                            "sensorPixels are in the model and the pixels rows, not in a theorem; circle_arrow_on_circle at d = 0 with sizemode absolute uses a / 0 = 0 of the real field (numpy: inf / nan); "
                            "(h) 'never modifies': style_temp_edit_restores (Props/C20b) is about slotAfter, a function defined in the Props file over three regenerated Booleans (orig read first, "
                            "restore in finally, no assignment outside try) - it covers the obj._style slot of ONE with-block only, is not executed by the driver, and says nothing about positions, "
                            "orientations, style contents, defaults, or nested collections; those are the oracle's no-alter sweep (and the place rows' before / after comparison of the inputs of "
                            "place_and_orient_model3d)"]


def replay(ctx, payload):
    import json
    print(json.dumps(payload, indent=1, default=str)[:4000])
    return 0
