"""C12 — results are invariant under the choice of length unit"""
from corr import kern_family
from checks import _sym
from oracles import c12 as oracle

GEN = ["Const", "Tol", "CylSegGen", "AbsLen", "PathPad"] + _sym.GEN  # AbsLen: absolute-length constructs in the pose / marshalling sources (translate/abslen.py), pinned by Props/C12b
LEAN_TARGETS = ["MagpyVerif.Props.C12", "MagpyVerif.Props.C12b", "MagpyVerif.Gen.CylSegGen"] + _sym.LEAN_TARGETS  # CylSegGen: the regenerated CylinderSegment translation and its `sync_*` theorems against the frozen model
PROPS = ["MagpyVerif.Props.C12", "MagpyVerif.Props.C12b"] + _sym.PROPS  # C12b: homogeneity of the pose machinery and of the getBH_level2 pipeline, arrangement_unit_invariant, abs_sites_pinned


def run(ctx, model_ok):
    _sym.run(ctx, ctx.scale(140, 4000))
    if ctx.driver_ok:
        st = kern_family.run_stream(ctx, ctx.scale(600, 30000))
        ctx.cov["evaluations"] = st["rows"]
        ctx.cov["distinct_nontrivial"] = st["nonzero_rows"] + sum(st["branch"].values())
        ctx.cov["rule"] = "kern stream rows at length scales 1e-3..1e3 (see C02); distinct_nontrivial = rows with non-zero value + mask rows"
        ctx.cov["traces_validated_against_impl"] = st["rows"]
        ctx.cov["samples"] = st.pop("samples")
        ctx.cov["correspondence"] = st
    if ctx.driver_ok:
        from corr import trimesh_family as _tf
        ctx.cov["correspondence_trimesh_inside"] = _tf.run_inside_stream(ctx, ctx.scale(150, 5000))
    # the pose machinery (Props/C12b): the model the homogeneity theorems are about is tied to the code by the `path` stream (exact, C09 / C10); the
    # `path-scale` stream runs every history on the REAL objects a second time with all lengths times 2^k and compares bit for bit
    from corr import path_family as _pf
    if ctx.driver_ok:
        pst = _pf.run_stream(ctx, ctx.scale(40, 1000), ctx.scale(10, 12), equal_lengths_share=0.2)
        pst.pop("samples", None)
        ctx.cov["correspondence_path"] = pst
    sst = _pf.run_scale_stream(ctx, ctx.scale(120, 3000), ctx.scale(10, 12))
    ctx.cov["samples"] = (ctx.cov.get("samples") or []) + sst.pop("samples")[:1]
    ctx.cov["correspondence_path_scale"] = sst
    ctx.cov["path_scale_rule"] = ("path-scale: seeded random histories of the `path` stream (move / rotate / rotate_from_* / angax / position= / orientation= / reset_path / add / remove / "
                                  "malformed calls on collection trees) executed on the real objects as generated and with every length times 2^k, k in -20..20; after every operation "
                                  "all position paths must be the scaled ones and all quaternion paths identical BIT FOR BIT, outcomes equal; rows = position-path rows compared")
    if "evaluations" in ctx.cov:
        ctx.cov["evaluations"] += sst["rows"]
        ctx.cov["distinct_nontrivial"] += sst["nonzero_position_rows"]
        ctx.cov["traces_validated_against_impl"] += sst["histories"]
    # the CylinderSegment theorems are about Model/CylSeg*.lean: is the frozen translation still what the source says, and does the port agree with the real code?
    from checks import _cylseg
    _cylseg.run(ctx, ctx.scale(300, 10000))
    budget = 10 if len(ctx.broken) else 1
    fails, ost = oracle.sweep(ctx, ctx.scale(60, 3000) * budget)
    ctx.failing += fails
    ctx.cov["oracle"] = ost
    ctx.cov.setdefault("evaluations", ost["c12_cases"])
    ctx.cov.setdefault("distinct_nontrivial", ost["c12_cases"])
    ctx.cov.setdefault("samples", [ost])
    ctx.cov["not_shown"] = ["pose machinery and getBH_level2 pipeline: homogeneity IS proved (Props/C12b: step_homogeneous / history_homogeneous for every operation, history, tree and every "
                            "additive map commuting with the rotation action — for v -> s*v on R^3 with EVERY real s — and on the driver's integer carrier; tensor_unit_covariant / "
                            "getBH_unit_covariant / arrangement_unit_invariant for every history followed by getB, s > 0, each source's field function assumed homogeneous of degree -d = the kernel "
                            "theorems). Not shown there: (a) it is a statement about the MODEL in exact arithmetic — tied to the code by the exact `path` / `level2` streams, by the `path-scale` "
                            "stream (real objects at a second scale 2^k, bit for bit) and by the regenerated site list Gen/AbsLen (abs_sites_pinned: no rounding / isclose / atol / "
                            "literal-comparison on a length in class_BaseTransform / class_BaseGeo / class_Collection / utility / field_wrap_BH; the sites that exist are exact quaternion "
                            "comparisons, array-size arithmetic and show()'s unit prefixes) — a syntactic scan: an absolute length hidden behind a helper in another module, or built from "
                            "integer-valued literals, escapes it and is left to the two streams and the posed-arrangement oracle; (b) arrangement_unit_invariant takes ONE degree d for all sources "
                            "of a call (mixed degrees: tensor_unit_covariant_per_entry, through level2_refines, not combined with histories); (c) float scaling by factors that are not "
                            "powers of two (rounding differs; oracle tolerance 1e-9), over- / underflow at extreme units; (d) input validation (`check_format_input_vector` etc.) is scale-free by "
                            "inspection of the scan only — the validators are not part of the path model (rejected calls are the `rejected` operation); (e) audit2: the homogeneity theorems are "
                            "free theorems of a model that is polymorphic in the position carrier (only + - 0 and the rotation action are available to it): a rounding or an absolute tolerance "
                            "inserted into the CODE breaks none of them — only abs_sites_pinned (syntactic, five files: class_Sensor.py and input_checks.py are not scanned) and the path-scale stream "
                            "(factors 2^k only) would notice; the exact `path` stream runs on integer positions, where rounding to decimals is invisible; (f) arrangement_unit_invariant is glue "
                            "conditional on hF = homogeneity of each leaf's field function at EVERY point x: discharged for every x in Props/C12b for Cuboid (positive dimensions), Sphere, current "
                            "segment and Dipole (bhjmDipole_homogeneous_all; at the dipole's position both sides are the totalised 0), available for every x in Props/C12 for Triangle / Tetrahedron; "
                            "the Option-valued kernels (Circle, Cylinder, CylinderSegment: `none` = fuel / case id) do not have the type V -> V of a leaf's field function and are not instantiated",
                            "CylinderSegment: the ported BHJM_cylinder_segment is proved unit-free for r2 != 0 (cylseg_scale_invariant, special functions opaque: the prologue divides by the "
                            "outer radius); BHJM_cylinder_segment_internal's 360-degree branch only through the Cylinder theorem; rescaling oracle 1e-9..1e9 otherwise (proved: Dipole, Sphere, "
                            "masked Polyline row, Cuboid wrapper, Triangle, Tetrahedron, Circle, the whole ported BHJM_magnet_cylinder with cel / cel0 as opaque functions, and the TriangularMesh "
                            "inside test / bounding-box pre-filter / is_facet_inwards, tied by the trimesh-inside stream)",
                            "degenerate inputs (zero-length edge, zero-area triangle, det = 0, d = 0, observer on a vertex or on the carrier line) are inside the scale theorems but there both sides "
                            "are Lean's totalised values (x/0 = 0, log 0 = 0): no information",
                            "proportionality to the excitation: Sphere here, everything else in Props/C05 — since c05wrap at WRAPPER level, the wrappers' `pol == 0` / transversal / axial masks included "
                            "(cuboid_wrapper_linear … cylinder_wrapper_linear, polyline_wrapper_linear for the sum over the segments of one Polyline instance)",
                            "TriangularMesh field: Props/C06 trimesh_batch_scale_invariant; mesh VALIDATION: check_selfintersecting is NOT unit invariant (absolute eps, float32; Props/C16 witness and "
                            "known findings), check_open / check_disconnected are combinatorial; the full re-orientation is not stated here (only the seed test is_facet_inwards)",
                            "CylinderSegment: unit invariance of the whole ported BHJM_cylinder_segment(_internal) IS proved for outer radius != 0 (`cylseg_scale_invariant_partial`: the code divides all "
                            "lengths by r2 first, so masks, case ids and all arguments are the same numbers at every scale); not shown: r2 = 0 (unit 1, absolute tolerances act: "
                            "`cylseg_close_not_scale_invariant`) and the homogeneity of the un-normalised core magnet_cylinder_segment_Hfield (its `close` has an absolute part; the signed "
                            "boundary sum of the log r_i terms is not analysed) (proved elsewhere: Dipole, Sphere, segment, Cuboid, "
                            "Triangle, Tetrahedron, Circle, the whole ported BHJM_magnet_cylinder with cel / cel0 as opaque functions, and the TriangularMesh inside test / "
                            "bounding-box pre-filter / is_facet_inwards, tied by the trimesh-inside stream)",
                            "Cylinder: proved for the one-row model with cel0 opaque (cylinder_scale_invariant) AND for the batch as coded with the real dispatcher cel — cel0 per entry below 10 "
                            "entries of a sub-batch, the masked array routine celv from 10 on (cylinder_batch_scale_invariant over Model/CylinderBatch.lean, cylbatch rows of this stream: the rows' "
                            "dimensionless coordinates, hence the masks, the sub-batches, their sizes, the path cel takes and all its arguments are the same numbers at every scale); "
                            "scipy ellipk/ellipe modelled through cel0 (validated by the kern stream); exact arithmetic only (in float the three quotients by r0 round differently at scales that "
                            "are not powers of two)",
                            "float loss of absolute offsets at extreme scales is outside exact real arithmetic"]


def replay(ctx, payload):
    import json
    print(json.dumps(payload, indent=1, default=str)[:4000])
    return 0
