"""C12 — results are invariant under the choice of length unit"""
from corr import kern_family
from checks import _sym
from oracles import c12 as oracle

GEN = ["Const", "Tol"] + _sym.GEN
LEAN_TARGETS = ["MagpyVerif.Props.C12"] + _sym.LEAN_TARGETS
PROPS = ["MagpyVerif.Props.C12"] + _sym.PROPS


def run(ctx, model_ok):
    _sym.run(ctx, ctx.scale(140, 4000))
    if ctx.driver_ok:
        st = kern_family.run_stream(ctx, ctx.scale(600, 30000))
        ctx.cov["evaluations"] = st["rows"]
        ctx.cov["distinct_nontrivial"] = st["nonzero_rows"] + sum(st["branch"].values())
        ctx.cov["rule"] = "kern stream rows at length scales 1e-3..1e3 (see C02); distinct_nontrivial = rows with non-zero value + mask rows"
        ctx.cov["traces_validated_against_impl"] = st["rows"]
        ctx.cov["samples"] = st.pop("samples")
        ctx.cov["correspondence"] = st
    if ctx.driver_ok:
        from corr import trimesh_family as _tf
        ctx.cov["correspondence_trimesh_inside"] = _tf.run_inside_stream(ctx, ctx.scale(150, 5000))
    budget = 10 if len(ctx.broken) else 1
    fails, ost = oracle.sweep(ctx, ctx.scale(60, 3000) * budget)
    ctx.failing += fails
    ctx.cov["oracle"] = ost
    ctx.cov.setdefault("evaluations", ost["c12_cases"])
    ctx.cov.setdefault("distinct_nontrivial", ost["c12_cases"])
    ctx.cov.setdefault("samples", [ost])
    ctx.cov["not_shown"] = ["homogeneity of the CylinderSegment kernel (not ported to the real carrier): rescaling oracle 1e-9..1e9 only (proved: Dipole, Sphere, segment, Cuboid, "
                            "Triangle, Tetrahedron, Circle, the whole ported BHJM_magnet_cylinder with cel / cel0 as opaque functions, and the TriangularMesh inside test / "
                            "bounding-box pre-filter / is_facet_inwards, tied by the trimesh-inside stream)",
                            "Cylinder: only the single-row path of `cel` (cel0) is modelled; scipy ellipk/ellipe modelled through cel0 (validated by the kern stream)",
                            "float loss of absolute offsets at extreme scales is outside exact real arithmetic"]


def replay(ctx, payload):
    import json
    print(json.dumps(payload, indent=1, default=str)[:4000])
    return 0
