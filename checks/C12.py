"""C12 — results are invariant under the choice of length unit"""
from corr import kern_family
from oracles import c12 as oracle

GEN = ["Const"]
LEAN_TARGETS = ["MagpyVerif.Props.C12"]
PROPS = ["MagpyVerif.Props.C12"]


def run(ctx, model_ok):
    if ctx.driver_ok:
        st = kern_family.run_stream(ctx, ctx.scale(600, 30000))
        ctx.cov["evaluations"] = st["rows"]
        ctx.cov["distinct_nontrivial"] = st["nonzero_rows"] + sum(st["branch"].values())
        ctx.cov["rule"] = "kern stream rows at length scales 1e-3..1e3 (see C02); distinct_nontrivial = rows with non-zero value + mask rows"
        ctx.cov["traces_validated_against_impl"] = st["rows"]
        ctx.cov["samples"] = st.pop("samples")
        ctx.cov["correspondence"] = st
    budget = 10 if len(ctx.broken) else 1
    fails, ost = oracle.sweep(ctx, ctx.scale(60, 3000) * budget)
    ctx.failing += fails
    ctx.cov["oracle"] = ost
    ctx.cov.setdefault("evaluations", ost["c12_cases"])
    ctx.cov.setdefault("distinct_nontrivial", ost["c12_cases"])
    ctx.cov.setdefault("samples", [ost])
    ctx.cov["not_shown"] = ["homogeneity of the Cylinder and CylinderSegment kernels (not ported to the real carrier) and of the TriangularMesh inside test: "
                            "rescaling oracle 1e-9..1e9 only (proved: Dipole, Sphere, segment, Cuboid, Triangle, Tetrahedron, Circle with cel as an opaque function)",
                            "float loss of absolute offsets at extreme scales is outside exact real arithmetic"]


def replay(ctx, payload):
    import json
    print(json.dumps(payload, indent=1, default=str)[:4000])
    return 0
