"""C11 — the collection tree stays a consistent forest under any history"""
from corr import forest_family

GEN = []
LEAN_TARGETS = ["MagpyVerif.Props.C11"]
PROPS = ["MagpyVerif.Props.C11"]


def run(ctx, model_ok):
    budget = 10 if len(ctx.broken) else 1
    st, inv_fail = forest_family.run_stream(ctx, ctx.scale(200, 5000) * budget, ctx.scale(12, 16), want_model=ctx.driver_ok)
    ctx.cov["evaluations"] = st["ops"]
    ctx.cov["distinct_nontrivial"] = st["distinct_states"]
    ctx.cov["setter_refusals"] = {k: st.get(k, 0) for k in ("setter_assignments", "rejected_setter_assignments", "rejected_setter_by_construction",
                                                             "rejected_setter_on_populated_collection",
                                                             "bare_value_children_assignments", "rejected_collections_assignment_with_non_object")}
    ctx.cov["rule"] = ("seeded random histories over 3-8 objects (sources, sensors, collections) plus collections created by `+`: "
                       "add (1-3 args, override on/off), remove (recursive on/off, errors raise/ignore), parent=, children=, sources=/"
                       "sensors=/collections=, malformed arguments; ~45% of operations are rejected part-way or up front; "
                       "distinct = distinct dumps of all parent pointers, children lists and stored typed views")
    ctx.cov["traces_validated_against_impl"] = st["histories"]
    ctx.cov["samples"] = st.pop("samples")
    ctx.cov["correspondence"] = st
    ctx.failing += inv_fail
    # the `*_all` views against Forest.flatAll, and the tree part of attributed histories (copy(**kwargs), + creating collections)
    ast, afail = forest_family.run_attr_stream(ctx, ctx.scale(60, 1500) * budget, ctx.scale(14, 18), want_model=ctx.driver_ok)
    ast.pop("samples")
    ctx.cov["correspondence_forestattr"] = ast
    ctx.failing += afail
    ctx.cov["oracle"] = {"invariant_evaluations_on_real_objects": st["ops"], "failures": len(inv_fail)}
    ctx.cov["not_shown"] = ["termination of the unbounded recursion of check_format_input_obj itself (the model walks with fuel n; under the proved acyclicity the depth is below n; "
                            "the forestattr stream compares all four *_all views of every collection after every operation)"]
    ctx.assumptions += ["lookup of the holder of an object goes through _parent in the model and through a depth-first search of the "
                        "children lists in the code; both agree under the proved invariant"]


def replay(ctx, payload):
    import json
    print(json.dumps(payload, indent=1)[:4000])
    return 0
