"""C15 — every finite input yields a finite field in bounded time"""
from corr import kern_family
from checks import _sym
from oracles import c15 as oracle

GEN = ["Const", "Tol", "CylSegGen"] + _sym.GEN
LEAN_TARGETS = ["MagpyVerif.Props.C15", "MagpyVerif.Gen.CylSegGen"] + _sym.LEAN_TARGETS  # CylSegGen: the regenerated CylinderSegment translation and its `sync_*` theorems against the frozen model
PROPS = ["MagpyVerif.Props.C15"] + _sym.PROPS


def run(ctx, model_ok):
    _sym.run(ctx, ctx.scale(140, 4000))
    if ctx.driver_ok:
        st = kern_family.run_stream(ctx, ctx.scale(400, 20000))
        ctx.cov["traces_validated_against_impl"] = st["rows"]
        st.pop("samples")
        ctx.cov["correspondence"] = st
    # the CylinderSegment theorems are about Model/CylSeg*.lean: is the frozen translation still what the source says, and does the port agree with the real code?
    from checks import _cylseg
    _cylseg.run(ctx, ctx.scale(300, 10000))
    budget = 4 if len(ctx.broken) else 1
    fails, ost = oracle.sweep(ctx, ctx.scale(60, 1500) * budget)
    ctx.failing += fails
    ctx.cov["oracle"] = ost
    ctx.cov["evaluations"] = ost["c15_observers"] * 4
    ctx.cov["distinct_nontrivial"] = ost["c15_observers"]
    ctx.cov["rule"] = ("per case one random source (all classes in turn; plain / zero excitation / zero size / lengths x1e9 / x1e-9) and 15-25 observers on its special sets "
                       "(faces, edges, corners, hull, bases, axis, wire, extension lines, r/r0 = 0.05 and 1, phi limits) exactly and at +-1, +-4 ulp, denormal offsets, 1e12 distance; "
                       "all four fields; distinct = observer rows")
    ctx.cov["samples"] = [ost]
    ctx.cov["not_shown"] = ["IEEE overflow/underflow, NaN from inf-inf, float termination of the cel/el3 loops: outside exact real arithmetic, watchdogged oracle only "
                            "(exact-arithmetic termination with an explicit iteration bound IS proved for the scalar loops cel_iter0 and cel0, the batch loops cel_iterv and celv, and for BHJM_circle on every input)",
                            "termination of the el3 / el3v iterations: not modelled. The vectorised celv (masked loop, per entry the cel0 loop executed at least once, no kc == 0 guard) and "
                            "the dispatcher cel ARE modelled (Model/Celv.lean, celbatch rows of the kern stream, bit-identical) and proved: celv_terminates / celDispatch_terminates (every entry "
                            "kc != 0: the loop ends after at most celvFuel batch passes, the largest of the entries' cel0 bounds, celvFuel_is_max), celv_loops_at_zero (one entry kc = 0 and no row "
                            "of the batch gets a result: known finding Cylinder denormal-height; the stream never calls the real celv with kc == 0), celv_fuel_irrelevant; "
                            "cel_iterv and the dispatcher cel_iter are modelled, tied by the kern stream and proved to terminate on batches (bound = the largest of the entries' bounds; Props/C06 cel_iterv_passes_partial: the batch makes exactly as many passes as its slowest entry needs). celv's / cel0's divisors: celv_divisors_nonzero (exact arithmetic, kc != 0, ARBITRARY p, c, s: the prologue's g = 1 - p and pp, the loop's pp at every pass and em*(em+pp) at every pass are positive; celv_value_is_out_after_passes ties the returned value to those states; the list of divisions is read off the source), celv_divisor_vanishes_at_zero (kc = 0, p = 0: pp = 0 — the only zero divisor; there cel0 raises and celv does not return anyway). The batched Cylinder (Model/CylinderBatch.lean, cylbatch rows) returns iff every row's own computation returns (Props/C06 cylinder_batch_rowwise). Not shown: float behaviour — kc*kc underflows for 0 < |kc| < 1.5e-162 and with p = 0 the real cel0 / celv then return NaN (cel0(1e-162, 0, 1, 0.3)); not reachable through Cylinder (its kc at p = 0, i.e. r = r0, is exactly 0 — the known denormal-height finding — or >= 2.2e-162); float termination",
                            "definedness of the CylinderSegment closed form off its special sets (ported with opaque special functions; no theorem, in particular none that bhjmCylSeg / "
                            "bhjmCylSegInternal returns a value). Cuboid: the edge mask is proved to cover the zero set of all 24 logarithm factors "
                            "CylinderSegment: the dispatch is total for every observer the wrapper lets through (`wrapper_never_dispatches_unhandled`, full strength after the repair of the surface masks; hypothesis |r1| <= |r2|); the NaN rows are characterised exactly (`cylseg_nan_rows_characterised`); definedness of the individual closed forms (divisors, log / atanh arguments) off their special sets is not shown (observers a relative 1e-9 off a base plane can return NaN: reported). Cuboid: the edge mask is proved to cover the zero set of all 24 logarithm factors "
                            "(`cuboid_defined_off_edges`), arctan2(0,0) is proved to occur exactly on the three edge lines incl. their extensions, where the general branch IS reached "
                            "(`cuboid_edge_extension_reaches_general`; harmless in IEEE arithmetic, probed); Triangle (repaired edge integral): defined off the closed edges without exception "
                            "(`triangle_defined_off_edges`; the on-edge branch is taken exactly on the edges, `triangle_on_edge_branch_iff`; zero-area mask `triangle_zero_area`; "
                            "the oracle asserts finiteness and 1e-6 accuracy against an extended-precision closed form close to the edge lines); Polyline: `polyline_masks_cover_singular`; "
                            "Tetrahedron / TriangularMesh: per face as Triangle, the barycentric division by det (tetraInside) is not shown non-zero here; Cylinder (ported, single-row path): the near-axis Taylor branch r/r0 < 0.05 is proved to "
                            "divide by positive numbers only and to need no elliptic integral (`cylinder_axis_branch_defined`); every cel0 call of both kernels is proved to have a "
                            "non-zero modulus off the masked edge and to return, hence BHJM_magnet_cylinder returns for every input with d > 0, h >= 0 (`cylinder_terminates`); "
                            "non-vanishing of the other divisors of the general diametral branch (r, r^2, ap, am) and of cel0's prologue is not shown; "
                            "Circle: divisors of the general and on-axis branches and of the cel_iter0 loop are proved positive, cel0's divisors (pp, g in the p <= 0 prologue) are not",
                            "all definedness theorems enumerate the divisors / sqrt / log / arctan2 arguments of a kernel BY HAND (dipole_defined_off_position, sphere_outside_divisor, "
                            "segment_length_pos do not even mention a model function); completeness of a list is by reading — equality ties to the model exist only for the Cuboid logs / "
                            "arctan2 and the Triangle edge integral; the partial-real carrier (Option R) planned in DESIGN §2/§6 to make this mechanical was not built",
                            "fuel: the bounds celFuel / cylFuelX / circleFuelX depend on the input and grow without limit as a modulus tends to 0 or infinity; <= 200 (the driver's fuel) is shown "
                            "only for cel_iter0's start with 1e-40 <= q <= 1e40; Cylinder axial kernel: divisors sq0, sq1, dpr not stated; cylKd != 0 at (z +- z0 = 0, r = 1) holds only "
                            "through x/0 = 0 (those rows are on the edge and masked)",
                            "'returns finite numbers of the documented shape' and 'the ONLY non-finite results are at the documented singular points': the converse direction is false on this "
                            "tree (known findings near-edge / near-vertex / denormal distance)",
                            "polyline_* theorems are about bhjmSegment, tied to the code by the poly stream, which this check does not run (checks/C06.py does)"]


def replay(ctx, payload):
    import json
    print(json.dumps(payload, indent=1, default=str)[:4000])
    return 0
