"""C16 — TriangularMesh status checks are right and orientation is normalised"""
from corr import mesh_family
from oracles import c16 as oracle

GEN = []
LEAN_TARGETS = ["MagpyVerif.Props.C16"]
PROPS = ["MagpyVerif.Props.C16"]


def run(ctx, model_ok):
    if ctx.driver_ok:
        st = mesh_family.run_stream(ctx, ctx.scale(300, 20000))
        ctx.cov["evaluations"] = st["meshes"] * 2
        ctx.cov["distinct_nontrivial"] = st["distinct"]
        ctx.cov["rule"] = ("random face lists from cubes/tetrahedra/octahedra: 1-3 parts, faces deleted (35%), parts joined through a vertex (20%), faces shuffled, "
                           "vertices renumbered, windings rotated/flipped; distinct = distinct (open edges, vertex subsets) results")
        ctx.cov["traces_validated_against_impl"] = st["meshes"]
        ctx.cov["samples"] = st.pop("samples")
        ctx.cov["correspondence"] = st
        si = mesh_family.run_inwards(ctx, ctx.scale(200, 10000))
        ctx.cov["evaluations"] += si["meshes"]
        ctx.cov["distinct_nontrivial"] += si["distinct"]
        ctx.cov["traces_validated_against_impl"] += si["meshes"]
        ctx.cov["samples"] += si.pop("samples")
        ctx.cov["correspondence_inwards"] = si
        ctx.cov["rule"] += ("; inwards: get_inwards_mask + fix_trimesh_orientation vs the model, half of the cases closed bodies (1-3 cubes/tetrahedra/octahedra, apart or "
                            "not, random flips) with the real is_facet_inwards whose verdicts are handed to the model, half arbitrary triples with is_facet_inwards replaced "
                            "by a random table; compared: mask and returned faces, exactly")
    budget = 4 if len(ctx.broken) else 1
    fails, ost = oracle.sweep(ctx, ctx.scale(16, 600) * budget)
    ctx.failing += fails
    ctx.cov["oracle"] = ost
    ctx.cov.setdefault("evaluations", ost["c16_meshes"])
    ctx.cov.setdefault("distinct_nontrivial", ost["c16_meshes"])
    ctx.cov.setdefault("samples", [ost])
    ctx.cov["not_shown"] = ["the seed's ray test (is_facet_inwards), inside test and self-intersection test (float geometry with absolute tolerances), hence 'consistent => all outwards' "
                            "(needs a correct seed verdict and the orientability of closed non-self-intersecting surfaces): permutation/flip/derived-mesh oracle only"]


def replay(ctx, payload):
    import json
    print(json.dumps(payload, indent=1, default=str)[:4000])
    return 0
