"""C16 — TriangularMesh status checks are right and orientation is normalised"""
from corr import mesh_family
from oracles import c16 as oracle

GEN = ["Tol"]
LEAN_TARGETS = ["MagpyVerif.Props.C16"]
PROPS = ["MagpyVerif.Props.C16"]


def run(ctx, model_ok):
    if ctx.driver_ok:
        st = mesh_family.run_stream(ctx, ctx.scale(300, 20000))
        ctx.cov["evaluations"] = st["meshes"] * 2
        ctx.cov["distinct_nontrivial"] = st["distinct"]
        ctx.cov["rule"] = ("random face lists from cubes/tetrahedra/octahedra: 1-3 parts, faces deleted (35%), parts joined through a vertex (20%), faces shuffled, "
                           "vertices renumbered, windings rotated/flipped; distinct = distinct (open edges, vertex subsets) results")
        ctx.cov["traces_validated_against_impl"] = st["meshes"]
        ctx.cov["samples"] = st.pop("samples")
        ctx.cov["correspondence"] = st
        si = mesh_family.run_inwards(ctx, ctx.scale(200, 10000))
        ctx.cov["evaluations"] += si["meshes"]
        ctx.cov["distinct_nontrivial"] += si["distinct"]
        ctx.cov["traces_validated_against_impl"] += si["meshes"]
        ctx.cov["samples"] += si.pop("samples")
        ctx.cov["correspondence_inwards"] = si
        ctx.cov["rule"] += ("; inwards: get_inwards_mask + fix_trimesh_orientation vs the model, half of the cases closed bodies (1-3 cubes/tetrahedra/octahedra, apart or "
                            "not, random flips) with the real is_facet_inwards whose verdicts are handed to the model, half arbitrary triples with is_facet_inwards replaced "
                            "by a random table; compared: mask and returned faces, exactly")
    if ctx.driver_ok:
        from corr import trimesh_family as _tf
        sti = _tf.run_inside_stream(ctx, ctx.scale(150, 5000))
        ctx.cov["correspondence_trimesh_inside"] = sti
        ctx.cov["evaluations"] += sti["inwards_rows"]
        ctx.cov["traces_validated_against_impl"] += sti["inwards_rows"]
        ctx.cov["rule"] += ("; trimesh-inside: is_facet_inwards (the seed test) on boxes, slabs, tetrahedra, hulls, L bodies, prisms with two base corners 1e-4..1e-2 apart, "
                            "bodies with zero-area faces: two random facets per body and — for EVERY body kind — the facet with the largest aspect ratio (longest edge / smallest height, "
                            "up to ~1e7) listed from each of its three edges in turn (inwards_needle_rows, by kind and by decade of the aspect ratio), either winding; "
                            "verdicts of model (IEEE double) and real code compared exactly; a facet whose verdict changes with the edge it is listed from is counted "
                            "(inwards_needle_rotation_dependent: what repo fix ed093b8 removed)")
        from corr import selfint_family as _sf
        ss = _sf.run_selfint_stream(ctx, ctx.scale(300, 8000))
        ctx.cov["evaluations"] += ss["segfacet_rows"] + ss["selfint_rows"]
        ctx.cov["traces_validated_against_impl"] += ss["segfacet_rows"] + ss["selfint_rows"]
        ctx.cov["samples"] += ss.pop("samples")
        ctx.cov["correspondence_selfint"] = ss
        ctx.cov["rule"] += ("; selfint: segments_intersect_facets (float64 and float32 call, adversarial exact rows + random rows) and get_intersecting_triangles "
                            "(small meshes incl. subdivided box faces, needle-faced boxes, Stella octangula, far-centroid needles; scales 1e-9..1e9, offsets up to 1e7 sizes, r / r_factor / eps varied) "
                            "vs Model/MeshIntersect.lean (normalisation in float64, then emulated float32): verdicts, index sets exact, query radius bit for bit")
    if ctx.driver_ok:
        from corr import meshperm_family as _mp
        sp = _mp.run_stream(ctx, ctx.scale(30, 1500))
        ctx.cov["evaluations"] += sp["rows_reorient"] + sp["rows_facesubsets"] + sp["rows_field"]
        ctx.cov["traces_validated_against_impl"] += sp["rows_reorient"] + sp["rows_facesubsets"] + sp["rows_field"]
        ctx.cov["distinct_nontrivial"] += sp["distinct"]
        ctx.cov["samples"] += sp.pop("samples")
        ctx.cov["correspondence_meshperm"] = sp
        ctx.cov["rule"] += ("; meshperm: the chain vertices+faces -> fix_trimesh_orientation (seed verdicts computed by the model's isFacetInwards in IEEE double) -> vertices[faces] "
                            "-> BHJM_magnet_trimesh on SIX VARIANTS of each mesh (as given, faces permuted, windings rotated, windings flipped, vertices renumbered, all together; "
                            "cubes, tetrahedra, octahedra, a genus-1 ring, hulls, an L prism, two bodies apart / touching in a vertex): mask, faces, mesh bit for bit, "
                            "get_disconnected_faces_subsets' FACE subsets exact and in order, inside verdict exact, field to 1e-7 of the polarization scale; across the variants (real code) "
                            "the reoriented face sets and the fields are compared")
    budget = 4 if len(ctx.broken) else 1
    fails, ost = oracle.sweep(ctx, ctx.scale(16, 600) * budget)
    ctx.failing += fails
    ctx.cov["oracle"] = ost
    ctx.cov.setdefault("evaluations", ost["c16_meshes"])
    ctx.cov.setdefault("distinct_nontrivial", ost["c16_meshes"])
    ctx.cov.setdefault("samples", [ost])
    ctx.cov["not_shown"] = ["that the ray test (mask_inside_trimesh / is_facet_inwards; ported, tied bit-for-bit by the trimesh-inside stream, shown independent of unit, "
                            "position and face order) equals the geometric inside predicate of a closed surface — it does not on the planes through the ray start and an edge "
                            "(Props/C02 trimesh_ray_test_misses_interior_point); hence 'consistent => all outwards' "
                            "(needs a correct seed verdict and the orientability of closed non-self-intersecting surfaces): permutation/flip/derived-mesh oracle only",
                            "check_selfintersecting (the repaired code; ported, tied by the selfint stream): in exact arithmetic the segment/facet primitive reports a pair exactly when both "
                            "end points are farther than eps from the facet's plane and the segment meets the closed facet (segfacet_iff_closed: sound; complete incl. crossings through an edge "
                            "or a corner); reindexed by face permutations, translation invariant, unit invariant with eps fixed (selfint_scale_invariant; eps is a fraction of the mesh size, "
                            "selfint_eps_is_relative); r_factor = 2 reaches every facet pair with a common point, no crossing found by the primitive is lost to the ball query "
                            "(selfint_radius_covers, selfint_reports_crossing_pair).  NOT shown: that two intersecting facets always have an edge of one meeting the other off its end points — false when end points lie "
                            "within eps x size of the other facet's plane (segfacet_misses_end_in_facet; octahedron with its equator in a box face: known finding).  float32 rounding is modelled "
                            "bit for bit but no theorem is about it: needle facets of aspect >~ 1e3 in general position can still be flagged (plane-distance noise of coplanar neighbours above eps).  "
                            "(audit2) What the class verdict IS in exact arithmetic: selfint_verdict_iff / selfint_report_iff — True exactly when some edge of a facet has a point in common with "
                            "another closed facet with both end points farther than 1e-6 x size from that facet's plane; this is NOT 'self-intersecting exactly when it is' (misses: end points in the "
                            "other facet's plane, coplanar overlaps; and 'farther than eps' uses the code's own plane distance, 0 for a zero-area facet).  That a valid mesh (facets meeting only in common "
                            "corners / edges) is never flagged follows informally from it but is not stated as a theorem (no definition of a valid mesh in the model)",
                            "check_open: 'open' is the code's own edge count (open_iff_edge_count_ne_2 unfolds the model); its reading as 'number of faces containing both end points' holds for "
                            "faces with three distinct indices only (edge_count_eq_faces_containing); a face (a, a, b) counts its edge twice",
                            "orientation: propagation_consistent assumes that some consistent choice of flips exists; that every closed non-self-intersecting embedded mesh has one is not proved; "
                            "the seed verdict is a parameter: reorient_invariant_under_input_flips / reorient_idempotent (same faces, same mesh for every subset of input faces given flipped) hold for "
                            "edge-connected orientable meshes UNDER THE HYPOTHESIS that the real seed test answers geometrically (flipping the seed face flips its verdict).  About is_facet_inwards "
                            "itself is proved: its check point (1e-5 x the longest edge since ed093b8) never lies in the touch band of the seed facet's own plane (seed_checkpoint_clears_own_plane: "
                            "normalised projection >= 1e-5/(1+1e-5) from any corner; the rule before the fix did not: old_rule_touches_sliver, a valid tetrahedron with a needle seed facet judged "
                            "inwards); it lies on the positive side of the facet normal AS GIVEN (changes sides with the winding); a check point outside the bounding box gives 'outwards' "
                            "(seed_verdict_outside_box_outwards); for a mesh that is ONE tetrahedron with any windings (seed_verdict_geometric_tetra_partial) a check point strictly inside with a "
                            "generic ray gives 'inwards', a check point beyond the plane of the first face only, generic ray, no OTHER face touched gives 'outwards' (even crossing count: "
                            "crossCount_tetra_beyond_first) — on such a tetrahedron the seed verdict is geometric.  (audit2) These seed theorems were NOT connected to the hypothesis hgeo of "
                            "reorient_invariant_under_input_flips / reorient_idempotent (the examples instantiated the _index versions with constant stub seeds only); the connection now exists for ONE "
                            "LITERAL tetrahedron: reorient_tetra345_all_flips / reorient_tetra345_idempotent (vertices (0,0,0),(3,0,0),(0,4,0),(0,0,1), real carrier, the modelled is_facet_inwards as seed, "
                            "every subset of flipped input faces: the outward listing comes back, a second run changes nothing) — the only mesh for which 'after reorientation all faces point outwards' "
                            "is a theorem without a seed hypothesis; for every other mesh hgeo is an ASSUMPTION (oracle / meshperm stream only), and 'Consistent faces rho' (orientability) plus "
                            "'EdgeConnected faces' (from face 0) are hypotheses too, not derived from 'closed and not self-intersecting'.  NOT shown: anything for meshes other than one tetrahedron (convex bodies: the parity "
                            "argument for a closed triangulated surface is missing); the hypotheses 'no other face touched' (false for dihedral angles below ~1e-5) and 'generic ray' are not "
                            "derived from the geometry; hence 'after reorientation all faces point outwards' is not shown; meshes of several edge-components (bodies apart or "
                            "touching in a vertex) get one seed test per component: winding invariance for them is compared by the meshperm stream only; invariance of the sweep under ROTATING the "
                            "windings (a,b,c)->(b,c,a) has no theorem (the returned faces are then rotated too; the sheets are rotation invariant, trimesh_sheets_rotation; meshperm stream)",
                            "inside test: theorem only for a mesh that is ONE tetrahedron, observers strictly inside, generic ray (tetra_interior_found_by_ray_test_partial); nothing for observers "
                            "outside nor for any other closed mesh (boxes, prisms, hulls, unions: oracle only)",
                            "all real-arithmetic theorems (maskInsideTrimesh, isFacetInwards, segFacet, getIntersectingTriangles) evaluate zero-area facets through x/0 = 0 where the float code "
                            "produces NaN; the getIntersectingTriangles theorems are about rounding = id, which neither the driver (float32 only) nor the real function (always astype(float32)) executes "
                            "(the primitive segFacet at rounding = id IS executed: the float64 rows of the selfint stream); (audit2) one exception: the face-order statement holds for EVERY rounding "
                            "function on the reals (selfint_face_order_invariant_any_rounding, selfint_verdict_face_order_invariant_any_rounding — float32 round-to-nearest idealised, no overflow / NaN); "
                            "translation / scale invariance, selfint_radius_covers, selfint_reports_crossing_pair, selfint_eps_is_relative, selfint_report_iff / selfint_verdict_iff remain at rounding = id only",
                            "field vs face order / winding / vertex numbering: proved OVER THE REALS ONLY (audit2: trimesh_field_face_perm, triangle_field_cyclic, trimesh_sheets_rotation use commutativity / "
                            "associativity of +; the float sum over the faces and over the three edge terms is order dependent and NOT represented — on the real class a face permutation of the convex hull of 14 random points "
                            "changes getB in the last bits, 17 of 20 observers, max 1.4e-17; the meshperm stream compares to 1e-7 of the polarization scale; vertex_renumbering alone is bit-exact at any carrier "
                            "because vertices[faces] is the identical array) — face order for the whole BHJM_magnet_trimesh incl. the inside test (trimesh_field_face_perm), vertex numbering "
                            "for the whole chain at any carrier (vertex_renumbering: identical (n,3,3) array), input flips via reorientation (previous item), the Triangle kernel under rotation "
                            "(triangle_field_cyclic) and exchange of two vertices (triangle_field_flip).  NOT shown: triangle_field_flip for an observer within the on_edge tolerance of an edge — "
                            "false of the code (the substitute value log(-a/c)/l changes sign with the edge direction: triangle_edge_on_edge_changes_sign — a statement about ONE edge integral; no theorem "
                            "exhibits a triangle and observer with triangleB(v0,v2,v1) != -triangleB(v0,v1,v2)); the inside test under a rotation of a "
                            "face's vertices: its crossing count is winding-free (crossing_count_winding_invariant) but the touch test |proj| < 1e-7 is measured from the face's LAST vertex, so an observer "
                            "within ~1e-7 (relative) of a face plane changes sides with the vertex order of that face (theorem touch_verdict_depends_on_reference_vertex: unit tetrahedron, observer "
                            "(0.9, 0.05, 0.05) + 3e-8 (1,1,1), face x+y+z=1 listed [2,3,1]: outside, [3,1,2]: inside; reproduced on the real class); outside that layer: meshperm stream"]


def replay(ctx, payload):
    import json
    print(json.dumps(payload, indent=1, default=str)[:4000])
    return 0
