"""C16 — TriangularMesh status checks are right and orientation is normalised"""
from corr import mesh_family
from oracles import c16 as oracle

GEN = ["Tol"]
LEAN_TARGETS = ["MagpyVerif.Props.C16"]
PROPS = ["MagpyVerif.Props.C16"]


def run(ctx, model_ok):
    if ctx.driver_ok:
        st = mesh_family.run_stream(ctx, ctx.scale(300, 20000))
        ctx.cov["evaluations"] = st["meshes"] * 2
        ctx.cov["distinct_nontrivial"] = st["distinct"]
        ctx.cov["rule"] = ("random face lists from cubes/tetrahedra/octahedra: 1-3 parts, faces deleted (35%), parts joined through a vertex (20%), faces shuffled, "
                           "vertices renumbered, windings rotated/flipped; distinct = distinct (open edges, vertex subsets) results")
        ctx.cov["traces_validated_against_impl"] = st["meshes"]
        ctx.cov["samples"] = st.pop("samples")
        ctx.cov["correspondence"] = st
        si = mesh_family.run_inwards(ctx, ctx.scale(200, 10000))
        ctx.cov["evaluations"] += si["meshes"]
        ctx.cov["distinct_nontrivial"] += si["distinct"]
        ctx.cov["traces_validated_against_impl"] += si["meshes"]
        ctx.cov["samples"] += si.pop("samples")
        ctx.cov["correspondence_inwards"] = si
        ctx.cov["rule"] += ("; inwards: get_inwards_mask + fix_trimesh_orientation vs the model, half of the cases closed bodies (1-3 cubes/tetrahedra/octahedra, apart or "
                            "not, random flips) with the real is_facet_inwards whose verdicts are handed to the model, half arbitrary triples with is_facet_inwards replaced "
                            "by a random table; compared: mask and returned faces, exactly")
    if ctx.driver_ok:
        from corr import trimesh_family as _tf
        ctx.cov["correspondence_trimesh_inside"] = _tf.run_inside_stream(ctx, ctx.scale(150, 5000))
    budget = 4 if len(ctx.broken) else 1
    fails, ost = oracle.sweep(ctx, ctx.scale(16, 600) * budget)
    ctx.failing += fails
    ctx.cov["oracle"] = ost
    ctx.cov.setdefault("evaluations", ost["c16_meshes"])
    ctx.cov.setdefault("distinct_nontrivial", ost["c16_meshes"])
    ctx.cov.setdefault("samples", [ost])
    ctx.cov["not_shown"] = ["that the ray test (mask_inside_trimesh / is_facet_inwards; ported, tied bit-for-bit by the trimesh-inside stream, shown independent of unit, "
                            "position and face order) equals the geometric inside predicate of a closed surface — it does not on the planes through the ray start and an edge "
                            "(Props/C02 trimesh_ray_test_misses_interior_point) —, and the self-intersection test; hence 'consistent => all outwards' "
                            "(needs a correct seed verdict and the orientability of closed non-self-intersecting surfaces): permutation/flip/derived-mesh oracle only"]


def replay(ctx, payload):
    import json
    print(json.dumps(payload, indent=1, default=str)[:4000])
    return 0
