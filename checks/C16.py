"""C16 — TriangularMesh status checks are right and orientation is normalised"""
from corr import mesh_family
from oracles import c16 as oracle

GEN = ["Tol"]
LEAN_TARGETS = ["MagpyVerif.Props.C16"]
PROPS = ["MagpyVerif.Props.C16"]


def run(ctx, model_ok):
    if ctx.driver_ok:
        st = mesh_family.run_stream(ctx, ctx.scale(300, 20000))
        ctx.cov["evaluations"] = st["meshes"] * 2
        ctx.cov["distinct_nontrivial"] = st["distinct"]
        ctx.cov["rule"] = ("random face lists from cubes/tetrahedra/octahedra: 1-3 parts, faces deleted (35%), parts joined through a vertex (20%), faces shuffled, "
                           "vertices renumbered, windings rotated/flipped; distinct = distinct (open edges, vertex subsets) results")
        ctx.cov["traces_validated_against_impl"] = st["meshes"]
        ctx.cov["samples"] = st.pop("samples")
        ctx.cov["correspondence"] = st
        si = mesh_family.run_inwards(ctx, ctx.scale(200, 10000))
        ctx.cov["evaluations"] += si["meshes"]
        ctx.cov["distinct_nontrivial"] += si["distinct"]
        ctx.cov["traces_validated_against_impl"] += si["meshes"]
        ctx.cov["samples"] += si.pop("samples")
        ctx.cov["correspondence_inwards"] = si
        ctx.cov["rule"] += ("; inwards: get_inwards_mask + fix_trimesh_orientation vs the model, half of the cases closed bodies (1-3 cubes/tetrahedra/octahedra, apart or "
                            "not, random flips) with the real is_facet_inwards whose verdicts are handed to the model, half arbitrary triples with is_facet_inwards replaced "
                            "by a random table; compared: mask and returned faces, exactly")
    if ctx.driver_ok:
        from corr import trimesh_family as _tf
        ctx.cov["correspondence_trimesh_inside"] = _tf.run_inside_stream(ctx, ctx.scale(150, 5000))
        from corr import selfint_family as _sf
        ss = _sf.run_selfint_stream(ctx, ctx.scale(300, 8000))
        ctx.cov["evaluations"] += ss["segfacet_rows"] + ss["selfint_rows"]
        ctx.cov["traces_validated_against_impl"] += ss["segfacet_rows"] + ss["selfint_rows"]
        ctx.cov["samples"] += ss.pop("samples")
        ctx.cov["correspondence_selfint"] = ss
        ctx.cov["rule"] += ("; selfint: segments_intersect_facets (float64 and float32 call, adversarial exact rows + random rows) and get_intersecting_triangles "
                            "(small meshes incl. subdivided box faces, needle-faced boxes, Stella octangula, far-centroid needles; scales 1e-9..1e9, offsets up to 1e7 sizes, r / r_factor / eps varied) "
                            "vs Model/MeshIntersect.lean (normalisation in float64, then emulated float32): verdicts, index sets exact, query radius bit for bit")
    budget = 4 if len(ctx.broken) else 1
    fails, ost = oracle.sweep(ctx, ctx.scale(16, 600) * budget)
    ctx.failing += fails
    ctx.cov["oracle"] = ost
    ctx.cov.setdefault("evaluations", ost["c16_meshes"])
    ctx.cov.setdefault("distinct_nontrivial", ost["c16_meshes"])
    ctx.cov.setdefault("samples", [ost])
    ctx.cov["not_shown"] = ["that the ray test (mask_inside_trimesh / is_facet_inwards; ported, tied bit-for-bit by the trimesh-inside stream, shown independent of unit, "
                            "position and face order) equals the geometric inside predicate of a closed surface — it does not on the planes through the ray start and an edge "
                            "(Props/C02 trimesh_ray_test_misses_interior_point); hence 'consistent => all outwards' "
                            "(needs a correct seed verdict and the orientability of closed non-self-intersecting surfaces): permutation/flip/derived-mesh oracle only",
                            "check_selfintersecting (the repaired code; ported, tied by the selfint stream): in exact arithmetic the segment/facet primitive reports a pair exactly when both "
                            "end points are farther than eps from the facet's plane and the segment meets the closed facet (segfacet_iff_closed: sound; complete incl. crossings through an edge "
                            "or a corner); reindexed by face permutations, translation invariant, unit invariant with eps fixed (selfint_scale_invariant; eps is a fraction of the mesh size, "
                            "selfint_eps_is_relative); r_factor = 2 reaches every facet pair with a common point, no crossing found by the primitive is lost to the ball query "
                            "(selfint_radius_covers, selfint_reports_crossing_pair).  NOT shown: that two intersecting facets always have an edge of one meeting the other off its end points — false when end points lie "
                            "within eps x size of the other facet's plane (segfacet_misses_end_in_facet; octahedron with its equator in a box face: known finding).  float32 rounding is modelled "
                            "bit for bit but no theorem is about it: needle facets of aspect >~ 1e3 in general position can still be flagged (plane-distance noise of coplanar neighbours above eps)",
                            "check_open: 'open' is the code's own edge count (open_iff_edge_count_ne_2 unfolds the model); its reading as 'number of faces containing both end points' holds for "
                            "faces with three distinct indices only (edge_count_eq_faces_containing); a face (a, a, b) counts its edge twice",
                            "get_disconnected_faces_subsets returns FACE subsets (np.isin(...).all(axis=1)); model and theorems are about the vertex sets subsets_inds, the final face selection "
                            "is compared by the mesh stream only",
                            "orientation: propagation_consistent assumes that some consistent choice of flips exists; that every closed non-self-intersecting embedded mesh has one is not proved; "
                            "the seed verdict is a free parameter of inwardsMask (the inwards stream hands the real is_facet_inwards verdicts to the model): no theorem says the seed verdict is "
                            "right, so 'after reorientation all faces point outwards' is not shown",
                            "inside test: theorem only for a mesh that is ONE tetrahedron, observers strictly inside, generic ray (tetra_interior_found_by_ray_test_partial); nothing for observers "
                            "outside nor for any other closed mesh (boxes, prisms, hulls, unions: oracle only)",
                            "all real-arithmetic theorems (maskInsideTrimesh, isFacetInwards, segFacet, getIntersectingTriangles) evaluate zero-area facets through x/0 = 0 where the float code "
                            "produces NaN; the getIntersectingTriangles theorems are about rounding = id, which neither the driver (float32 only) nor the real function (always astype(float32)) executes",
                            "'the field does not depend on face order / winding / vertex numbering': no theorem, permutation oracle only"]


def replay(ctx, payload):
    import json
    print(json.dumps(payload, indent=1, default=str)[:4000])
    return 0
