from checks import _level2
from oracles import level2 as oracle

GEN = []
LEAN_TARGETS = ["MagpyVerif.Props.C03"]
PROPS = ["MagpyVerif.Props.C03"]
NOT_SHOWN = {
 "03": ["covariance is proved for the pipeline tensor `Model/Level2.tensor` (covariance_end_to_end: sources and Sensors moved together; "
        "covariance_positions_end_to_end: sources and position observers moved, vectors rotate by Q), i.e. before pixel_agg / sumup / squeeze; "
        "that those three commute with the rotation is not stated here (sumup and pixel_agg='sum' are sums, min/max do NOT commute with a rotation of the vectors)",
        "carrier: the theorems are over an abstract Mathlib `Group G` acting by a `DistribMulAction` on `V`; the driver evaluates the same polymorphic "
        "model at integer matrices (`M3 Int`, inverse = transpose, not a group as a type). PROVED since the octgroup session "
        "(Lemmas/OctaCarrier.lean, Lemmas/OpHom.lean): the orthogonal integer matrices of determinant 1 (`IsOct`, the 24 octahedral rotations, the "
        "only ones the streams send) form a `Group Oct` acting on `V3 Int` by a `DistribMulAction` with exactly the driver's product / transpose / "
        "apply / ==, every model function is natural in the inclusion `Oct -> M3 Int` (tensor_at_Oct_eq_at_M3Int, getBH_at_Oct_eq_at_M3Int, "
        "Node.step_at_Oct_eq_at_M3Int, ...), and the headline theorems are restated for the `M3 Int` evaluation under the decidable hypothesis that "
        "all rotation matrices of the input are octahedral (`*_on_driver_carrier` in Props/C03-C07, C09, C10; the interface models Model/Iface and Model/DictIface are covered by Lemmas/OctaIface.lean; C05 `collection_is_sum_of_children_on_M3Int` even holds for arbitrary integer matrices). "
        "What REMAINS ASSUMED: (1) that scipy `Rotation` restricted to the 24 octahedral rotations composes / inverts / applies / compares like these "
        "integer matrices -- validated exactly (integer data, scipy results snapped to the grid by vlib/octa.py, compared for equality) by the level2, "
        "path and iface streams on the sampled inputs, not proved; (2) that for GENERAL rotations scipy `Rotation` is a group acting on R^3 up to "
        "floating-point rounding -- the abstract-group theorems describe the code for arbitrary rotations only modulo this (DESIGN section 4); rounding is "
        "looked at by the float oracle only; (3) non-octahedral integer matrices on the driver are outside every group-theoretic statement (the parser "
        "accepts them, no stream sends them)"],
 "04": ["pixel_agg reductions other than sum/min/max (mean, median, std, ...) are not modelled; the theorem holds for any reduction function of the pixel list, the stream exercises sum/min/max"],
 "05": ["linearity of each class's kernel in its excitation (kernel-level, see C01/C02); proved here: the marshalling preserves it for any F"],
 "06": ["batch-level control flow inside kernels (rowwise_c: trimesh grouping, segment early return, cel n<10) — kernel model pending",
        "np.squeeze / np.expand_dims / reshape semantics are assumed as modelled (shape list + unchanged row-major data), exercised by the stream"],
}["03"]


def run(ctx, model_ok):
    _level2.run(ctx, oracle.c03_sweep, {"03": 60, "04": 60, "05": 40, "06": 50}["03"], {"03": 2000, "04": 2000, "05": 1200, "06": 1500}["03"], NOT_SHOWN)


replay = _level2.replay
