from checks import _level2
from oracles import level2 as oracle

GEN = []
LEAN_TARGETS = ["MagpyVerif.Props.C03"]
PROPS = ["MagpyVerif.Props.C03"]
NOT_SHOWN = {
 "03": ["covariance AFTER the post-processing IS proved (c03post): `covariance_after_postprocessing` -- for any common rigid motion of all source entries and all "
        "sensors the whole result of getBH_level2 (error exit, shape, every value) is unchanged after pixel_agg with ANY function of the pixel list "
        "(max / min / median / std included: no property of the reduction is used, because every pixel value is already in its sensor's frame when it is "
        "aggregated), after sumup and after squeeze, for all pixel shapes (also different per sensor) and either handedness; `..._dataframe` for "
        "output='dataframe', `..._named` for the sum / min / max instance the integer driver runs, `..._on_driver_carrier` for the M3 Int evaluation. "
        "Position observers: `covariance_positions_after_postprocessing` -- same shape, every vector rotated by Q after sumup / squeeze; with a pixel_agg "
        "the reduction has to commute with the rotation (sum, mean), and this hypothesis cannot be dropped (`position_observers_max_not_rotated`). The order in "
        "the model matters: `aggregate_then_rotate_not_covariant` evaluates the other order (Model/Level2.tensorAggFirst: pixel_agg on the global-frame values, "
        "then rotation / flip of the aggregate) with max on a two-pixel sensor turned by 180 degrees and gets (1,0,0) instead of (2,0,0). "
        "NOT shown: that `np.squeeze` / `np.expand_dims` / `reshape` / `np.split` / `pd.DataFrame(product(...))` behave as the shape-list / row-major-data "
        "model says (assumed, exercised exactly by the level2 stream and with tolerance 1e-9 by the level2f stream); the numpy reductions themselves "
        "(Model/PixelAgg.lean: as numpy computes them, tied by the level2f stream, nothing proved about them -- the theorems quantify over every reduction)",
        "carrier: the theorems are over an abstract Mathlib `Group G` acting by a `DistribMulAction` on `V`; the driver evaluates the same polymorphic "
        "model at integer matrices (`M3 Int`, inverse = transpose, not a group as a type). PROVED since the octgroup session "
        "(Lemmas/OctaCarrier.lean, Lemmas/OpHom.lean): the orthogonal integer matrices of determinant 1 (`IsOct`, the 24 octahedral rotations, the "
        "only ones the streams send) form a `Group Oct` acting on `V3 Int` by a `DistribMulAction` with exactly the driver's product / transpose / "
        "apply / ==, every model function is natural in the inclusion `Oct -> M3 Int` (tensor_at_Oct_eq_at_M3Int, getBH_at_Oct_eq_at_M3Int, "
        "Node.step_at_Oct_eq_at_M3Int, ...), and the headline theorems are restated for the `M3 Int` evaluation under the decidable hypothesis that "
        "all rotation matrices of the input are octahedral (`*_on_driver_carrier` in Props/C03-C07, C09, C10; the interface models Model/Iface and Model/DictIface are covered by Lemmas/OctaIface.lean; C05 `collection_is_sum_of_children_on_M3Int` even holds for arbitrary integer matrices). "
        "What REMAINS ASSUMED: (1) that scipy `Rotation` restricted to the 24 octahedral rotations composes / inverts / applies / compares like these "
        "integer matrices -- validated exactly (integer data, scipy results snapped to the grid by vlib/octa.py, compared for equality) by the level2, "
        "path and iface streams on the sampled inputs, not proved; (2) that for GENERAL rotations scipy `Rotation` is a group acting on R^3 up to "
        "floating-point rounding -- the abstract-group theorems describe the code for arbitrary rotations only modulo this (DESIGN section 4); rounding is "
        "looked at by the float oracle only; (3) non-octahedral integer matrices on the driver are outside every group-theoretic statement (the parser "
        "accepts them, no stream sends them)",
        "audit2, post-processing theorems: (a) `covariance_after_postprocessing*` are corollaries of `covariance_end_to_end` (the tensor BEFORE pixel_agg is "
        "already identical for a co-moved Sensor, so every function of it is) plus invariance of the error exits and of the shape; no hypothesis on the "
        "reduction is hidden, the only hypothesis is `Sens.WF` (non-empty orientation path, position and orientation paths of equal length, as many pixel "
        "offsets as the pixel shape says). (b) position observers: the hypothesis `hagg` (the reduction commutes with Q) carries the pixel_agg step; it is "
        "DISCHARGED only for `sum` (`sum_commutes_with_rotation`, `covariance_positions_after_postprocessing_sum` for the driver's `getBH ... .sum`, "
        "`..._on_driver_carrier` with an applied example); that `mean` commutes is stated in a doc comment and NOT proved (the carrier `V` has no division). "
        "`position_observers_max_not_rotated_final`: for max the conclusion is false on the final result of `getBHF` (both calls accepted, (-1,0,0) vs Q.(2,0,0) = (-2,0,0)). "
        "(c) position observers are modelled as ONE flat list of positions (`obsSensor`: unit pose, pixShape [n]); observer arrays of shape (n1, n2, 3) are "
        "the glue of Model/Iface (C07 `observers_as_positions`). (d) the wrong order `Model/Level2.tensorAggFirst` of the witness "
        "`aggregate_then_rotate_not_covariant` is a counter-model that NO driver command runs; the stream counter `distinguishes_aggregate_then_rotate` "
        "evaluates the wrong order independently in Python on the real pre-aggregation values. (e) carrier of the level2f stream: the driver evaluates `getBHF` "
        "with Model/PixelAgg at `M3 Float` / `V3 Float`; no theorem applies to that instantiation (Float is neither a group nor an AddCommGroup) and the "
        "`_on_driver_carrier` theorems are for `M3 Int` and reductions `List (V3 Int) -> V3 Int`, which mean / median / std are not: for these reductions "
        "theorem and stream are linked only by being instances of the same polymorphic definition `getBHF` (for sum / min / max additionally by "
        "`getBH_eq_F` and the exact level2 stream). audit2 added a carrier on which the reductions of Model/PixelAgg ARE instances `f` of the theorems "
        "(Lemmas/Audit2C04.lean: the octahedral group acting on V3 Real; `covariance_after_postprocessing_named_numpy_reduction` = the level2f driver "
        "expression `byName name = some a, getBHF ... a` at the reals) -- exact real arithmetic, octahedral rotations only"],
 "04": ["pixel_agg reductions other than sum/min/max (mean, median, std, ...) are not modelled; the theorem holds for any reduction function of the pixel list, the stream exercises sum/min/max"],
 "05": ["linearity of each class's kernel in its excitation (kernel-level, see C01/C02); proved here: the marshalling preserves it for any F"],
 "06": ["batch-level control flow inside kernels (rowwise_c: trimesh grouping, segment early return, cel n<10) — kernel model pending",
        "np.squeeze / np.expand_dims / reshape semantics are assumed as modelled (shape list + unchanged row-major data), exercised by the stream"],
}["03"]


def run(ctx, model_ok):
    _level2.run(ctx, oracle.c03_sweep, {"03": 60, "04": 60, "05": 40, "06": 50}["03"], {"03": 2000, "04": 2000, "05": 1200, "06": 1500}["03"], NOT_SHOWN)


replay = _level2.replay
