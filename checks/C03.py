from checks import _level2
from oracles import level2 as oracle

GEN = []
LEAN_TARGETS = ["MagpyVerif.Props.C03"]
PROPS = ["MagpyVerif.Props.C03"]
NOT_SHOWN = {
 "03": ["covariance is proved for the pipeline tensor `Model/Level2.tensor` (covariance_end_to_end: sources and Sensors moved together; "
        "covariance_positions_end_to_end: sources and position observers moved, vectors rotate by Q), i.e. before pixel_agg / sumup / squeeze; "
        "that those three commute with the rotation is not stated here (sumup and pixel_agg='sum' are sums, min/max do NOT commute with a rotation of the vectors)",
        "the theorems are over an abstract Mathlib `Group G` acting by a `DistribMulAction` on `V`; that scipy Rotation, and the integer matrices the driver "
        "computes with (`M3 Int`, inverse = transpose, NOT a group as a type), satisfy the group-action laws on the rotations actually used is an assumption "
        "(no instance is proved; the level2 stream exercises the octahedral group only)"],
 "04": ["pixel_agg reductions other than sum/min/max (mean, median, std, ...) are not modelled; the theorem holds for any reduction function of the pixel list, the stream exercises sum/min/max"],
 "05": ["linearity of each class's kernel in its excitation (kernel-level, see C01/C02); proved here: the marshalling preserves it for any F"],
 "06": ["batch-level control flow inside kernels (rowwise_c: trimesh grouping, segment early return, cel n<10) — kernel model pending",
        "np.squeeze / np.expand_dims / reshape semantics are assumed as modelled (shape list + unchanged row-major data), exercised by the stream"],
}["03"]


def run(ctx, model_ok):
    _level2.run(ctx, oracle.c03_sweep, {"03": 60, "04": 60, "05": 40, "06": 50}["03"], {"03": 2000, "04": 2000, "05": 1200, "06": 1500}["03"], NOT_SHOWN)


replay = _level2.replay
