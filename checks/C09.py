"""C09 — move/rotate and the pose setters follow the documented path semantics"""
from corr import path_family
from oracles import c09 as oracle

GEN = ["PathPad"]
LEAN_TARGETS = ["MagpyVerif.Props.C09"]
PROPS = ["MagpyVerif.Props.C09"]


def run(ctx, model_ok):
    broken_before = len(ctx.broken)
    if ctx.driver_ok:
        st = path_family.run_stream(ctx, ctx.scale(150, 4000), ctx.scale(10, 12), equal_lengths_share=0.15)
        ctx.cov["evaluations"] = st["ops"]
        ctx.cov["distinct_nontrivial"] = st["distinct_states"]
        ctx.cov["rule"] = ("seeded random histories (tree shape, op kind, scalar/vector input of length 0..5, start in auto∪[-N-3,N+3], "
                           "anchor none/0/scalar/vector, all rotate_from_* forms, malformed inputs; op `rotfrom`: the five thin wrappers rotate_from_rotvec/euler/matrix/mrp/quat "
                           "with RAW arguments (octahedral rotation vectors in deg/rad, quaternions also negated / rescaled, MRPs, matrices, Euler angles k*90 deg for every valid "
                           "1..3-letter extrinsic/intrinsic sequence as number / (W,) / (n,W) arrays, refused arguments), the model (Model/RotFrom.lean) classifying scalar/vector "
                           "input and converting itself; ops `add` (fresh Sensor / Dipole / nested Collection with its own paths) and `remove`; op `angax`: rotate_from_angax with scalar/vector angles "
                           "k*90 deg or k*pi/2 rad, axis 'x'/'y'/'z' / scaled signed coordinate vectors / (0,0,0) / other strings, the model (Model/Angax.lean at "
                           "Float) doing the angle-axis -> rotation-vector conversion itself, from_rotvec = Rodrigues matrix snapped to the octahedral group); distinct = distinct full tree "
                           "states (all position/orientation paths) observed after an operation on the real objects")
        ctx.cov["traces_validated_against_impl"] = st["histories"]
        ctx.cov["samples"] = st.pop("samples")
        ctx.cov["correspondence"] = st
    else:
        ctx.cov["correspondence"] = "driver did not build"
    budget = 10 if len(ctx.broken) else 1
    fails, ost = oracle.sweep(ctx, ctx.scale(60, 1500) * budget, 10)
    ctx.cov["oracle"] = ost
    ctx.failing += fails
    ctx.cov.setdefault("evaluations", ost["oracle_ops"])
    ctx.cov.setdefault("distinct_nontrivial", ost["oracle_ops"])
    ctx.cov.setdefault("samples", [{"oracle": "see oracle stats"}])
    ctx.cov["not_shown"] = ["scipy's conversion of ONE parameter set to a rotation (from_rotvec / from_quat / from_mrp / from_matrix; an Euler sequence is composed from elementary "
                            "from_rotvec rotations in the model) is an opaque parameter (`RotFrom.Scipy`), and that scipy converts a stack row by row is assumed — both exercised by the "
                            "`rotfrom` rows of the correspondence stream on the octahedral group; everything else of the six entry points (argument class -> scalar / vector input, "
                            "degree flag, sequence check, multi-axis composition order, refused arguments leave the state) is modelled (Model/RotFrom.lean) and proved "
                            "(rotate_from_any_eq_rotate, entry_points_share_start_semantics, paths_equal_length_always)",
                            "rotate_from_euler with a 1-D array of n angles for a one-letter sequence (the docstring's `shape (n,)`, its own example `(15,30,45), 'z'`): the pinned "
                            "scipy 1.18.1 alone refuses n != 1 (ValueError from Rotation.from_euler); since repo fix 96c592d magpylib reshapes such input to (n, 1) before scipy sees it, and "
                            "the model follows THAT (eulerRows: `.arr1` with a one-letter sequence = vector input of n, Entry.shape = some (false, n)); the stream samples it (`euler:arr1:w1:*` rows) "
                            "[audit2: the earlier text here still described the pre-fix behaviour (Entry.shape = none)]",
                            "audit2: rotate_from_any_eq_rotate (first conjunct) and the window conjunct of entry_points_share_start_semantics hold BY DEFINITION of the model (`Node.hstep` of "
                            "`.rotFrom` is `Node.step (rotFromOp ..)`, `rotWindow` only reads (isScalar, length)); its third conjunct is rotate_refines_spec applied to the converted rotation. "
                            "That the REAL six entry points are `rotate` after the conversion, with these shape classes, is what the `rotfrom` / `angax` rows of the `path` stream compare. "
                            "'The equivalent rotation' is specified only as far as angax_rotvec_spec (angle/axis -> rotation vectors) and euler_composition_order (order of a multi-axis "
                            "sequence) go; the conversion of ONE parameter set is the parameter `sc`, and the closed forms the driver puts in its place (Rodrigues, quatMatrix, mrpQuat, det3) "
                            "are compared with scipy on the 24 octahedral rotations only (exact after snapping), never on a general rotation",
                            "audit2: rotate_refines_spec / angax_refines_spec / entry_points_share_start_semantics ('composes on the left, moves the position about the anchor') are for "
                            "parentPath = none, i.e. a top-level object or the collection's OWN object; a child rotated through its collection (parent_path branch) is C10",
                            "rotate_from_angax in IEEE double: a non-zero axis whose norm underflows to 0 (|axis| < ~1.5e-162) or a NaN angle/axis passes the validators, "
                            "gives NaN rotation vectors, raises scipy's ValueError and leaves NaN positions when an anchor is given (exact arithmetic: norm > 0 is proved)",
                            "the common length of a history in closed form (history_common_length, `histLen`) is proved for trees whose members share one path length and histories whose "
                            "descendant-addressed operations keep it (`AdmissibleAt`); for arbitrary trees only equal lengths >= 1 per object are proved (paths_equal_length_always), "
                            "which is all the property claims there",
                            "floating-point rounding of rotation composition (oracle tolerance 1e-9)"]
    ctx.assumptions += ["scipy Rotation is a group acting on R^3; np.pad(edge)/slicing behave as edgePad/mapSlice"]


def replay(ctx, payload):
    import json
    print(json.dumps(payload, indent=1)[:4000])
    if payload.get("kind") == "failing-input" and "history" in str(payload):
        return 0
    return 0
