"""regenerate the seeded-change table of DESIGN.md (between the SEEDS markers) from seeded/*/meta.json"""
import glob
import json
import os
import re

ROOT = os.path.dirname(os.path.abspath(__file__))
rows = []
for d in sorted(glob.glob(os.path.join(ROOT, "seeded", "*"))):
    mp = os.path.join(d, "meta.json")
    if not os.path.exists(mp):
        continue
    m = json.load(open(mp))
    name = os.path.basename(d)

    def cell(s, n):
        s = re.sub(r"\s+", " ", str(s)).replace("|", "/")
        return s if len(s) <= n else s[: n - 1].rsplit(" ", 1)[0] + " …"

    caught = ", ".join(m.get("caught_by") or []) or "—"
    if m.get("valid") is False:
        caught = "— (no longer a valid change)"
    rows.append(f"| `{name}` | {cell(m.get('summary', ''), 260)} | {cell(m.get('needs', ''), 200)} | {caught} | {cell(m.get('history', ''), 330)} |")
table = ("| change (`seeded/<name>/`) | what it does | what it needs to manifest | caught by | first evaluation and what was strengthened |\n|---|---|---|---|---|\n" + "\n".join(rows))
p = os.path.join(ROOT, "DESIGN.md")
s = open(p).read()
a, b = "<!-- SEEDS:BEGIN -->", "<!-- SEEDS:END -->"
assert a in s and b in s, "markers missing in DESIGN.md"
s = s[: s.index(a) + len(a)] + "\n" + table + "\n" + s[s.index(b):]
open(p, "w").write(s)
print(len(rows), "seeded changes in the table")
