#!/bin/bash
# usage: tools_seed_eval.sh <seeddir> <name> <check ids...>
# confirms a seeded change (tests still pass, demo fails with / passes without), runs the given checks
# against it on /repo (applied, then undone), and stores it under seeded/<name>/
set -u
SD=$1; NAME=$2; shift 2
cd /verif
git -C /repo diff --quiet || { echo "repo not clean"; exit 2; }
git -C /repo apply --check "$SD/patch.diff" || { echo "patch does not apply"; exit 2; }
D=$(mktemp -d /tmp/seeddemo.XXXX); cp "$SD/demo.py" $D/demo.py   # run from a neutral directory: sys.path[0] must not be the worktree
echo "== demo on unmodified /repo (want 0)"; (cd $D && PYTHONPATH=/repo timeout 600 /venv/bin/python $D/demo.py >/dev/null 2>&1; echo "exit $?")
git -C /repo apply "$SD/patch.diff"
echo "== demo with change (want 1)"; (cd $D && PYTHONPATH=/repo timeout 600 /venv/bin/python $D/demo.py 2>&1 | tail -2; echo "exit ${PIPESTATUS[0]}")
echo "== test suite with change"; (cd /repo && timeout 1200 /venv/bin/python -m pytest -q -p no:cacheprovider -n 8 2>&1 | tail -1)
mkdir -p seeded/$NAME
: > seeded/$NAME/check_results.txt
for c in "$@"; do
  echo "== check $c (quick)"; timeout 1500 /venv/bin/python check.py $c --tier quick 2>&1 | grep -E "^(VIOLATION|BROKEN|C[0-9]+ tier)" | cut -c1-300 | tee -a seeded/$NAME/check_results.txt
done
git -C /repo checkout -- .
rm -rf $D
cp "$SD/patch.diff" "$SD/demo.py" "$SD/meta.json" seeded/$NAME/ 2>/dev/null
git -C /repo status --short | head -3
