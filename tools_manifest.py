"""(re)write MANIFEST.json from the table below; validates against the schema"""
import json

PY = "/venv/bin/python"
TEXT = {
 "C09": ("proof: move/rotate/setters refine the documented index semantics for every start, length and anchor form; "
         "length invariant over every history; path_padding_param regenerated from source each run",
         "scipy Rotation assumed a group action; rotate_from_* conversions are scipy's (corr only); floats observed by oracle (1e-9)",
         "Lean 4 theorems (refinement to docstring spec + invariant by induction over histories) over a hand-written model; generated path_padding_param; differential correspondence on exact data"),
 "C10": ("proof: move, rotate (any anchor form incl. the parent_path recursion through nested collections, any start), position= and orientation= on a collection keep "
         "every descendant's relative pose at every retained path index, for any nesting depth; child operations are local",
         "equal-path-length hypothesis as in the property; scipy Rotation assumed a group action; float effects observed by oracle (1e-8)",
         "Lean 4 theorems over a group acting on an additive group (refinement of the recursive move/_rotate to 'same rigid motion for all members'); differential correspondence on exact data"),
 "C11": ("proof: every operation of the tree-editing API, accepted or rejected, preserves parent<->children consistency, uniqueness, the typed views as ordered partitions "
         "and acyclicity (rank argument; soundness of the fuel-bounded self-reference check by pigeonhole), hence every reachable state is a consistent forest",
         "model looks holders up through _parent (code: DFS over children) - equal under the invariant; copy() under C18",
         "Lean 4 invariant by induction over operation histories on a hand-written state-machine model; differential correspondence incl. rejected calls; invariant oracle on real objects"),
 "C03": ("proof: for every local field function, pose path and rigid motion, the frame change of getBH_level1 and the collection sum are covariant (position observers); "
         "model tied by exact correspondence; all 10 classes swept by the oracle",
         "exact real arithmetic; numpy row order assumed; float rounding by oracle 1e-7",
         "Lean 4 theorems over a group acting on an additive group + exact differential correspondence of the marshalling model"),
 "C04": ("proof: the three sensor back-rotation code paths equal R_k(m)^-1 on the sensor's own pixel slice, handedness flips its slice only, "
         "pixel positions are per-sensor, and the cumulative-index split hands pixel_agg exactly each sensor's pixels for any shapes",
         "stages proved separately, composition tied by exact correspondence; numpy reductions other than sum/min/max by oracle only",
         "Lean 4 theorems on the marshalling model + exact differential correspondence"),
 "C05": ("proof: the slice-sum-delete loop returns per entry the sum over its nested leaves for any mix/order/nesting; frame change is additive and homogeneous in the local field",
         "kernel linearity per class is kernel-level (oracle sweeps all classes, scalings 1e-6..1e6)",
         "Lean 4 theorems (loop invariant by induction over the source list) + exact differential correspondence"),
 "C06": ("proof (partial): per-element formula of the marshalling model: row m of source l is its own field at its own clamped pose at that pixel; independent of other sensors; "
         "shape/squeeze modelled and tied by exact correspondence; kernels' batch-level control flow pending",
         "numpy row order assumed; kernel rowwise independence observed by the element-vs-single-call oracle over all classes and fields",
         "Lean 4 theorems on the marshalling model + exact differential correspondence + element-wise oracle"),
 "C08": ("proof: for every fault schedule of the computation between path tiling and restore, object paths are exactly restored; the position of the restore "
         "(finally block, saved originals) is extracted from the source AST on every run so that removing it breaks the proof",
         "attributes other than the paths and caller arrays are not in the model: deep-snapshot oracle over all failure points of the property text",
         "Lean 4 theorem over a state-machine model with generated exit skeleton (Gen/Exits) + snapshot oracle with fault injection"),
 "C07": ("proof (partial): the functional interface's rank table (regenerated from every registered class each run) is rank+1 for every parameter, hence single values "
         "are tiled and stacks taken per instance, row i gets value or value[i]; wrappers/core/dataframe by cross-interface oracle",
         "rank of one value read from a valid instance (generator); delegation glue not modelled",
         "Lean 4 decide over the generated table + tiling lemma; cross-interface differential oracle on all classes and call forms"),
 "C02": ("proof: for every magnet wrapper's field-selector dispatch (core as a parameter, all mask combinations incl. surface/edge/special cases), Sphere and Dipole in full: B = mu0 H + J and J = mu0 M; "
         "Sphere's J is the indicator of the ball; the source's mu_0 sites are regenerated each run (one known finding: setter literal)",
         "mask = geometric inside predicate proved for Sphere only; other classes by stratified oracle; exact real arithmetic",
         "Lean 4 theorems (algebra over R with arbitrary mu0) on hand-written wrapper models + generated constant-site table + kernel correspondence in IEEE double + residual oracle"),
 "C12": ("proof (partial): exact homogeneity in a common length factor, including the scale-freeness of every internal branch decision, for Dipole (-3), Sphere (0, inside/outside switch), "
         "the straight segment (-1, foot-point case split) and the Cuboid (kernel factors, octant reflection, all wrapper masks); linearity in excitation for Sphere; other classes by rescaling oracle over 1e-9..1e9",
         "exact real arithmetic; Cylinder/Segment/Circle/Triangle kernels not ported; TriangularMesh small-scale failure is a recorded finding",
         "Lean 4 theorems over R on kernel ports tied by IEEE-double correspondence + rescaling oracle"),
 "C01": ("proof (partial): Dipole kernel = point-dipole formula; the Biot-Savart integral of a straight filament in closed form by FTC; Sphere solution (with C13/C14); wrappers add exactly the interior term (C02); "
         "frame change (C03). Other closed forms vs their defining integrals: not shown by theorem, checked by numerical quadrature of the integrals for all 10 classes",
         "Mathlib lacks elliptic-integral theory and surface integrals over triangles/cylinder shells; exact real arithmetic",
         "Lean 4 theorems (interval integral via FTC, algebra) on kernel ports tied by IEEE-double correspondence + first-principles quadrature oracle"),
 "C13": ("proof (partial): Sphere outside = Dipole with moment J*V/mu0; mesh/tetrahedron H = sum of triangle sheets by construction; other representation identities by whole-vs-parts oracle",
         "identities between different closed forms are equivalent to C01 for both sides", "Lean 4 theorems over R + whole-vs-parts differential oracle on the real code"),
 "C14": ("proof (partial): Sphere interface conditions (normal B, tangential H continuous) and B - mu0 H = J inside; flux/circulation for general surfaces and loops by quadrature oracle",
         "needs Gauss/Stokes for general surfaces (not in Mathlib) and C01 per class", "Lean 4 theorems over R + flux/circulation quadrature oracle on the real code"),
 "C17": ("proof (partial): the generic vector validator accepts exactly None-or-k-numbers (positive where documented) for every k; the per-attribute configuration table regenerated from the setters "
         "is the documented one; rejected assignments keep the stored value; all other attributes by the grammar oracle on real setters and constructors",
         "np.array(dtype=float) modelled as rectangular nesting of numeric leaves; scalar/orientation/segment/pixel validators oracle-only",
         "Lean 4 theorems by structural induction over a value grammar + decide over the generated table + grammar x attribute differential oracle"),
 "C20": ("proof (partial): at flat-dictionary level the resolution of get_style is leafwise 'show kwarg, else object, else families (last listed first), else base' for any number of families; last assignment wins; "
         "no default key contains the magic separator (generated DEFAULTS tree); notations/validation/independence/reset by the style oracle on every family",
         "flat model of MagicProperties (validators and nested property objects not modelled)",
         "Lean 4 theorems by induction over the family list + decide over the generated DEFAULTS tree + leaf x source x notation oracle"),
 "C18": ("proof (partial): at tree level copy() writes nothing to the original forest, the copy is parentless and its children are the clones in order; label iteration keeps the digit width; "
         "equality, same field, heap disjointness and mutate-and-diff by the interpreter-level copy oracle for every class and collection trees",
         "CPython heap (deepcopy, class-level mutables, numpy views) is outside the list model",
         "Lean 4 theorems on a tree-level copy model + reachable-graph / np.shares_memory / mutate-and-diff oracle"),
 "C15": ("proof (partial): in exact arithmetic every divisor of the Dipole, Sphere and straight-segment closed forms is non-zero off the documented singular set; float range, NaN and loop termination "
         "are decided by the watchdogged special-set oracle (faces/edges/corners/axis/wire/thresholds at +-ulp, denormals, zero-size sources, 1e12 distances); recorded findings listed by input class",
         "IEEE semantics are outside the real-number model; Lean's Float is opaque beyond + - * /",
         "Lean 4 theorems over R on kernel ports + watchdogged special-point oracle on the real code"),
 "C16": ("proof (partial): an edge is reported open iff it does not lie in exactly two faces; the verdict is invariant under any permutation of faces and under rotating/flipping any face; "
         "connected-subset detection modelled and compared exactly; self-intersection, inside test and outward re-orientation by the permutation/flip/derived-mesh oracle on the real class",
         "float geometry (ray tests, absolute tolerances) is outside the combinatorial model",
         "Lean 4 theorems over face-index lists (List.Perm/count) + exact correspondence of the combinatorial functions + mesh oracle"),
 "C19": ("proof (partial): placement maps a model vertex v to (R v scale + p) f, is inverted by the inverse pose and preserves extents; every SI prefix of the regenerated unit table has factor 10^-power; "
         "model generators, trace merging, backends and non-mutation by the display oracle mapping plotly traces back through the pose",
         "only the plotly backend and five classes are mapped back; backends are outside the model",
         "Lean 4 theorems over a group action on a module + decide over the generated unit table + figure-trace oracle"),
}
props = [json.loads(l) for l in open("properties.jsonl")]
checks = []
na = []
for p in props:
    i = p["id"]
    if i in TEXT:
        t = TEXT[i]
        checks.append({
            "property_id": i,
            "quick_cmd": f"{PY} check.py {i} --tier quick",
            "thorough_cmd": f"{PY} check.py {i} --tier thorough",
            "evidence_file": f"evidence/{i}.json",
            "replay_cmd_template": f"{PY} check.py {i} --replay {{path}}",
            "engine": "lean4-model+correspondence",
            "level_claimed": {"category": "proof", "text": t[0], "design_ref": f"DESIGN.md §6 {i}"},
            "level_note": t[1],
            "technique": t[2],
        })
    else:
        na.append({"property_id": i, "reason": "check not built yet (build in progress, DESIGN.md §9 build order)"})
m = {
 "version": 1,
 "setup_cmd": f"{PY} translate/gen.py && cd lean && lake build MagpyVerif driver",
 "hooks": {"guard": "MAGPYLIB_VERIF", "enable": "no build step: checks import magpylib from /repo's working tree with MAGPYLIB_VERIF=1 set",
           "baseline_off_cmd": "cd /repo && /venv/bin/python -m pytest -ra -q -p no:cacheprovider --timeout=900 --continue-on-collection-errors",
           "source_commits": [], "add_only": True},
 "engines": [{"name": "lean4-model+correspondence", "path": "lean/ + check.py + corr/ + oracles/",
              "serves_properties": sorted(TEXT), "kind_free_text": "Lean 4 model and theorems; generated layer from /repo; differential correspondence; failing-input oracles on the real code"}],
 "checks": checks,
 "notes": "see DESIGN.md; known_findings.json lists recorded and fixed findings",
 "not_applicable": na,
}
json.dump(m, open("MANIFEST.json", "w"), indent=1)
print(len(checks), "checks;", len(na), "not yet claimed")
