"""(re)write MANIFEST.json from the table below; validates against the schema"""
import json

PY = "/venv/bin/python"
TEXT = {
 "C09": ("proof: move/rotate/setters refine the documented index semantics for every start, length and anchor form; "
         "length invariant over every history; path_padding_param regenerated from source each run",
         "scipy Rotation assumed a group action; rotate_from_* conversions are scipy's (corr only); floats observed by oracle (1e-9)",
         "Lean 4 theorems (refinement to docstring spec + invariant by induction over histories) over a hand-written model; generated path_padding_param; differential correspondence on exact data"),
 "C10": ("proof: move, rotate (any anchor form incl. the parent_path recursion through nested collections, any start), position= and orientation= on a collection keep "
         "every descendant's relative pose at every retained path index, for any nesting depth; child operations are local",
         "equal-path-length hypothesis as in the property; scipy Rotation assumed a group action; float effects observed by oracle (1e-8)",
         "Lean 4 theorems over a group acting on an additive group (refinement of the recursive move/_rotate to 'same rigid motion for all members'); differential correspondence on exact data"),
 "C11": ("proof: every operation of the tree-editing API, accepted or rejected, preserves parent<->children consistency, uniqueness, the typed views as ordered partitions "
         "and acyclicity (rank argument; soundness of the fuel-bounded self-reference check by pigeonhole), hence every reachable state is a consistent forest",
         "model looks holders up through _parent (code: DFS over children) - equal under the invariant; copy() under C18",
         "Lean 4 invariant by induction over operation histories on a hand-written state-machine model; differential correspondence incl. rejected calls; invariant oracle on real objects"),
 "C03": ("proof: for every local field function, pose path and rigid motion, the frame change of getBH_level1 and the collection sum are covariant (position observers); "
         "model tied by exact correspondence; all 10 classes swept by the oracle",
         "exact real arithmetic; numpy row order assumed; float rounding by oracle 1e-7",
         "Lean 4 theorems over a group acting on an additive group + exact differential correspondence of the marshalling model"),
 "C04": ("proof: the three sensor back-rotation code paths equal R_k(m)^-1 on the sensor's own pixel slice, handedness flips its slice only, pixel positions are per-sensor, the cumulative-index split hands pixel_agg exactly each sensor's pixels for any shapes, and end to end the output element (l,m,k) is the reduction over sensor k's own readings",
         'reductions other than sum/min/max are covered generically by the theorem and sampled by the oracle (mean/median/std/ptp); almost-static orientation paths by the oracle',
         'Lean 4 theorems on the marshalling model + exact differential correspondence'),
 "C05": ('proof: the slice-sum-delete loop returns per entry the sum over its nested leaves for any mix/order/nesting; sumup is the sum over the source axis (for every pixel_agg); frame change is additive and homogeneous in the local field; kernels linear in their excitation: Dipole, segment, Cuboid, Triangle, Tetrahedron (all fields), Circle',
         'Cylinder / CylinderSegment / TriangularMesh kernel linearity by oracle (scalings 1e-6..1e6)',
         'Lean 4 theorems (loop invariant by induction over the source list; algebra over R on kernel ports) + exact level2 and IEEE-double kern correspondence'),
 "C06": ('proof: the whole marshalling pipeline equals the pointwise specification (level2_refines) with documented shape, size and row-major addressing; squeeze only drops 1-axes; batch-level control flow inside kernels proved row-wise for the whole TriangularMesh batch (flat triangle call, reshape/split sums, row-grouping loop) and both branches of the Polyline batch',
         'numpy row order assumed and exercised exactly; CylinderSegment all-on-surface early return and the cel n<10 / cel_iter n<15 switches by the element-vs-single-call oracle',
         'Lean 4 theorems on the marshalling and batch models + exact level2/trimesh correspondence + IEEE-double trimesh-batch and poly correspondence + element-wise oracle'),
 "C08": ("proof: for every fault schedule of the computation between path tiling and restore, object paths are exactly restored; the position of the restore "
         "(finally block, saved originals) is extracted from the source AST on every run so that removing it breaks the proof",
         "attributes other than the paths and caller arrays are not in the model: deep-snapshot oracle over all failure points of the property text",
         "Lean 4 theorem over a state-machine model with generated exit skeleton (Gen/Exits) + snapshot oracle with fault injection"),
 "C07": ("proof (partial): the functional interface's rank table (regenerated each run) is rank+1 for every parameter, hence single values are tiled and stacks taken per instance; getBH fails exactly on the documented input errors; output='dataframe' carries the documented (source, path, sensor, pixel) index in row-major order with the ndarray's values; method wrappers / core functions by cross-interface oracle",
         'rank of one value read from a valid instance (generator); delegation glue not modelled',
         'Lean 4 decide over the generated table + theorems on the marshalling model incl. the dataframe branch + exact correspondence (ndarray and dataframe) + cross-interface oracle at length scales 1e-9..1e4'),
 "C02": ("proof: for every magnet wrapper's field-selector dispatch (core as a parameter, all mask combinations incl. surface/edge/special cases) and for Sphere, Dipole, Triangle, Tetrahedron (every observer, either vertex handedness) and Circle in full: B = mu0 H + J and J = mu0 M; Sphere's J is the indicator of the ball; the source's mu_0 sites are regenerated each run (one known finding: setter literal)",
         'mask = geometric inside predicate proved for Sphere only; other classes by stratified oracle (boundary points, lattice points, joint mesh rows); exact real arithmetic',
         'Lean 4 theorems (algebra over R with arbitrary mu0) on kernel/wrapper models + generated constant-site table + kern and trimesh correspondence + residual oracle'),
 "C12": ('proof (partial): exact homogeneity in a common length factor, including the scale-freeness of every internal branch decision, for Dipole (-3), Sphere, straight segment (-1), Cuboid (factors, octant reflection, masks), Triangle (edge integral with its relative branch test, solid angle), Tetrahedron (chirality, inside test, all fields), Circle (-1, all special-case masks; cel opaque); other classes by rescaling oracle over 1e-9..1e9 and 2^+-33 with every mesh constructor',
         'exact real arithmetic; Cylinder/CylinderSegment/TriangularMesh-inside-test kernels not ported',
         'Lean 4 theorems over R on kernel ports tied by IEEE-double correspondence and pinned source literals + rescaling oracle'),
 "C01": ('proof (partial): Dipole kernel = point-dipole formula = -grad of the scalar potential; the straight-segment kernel (normalisation, foot point, all three branches of its sin-theta case split) equals the Biot-Savart line integral for every observer off the carrier line (FTC + affine substitution); Circle on its axis = the loop integral; Sphere solution (with C13/C14); wrappers add exactly the interior term (C02); frame change (C03). Cuboid / Triangle family / Cylinder / CylinderSegment / Circle off axis vs their defining integrals: not shown by theorem, checked by numerical quadrature for all 10 classes',
         'Mathlib lacks elliptic-integral theory and surface integrals over triangles/cylinder shells; exact real arithmetic',
         'Lean 4 theorems (interval integrals via FTC, HasDerivAt, algebra) on kernel ports tied by IEEE-double correspondence (kern, poly streams) and pinned source literals (Gen.Tol) + first-principles quadrature oracle'),
 "C13": ('proof (partial): Sphere outside = Dipole with moment J*V/mu0; a straight segment may be split at any collinear point and reversing it negates the field (from the Biot-Savart representation); Tetrahedron = its four outward sheets plus the inside term, with the same inside set before and after the chirality fix; mesh H = sum of sheets; other representation identities by whole-vs-parts oracle',
         'identities between different closed forms are equivalent to C01 for both sides',
         'Lean 4 theorems over R + kern correspondence + whole-vs-parts differential oracle on the real code'),
 "C14": ('proof (partial): local forms — div B = 0 and curl H = 0 for the Dipole kernel and wrapper off its position and for the Sphere inside and outside; Sphere interface conditions and B - mu0 H = J inside; flux/circulation for general surfaces and loops and for the other classes by quadrature oracle',
         'needs Gauss/Stokes for general surfaces (not in Mathlib) and C01 per class',
         'Lean 4 theorems (HasDerivAt) over R + flux/circulation quadrature oracle on the real code'),
 "C17": ("proof (partial): for every validator and setter of input_checks.py that is modelled (scalar, vector, vector2, vertices, cylinder segment, position, pixel, handedness): accepted <=> documented format (written separately), every rejection is the library's input error, stored = float copy, rejected assignments keep the state; per-attribute table, inner calls, segment conditions and statement skeletons regenerated from source each run; exceptions stated with witnesses (vector2 ValueError, coerced None/str entries: known findings)",
         'np.array(dtype=float) modelled as rectangular nesting of numeric leaves; orientation / field_func / style arguments oracle-only',
         'Lean 4 theorems by structural induction over a value grammar + decide over generated tables/skeletons + exact valid correspondence + grammar x attribute oracle'),
 "C20": ("proof (partial): leafwise resolution 'show kwarg, else object, else families, else base' for any number of families; magic_to_dict terminates, is a trie, round-trips with linearize_dict; the three notations are equivalent (one non-dict value); update_nested_dict characterised leaf by leaf for all flag combinations incl. sharing; nested resolution = flat resolution; one witness of a recorded finding (dict-valued properties); validators, independence across plots, reset by the style oracle",
         'validators of the concrete style classes and CPython attribute dispatch not modelled',
         'Lean 4 theorems over ordered nested dictionaries + decide over the generated DEFAULTS tree + exact style correspondence + leaf x source x notation oracle'),
 "C18": ('proof (partial): at tree level copy() preserves the forest invariant and acyclicity, the copy is a parentless isomorphic image of the subtree sharing no node with the original, the original is not written to; full specification of the label iteration; equality, same field, heap disjointness and mutate-and-diff by the interpreter-level copy oracle',
         'CPython heap (deepcopy, class-level mutables, numpy views) is outside the list model',
         'Lean 4 theorems on a tree-level copy model tied by the forest (copy op) and label correspondence + reachable-graph / np.shares_memory / mutate-and-diff oracle'),
 "C15": ("proof (partial): in exact arithmetic every divisor of the Dipole, Sphere, straight-segment and Circle closed forms is non-zero off the documented singular set and the Circle wrapper's masks cover that set; the Bulirsch iterations cel_iter0 / cel_iterv / cel_iter / cel0 terminate (AGM argument, explicit fuel bound; the hypothesis kc != 0 is sharp); float range, NaN and float loop termination are decided by the watchdogged special-set oracle; recorded findings listed by input class",
         "IEEE semantics are outside the real-number model; Lean's Float is opaque beyond + - * /",
         'Lean 4 theorems over R on kernel ports (incl. the iteration as a fuel recursion) tied by IEEE-double correspondence + watchdogged special-point oracle on the real code'),
 "C16": ("proof (partial): open edges = edges not in exactly two faces; connected-subset detection computes exactly the vertex-connected components (fuel proved sufficient); the orientation sweep leaves no edge traversed twice in the same direction on any orientable mesh, for every face order / initial flips / seed verdict (orientability shown necessary); all verdicts invariant under face permutation, rewinding, renumbering; self-intersection, inside test and 'consistent => outward' by the mesh oracle",
         'float geometry (ray tests) is outside the combinatorial model',
         'Lean 4 theorems over face-index lists + exact correspondence of get_open_edges / get_disconnected_faces_subsets / get_inwards_mask + mesh oracle'),
 "C19": ('proof (partial): placement maps a model vertex v to (R v scale + p) f, is inverted by the inverse pose and preserves extents; unit table factors; frame selection (valid, sorted, de-duplicated, clipped indices; two natural claims shown false with witnesses); Cuboid / Tetrahedron / Prism / Pyramid index structure (corners, closedness, outward faces); sin/cos vertex coordinates, trace merging, backends and non-alteration by the display oracle',
         'only the plotly backend is mapped back; backends are outside the model',
         'Lean 4 theorems over a group action on a module + decide over generated tables + exact disp correspondence + figure-trace oracle'),
}

# additions of the third session (appended to the level text / the technique of the property)
EXTRA = {
 "C03": (' Third session (b): covariance of the whole pipeline function (`tensor`) end to end; the same on the driver carrier (24 integer rotation matrices, a genuine group: OpHom naturality).', ""),
 "C04": (' Third session: restated for the driver carrier; bare position arrays as observers (C07 observers_as_positions).', ""),
 "C08": (' Third session: each of the three regenerated flags shown necessary by its own witness; sufficiency for every re-normalisation of the tiled orientation path.', ""),
 "C10": (' Third session: restated for the driver carrier.', ""),
 "C11": (' Third session: the stored typed views are the ordered typed filters of children and pairwise disjoint.', ""),
 "C01": (" Third session: the port of magnet_cuboid_Bfield = the Coulombian six-face surface-charge integral (+ J inside) for every observer off the six face planes, all octants (iterated FTC); the regenerated concolic traces of the real Dipole / Sphere / Cuboid kernels are proved equal to the model at the real carrier; Circle off its axis: the kernel value = the Biot-Savart loop integral (times kappa = literal*4pi*1e-7, |kappa-1| < 1e-16) plus prefactor*(cel iteration value - cel integral), an exact identity with the truncation error of Bulirsch's iteration explicit (its convergence to the integral is the one named, unproved hypothesis CelComputesIntegral).",
         " + kernels regenerated by concolic tracing of the numpy source (Gen/KernTrace) with trace = model theorems + symbolic correspondence (formulas compared as rational functions over F_p)"),
 "C02": (" Third session: the whole ported CylinderSegment wrapper (cylseg_consistent); trace = model theorems for the Sphere and Dipole wrappers.",
         " + regenerated kernel traces and CylinderSegment translation (sync theorems) + symbolic correspondence"),
 "C05": (" Third session: Cylinder in full; CylinderSegment linear in the full magnetization vector (129 + 26 generated per-function theorems).",
         " + symbolic correspondence + CylinderSegment kern rows"),
 "C06": (" Third session: determine_cases always returns one of the 26 handled or the 4 unhandled ids, the dispatch falls through exactly on the latter.",
         " + iface stream + CylinderSegment kern rows"),
 "C07": (" Third session: the input-formatting glue and the method wrappers are modelled: src.getX / sens.getX / coll.getX (three branches) equal the top-level call with flags passed unchanged; bare position arrays = a Sensor at the origin; format_src_inputs flattens in order at any depth and keeps duplicates; the functional interface is fully modelled and driver-run: row i = level1 of the i-th parameter set at the i-th pose.",
         " + exact iface and dict correspondence (random worlds x entry points x argument nestings x malformed calls; all registered classes with a recording field function)"),
 "C09": (" Third session: rotate_from_angax = rotate of the rotation vectors (angle in radians) * axis/|axis|, bad axes refused, scalar/vector form preserved.",
         " + angax ops in the path stream"),
 "C12": (" Third session: Cylinder and the TriangularMesh inside test are ported and proved scale invariant; self-intersection check covariant when eps scales along (not invariant: witness).",
         " + regenerated kernel traces + symbolic correspondence"),
 "C13": (" Third session: full 360 degree CylinderSegment = Cylinder(r2) - Cylinder(r1) (structural), arctan_k_tan_2 periodic continuation.",
         " + symbolic correspondence + CylinderSegment kern rows"),
 "C14": (" Third session: div H = 0 for the straight segment at every placement off the carrier line; Cuboid closed form and wrapper row: div B = 0 and curl H = 0 off the face planes with the explicit Jacobian; INTEGRAL laws for axis-aligned boxes and rectangles (1-D FTC + Fubini): Dipole (box not containing it), Cuboid (boxes within one of the 27 cells incl. inside the magnet, wrapper rows clear of the shells, boxes straddling an uncharged face), Sphere (inside / outside); boxes cutting a charged face: conditional on continuity of B_n.", ""),
 "C15": (" Third session: Cuboid: off the edges all six log products are positive after the reflection and no arctan2 gets (0,0) off the edge lines; Triangle sheet: every divisor / log argument defined off the closed edges and off the cap r = l (the cap is a recorded finding); Polyline masks cover the singular rows; Cylinder iteration and masks; after the repairs in /repo: Triangle defined off the closed edges without further hypothesis, CylinderSegment wrapper returns a row for every observer (no unhandled case id is dispatched).",
         " + regenerated kernel traces + symbolic correspondence"),
 "C16": (" Third session: segments_intersect_facets / get_intersecting_triangles ported with float32 rounding as a parameter: soundness, completeness for proper crossings, face-order and translation invariance, after the repair in /repo: reported <=> both end points farther than eps from the plane and the segment meets the closed facet; unit invariant with eps a fraction of the mesh size; r_factor = 2 suffices; one remaining finding.",
         " + exact selfint correspondence (float32 bit-exact)"),
 "C19": (" Third session: vertex coordinates of Prism, Pyramid, CylinderSegment, Ellipsoid and the Circle / Polyline traces (np.linspace modelled) lie on the respective surfaces and reach their extremes; the placement function is driver-run and tied to place_and_orient_model3d.",
         " + trig generator rows in the disp stream (IEEE double, 1e-12)"),
 "C20": (" Third session: style_temp_edit restores the object's own style however the drawing ends (regenerated try/finally skeleton).",
         " + generated skeleton of style_temp_edit (Gen/StyleTemp)"),
}
# additions of the fourth part of the third session (appended after EXTRA)
EXTRA2 = {
 "C01": (" Fourth part: far-field rows judged on their own scale against the quadrature of the defining integral (60 ... 700 source sizes).", ""),
 "C02": (" Fourth part: polarization / magnetization state machine over the regenerated setter skeletons (excitation_sync for every assignment history; with the exported mu_0 iff the two constants agree, which they do not: the recorded finding as a theorem); the in_out keyword modelled for every magnet wrapper (B = mu H + J for every value); J / M in the observer frame end to end.",
         " + generated setter skeletons and constants (Gen/ExcSync, Gen/InOut) + exc, l1*, batchio, level2-jm streams"),
 "C03": (" Fourth part: covariance of the FINAL output after sumup / pixel_agg with any reduction / squeeze / dataframe, with a witness that aggregate-then-rotate is not covariant.", " + level2f stream (median / std / ptp / mean on rotated and left-handed sensors)"),
 "C04": (" Fourth part: pixel_agg with any reduction = reduction of the sensor-frame values of the sensor's own pixels, end to end; short paths are edge-padded (witness against cyclic tiling). Fourth session: the handedness branch of getBH_level2 regenerated each run (Gen/Handed) and shown to be the x-flip V3.flipX the drivers evaluate, an involutive reflection, applied after the back-rotation, for the literal left only (left_handed_flips_x).", " + level2f stream + generated handedness branch (Gen/Handed)"),
 "C05": (" Fourth part: sumup = sum over the source axis for any reduction (what it is not: witness sum_of_max_ne_max_of_sum); TriangularMesh linear in the polarization.", ""),
 "C06": (" Fourth part: the vectorised elliptic-integral loop celv is row-wise, re-indexable and permutation-covariant; the n < 10 / n >= 10 dispatch agrees off the band 0 < |1-|kc|| <= 1e-6 (in-band difference as a theorem).", " + celbatch / el3batch rows"),
 "C07": (" Fourth part: nested observer collections (pre-order sensor axis) in the oracle and the iface stream.", ""),
 "C08": (" Fourth part: write-set / alias analysis of every function on the field-computation call path as a translator (264 functions, 417 mutation sites): every write goes to a fresh, a restored-temporary or a lazily created cell, and a heap theorem turns that into 'every pre-existing cell is unchanged at any exit'.",
         " + generated write-set table (Gen/WriteSet) with a translator self-test against seven seeded variants on every run + freeze oracle (every pre-existing array read-only)"),
 "C09": (" Fourth part: the six rotate_from_* entry points with scipy's conversion as a parameter reduce to rotate with the same start semantics; equal path lengths over the full operation set incl. add / remove.", " + rotfrom / add / remove ops in the path stream"),
 "C10": (" Fourth part: any admissible history addressed to a collection refines the abstract spec (frame path + re-indexed relative paths); reset_path spelled out; the collection's own sensor reads the same after a rotation.", ""),
 "C11": (" Fourth part: the *_all views are pre-order type filters in every reachable state; a rejected children / typed-setter assignment changes nothing (true since repo fix 9176cc9).", ""),
 "C12": (" Fourth part: the pose machinery and the marshalling pipeline are homogeneous in lengths for every history (history_homogeneous, arrangement_unit_invariant); no absolute-length construct in the pose code (regenerated scan).",
         " + generated absolute-length scan (Gen/AbsLen) + path-scale stream (every history again at 2^k, bit for bit)"),
 "C13": (" Fourth part: np.unique / from_mesh / from_triangles / to_TriangleCollection modelled and field-preserving; meshes and tetrahedra glued along shared walls add; Triangle split along an edge additive up to the named solid-angle hypothesis.", " + mesh-unique stream"),
 "C14": (" Fourth part: far boxes and loops (60 ... 190 source sizes) in the oracle.", ""),
 "C15": (" Fourth part: celv terminates with the maximum of the entries' bounds and never returns when one modulus is 0 (the recorded Cylinder hang as a theorem).", ""),
 "C16": (" Fourth part: the field is invariant under any permutation of faces, cyclic relabelling of a face, vertex renumbering and input flips (given a geometric seed verdict); the repaired seed rule keeps the own facet out of the touch band (seed_checkpoint_clears_own_plane; witness for the old rule).", " + meshperm stream + needle rows in the inwards stream"),
 "C17": (" Fourth part: every public setter regenerated and shown to reject without change (validate-then-assign or assign-under-restore); constructor arguments reach their setters; pixel_agg, field_func, mesh modes, in_out, flags and style arguments modelled; missing dimension / excitation refused before any field function.",
         " + generated setter trees and numpy name table (Gen/Setters, Gen/NpNames) + callargs stream"),
 "C18": (" Fourth part: attributed forest with a heap of containers: copies equal in every attribute, share no container, and no later history on one side is visible on the other.", " + forestattr stream (container identities)"),
 "C19": (" Fourth part: CylinderSegment graphic closed and consistently wound for every arc count (after repo fix 64dd71f); group_traces partitions its input by an injective key (after repo fix 4b91a64); every SI prefix displayed.", " + wind and group rows in the disp stream"),
 "C20": (" Fourth part: style / defaults state machine over the regenerated schema: reset restores every default after any history, names outside the schema and method names rejected at any depth, rejected updates change nothing, objects independent, reachable states well formed.",
         " + generated style schema (Gen/StyleSchema, 37 classes, probed validators) + sstate stream"),
}
props = [json.loads(l) for l in open("properties.jsonl")]
checks = []
na = []
for p in props:
    i = p["id"]
    if i in TEXT:
        t = TEXT[i]
        ex = EXTRA.get(i, ("", ""))
        ex2 = EXTRA2.get(i, ("", ""))
        t = (t[0] + ex[0] + ex2[0], t[1], t[2] + ex[1] + ex2[1])
        checks.append({
            "property_id": i,
            "quick_cmd": f"{PY} check.py {i} --tier quick",
            "thorough_cmd": f"{PY} check.py {i} --tier thorough",
            "evidence_file": f"evidence/{i}.json",
            "replay_cmd_template": f"{PY} check.py {i} --replay {{path}}",
            "engine": "lean4-model+correspondence",
            "level_claimed": {"category": "proof", "text": t[0], "design_ref": f"DESIGN.md §6 {i}"},
            "level_note": t[1],
            "technique": t[2],
        })
    else:
        na.append({"property_id": i, "reason": "check not built yet (build in progress, DESIGN.md §9 build order)"})
m = {
 "version": 1,
 "setup_cmd": f"{PY} translate/gen.py && cd lean && lake build MagpyVerif driver MagpyVerif.Gen.CylSegGen MagpyVerif.Lemmas.KernTraceEq MagpyVerif.Props.C20b MagpyVerif.Props.C20c MagpyVerif.Props.C20d MagpyVerif.Props.C20g MagpyVerif.Props.C20f MagpyVerif.Props.C20e MagpyVerif.Props.C20h MagpyVerif.Props.C12b MagpyVerif.Props.C17b " + " ".join(f"MagpyVerif.Props.{i}" for i in sorted(TEXT)),
 "hooks": {"guard": "MAGPYLIB_VERIF", "enable": "no build step: checks import magpylib from /repo's working tree with MAGPYLIB_VERIF=1 set",
           "baseline_off_cmd": "cd /repo && /venv/bin/python -m pytest -ra -q -p no:cacheprovider --timeout=900 --continue-on-collection-errors",
           "source_commits": [], "add_only": True},
 "engines": [{"name": "lean4-model+correspondence", "path": "lean/ + check.py + corr/ + oracles/",
              "serves_properties": sorted(TEXT), "kind_free_text": "Lean 4 model and theorems; generated layer from /repo; differential correspondence; failing-input oracles on the real code"}],
 "checks": checks,
 "notes": "see DESIGN.md; known_findings.json lists recorded and fixed findings",
 "not_applicable": na,
}
json.dump(m, open("MANIFEST.json", "w"), indent=1)
print(len(checks), "checks;", len(na), "not yet claimed")
