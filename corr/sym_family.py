"""correspondence stream `sym`: SYMBOLIC rows.

For every generated row the real numpy kernel is executed on object arrays of symbolic values (translate/ktrace.py:
expression tree + shadow double; comparisons are decided by the shadow and make up the path condition) and the Lean
model is executed on the same row over its symbolic carrier (Model/SymCarrier.lean, driver family `sym`).  Both
return the formula they evaluate on the branch the row selects.  The two formulas are then compared as rational
functions of their atoms (variables, pi, mu0, and every sqrt/abs/log/sin/cos/atan2 application, identified by the value
of its arguments): both are evaluated at random points of the prime field F_p, p = 2^61 - 1, several times
(Schwartz-Zippel: different rational functions agree at a random point with probability < degree/p).

What this adds to the IEEE-double `kern` stream: agreement is decided for the whole branch (all inputs that take the
same path) and exactly, not for one input up to a tolerance; a change of the real arithmetic that moves values by 1e-13
is found.  What it does not see: rounding, operation order (a + b vs b + a), the special functions themselves.
"""
import hashlib
import sys

import numpy as np

from corr.kern_family import bits, stratified_point
from vlib.driver import run_driver

P = (1 << 61) - 1


def _h(*key):
    return int.from_bytes(hashlib.blake2b(repr(key).encode(), digest_size=8).digest(), "big") % P


class ZeroDiv(Exception):
    pass


def inv(a):
    if a % P == 0:
        raise ZeroDiv()
    return pow(a, P - 2, P)


class Evaluator:
    """value of an expression DAG in F_p; atoms get pseudo-random values keyed by (kind, argument values, salt)"""

    def __init__(self, salt, varvals, lit):
        self.salt, self.var, self.lit = salt, varvals, lit
        self.memo = {}

    def ev(self, e):
        k = id(e)
        r = self.memo.get(k)
        if r is None:
            r = self._ev(e)
            self.memo[k] = r
        return r

    def const(self, e):
        """double value of a subtree built from integer / float literals only (no variable, no pi, no mu0), else None"""
        k = ("c", id(e))
        if k in self.memo:
            return self.memo[k]
        t = e[0]
        r = None
        if t in ("int", "nat", "flt"):
            r = float(e[1])
        elif t in ("add", "sub", "mul", "div", "atan2"):
            a, b = self.const(e[1]), self.const(e[2])
            if a is not None and b is not None:
                with np.errstate(all="ignore"):
                    a, b = np.float64(a), np.float64(b)
                    r = float({"add": a + b, "sub": a - b, "mul": a * b, "div": a / b if t != "div" or True else 0,
                               "atan2": np.arctan2(a, b)}[t])
        elif t in ("neg", "sqrt", "abs", "log", "sin", "cos"):
            a = self.const(e[1])
            if a is not None:
                with np.errstate(all="ignore"):
                    a = np.float64(a)
                    r = float({"neg": -a, "sqrt": np.sqrt(a), "abs": abs(a), "log": np.log(a), "sin": np.sin(a), "cos": np.cos(a)}[t])
        elif t == "pow":
            a = self.const(e[1])
            if a is not None:
                r = float(np.float64(a) ** e[2])
        if r is not None and r != r:
            r = None
        self.memo[k] = r
        return r

    def _ev(self, e):
        t = e[0]
        if t == "var":
            return self.var[e[1]]
        if t in ("int", "nat"):
            return e[1] % P
        if t == "pi":
            return _h("pi", self.salt)
        if t == "mu0":
            return _h("mu0", self.salt)
        if t == "flt":
            kind, pn, q = self.lit(e[1])
            v = {"rat": 1, "pi": _h("pi", self.salt), "mu0": _h("mu0", self.salt)}[kind] * pn % P * inv(q) % P
            return v if e[1] >= 0 else (-v) % P
        if t == "add":
            return (self.ev(e[1]) + self.ev(e[2])) % P
        if t == "sub":
            return (self.ev(e[1]) - self.ev(e[2])) % P
        if t == "mul":
            return self.ev(e[1]) * self.ev(e[2]) % P
        if t == "div":
            return self.ev(e[1]) * inv(self.ev(e[2])) % P
        if t == "neg":
            return (-self.ev(e[1])) % P
        if t == "pow":
            return pow(self.ev(e[1]), e[2], P)
        if t in ("sqrt", "abs", "log", "sin", "cos", "atan2"):
            c = self.const(e)
            if c is not None:  # a function of numeric constants only: folded in double arithmetic, as the interpreter does
                return self._ev(("flt", c))
            if t == "atan2":
                return _h(t, self.ev(e[1]), self.ev(e[2]), self.salt)
            return _h(t, self.ev(e[1]), self.salt)
        raise ValueError(f"node {t}")


ARITY = {"var": None, "nat": None, "pi": 0, "mu0": 0, "add": 2, "sub": 2, "mul": 2, "div": 2, "neg": 1, "sqrt": 1, "abs": 1,
         "log": 1, "sin": 1, "cos": 1, "atan2": 2}


def parse_prefix(toks, cons):
    """prefix tokens -> hash-consed nested tuples (shared subtrees become one object, so evaluation is linear)"""
    pos = 0
    stack = []  # iterative to survive deep trees
    out = None

    def mk(node):
        return cons.setdefault(node, node)

    # explicit stack machine: each frame = [op, needed, args]
    frames = []
    while True:
        if frames and len(frames[-1][2]) == frames[-1][1]:
            op, _, args = frames.pop()
            node = mk((op, *args))
            if not frames:
                return node, pos
            frames[-1][2].append(node)
            continue
        t = toks[pos]
        pos += 1
        if t in ("var", "nat"):
            node = mk((t, int(toks[pos])))
            pos += 1
            if not frames:
                return node, pos
            frames[-1][2].append(node)
        else:
            frames.append([t, ARITY[t], []])


def rename(e, mapping, cons, memo):
    """python trace tree with named variables -> same tree with ('var', index)"""
    k = id(e)
    if k in memo:
        return memo[k]
    if e[0] == "var":
        r = ("var", mapping[e[1]])
    elif e[0] in ("int", "flt"):
        r = e
    elif e[0] == "pow":
        r = ("pow", rename(e[1], mapping, cons, memo), e[2])
    else:
        r = (e[0],) + tuple(rename(c, mapping, cons, memo) for c in e[1:])
    r = cons.setdefault(r, r)
    memo[k] = r
    return r


def compare(py_outs, model_outs, nvars, lit, trials=3):
    """None if the two lists of formulas agree as rational functions of their atoms, else a description"""
    if len(py_outs) != len(model_outs):
        return f"arity {len(py_outs)} vs {len(model_outs)}"
    done = 0
    attempt = 0
    while done < trials and attempt < 20:
        attempt += 1
        varvals = {i: _h("var", i, attempt) for i in range(nvars)}
        try:
            e1 = Evaluator(attempt, varvals, lit)
            e2 = Evaluator(attempt, varvals, lit)
            a = [e1.ev(o) for o in py_outs]
            b = [e2.ev(o) for o in model_outs]
        except ZeroDiv:
            continue
        for j, (x, y) in enumerate(zip(a, b)):
            if x != y:
                return f"component {j} differs"
        done += 1
    if done < trials:
        return "division by zero in F_p at every attempted point (a divisor vanishes identically on this branch)"
    return None


def run_stream(ctx, n, only=None):
    sys.path.insert(0, __file__.rsplit("/corr/", 1)[0] + "/translate")
    import ktrace
    import magpylib
    from magpylib._src.fields import field_BH_cuboid as cub
    from magpylib._src.fields import field_BH_dipole as dip
    from magpylib._src.fields import field_BH_polyline as pol
    from magpylib._src.fields import field_BH_sphere as sph
    from magpylib._src.fields import field_BH_triangle as tri
    from magpylib._src.fields import field_BH_circle as cir
    from magpylib._src.fields import field_BH_cylinder as cyl
    from magpylib._src.fields import special_cel as scel
    from magpylib._src import utility as util
    from corr.kern_family import cylinder_case

    lits = ktrace.source_literals([cub, dip, pol, sph, tri, cir, cyl, scel, util])
    lit = lambda v: ktrace.literal(v, lits, magpylib.mu_0)  # noqa: E731
    rng = ctx.rng
    kinds = only or ["dipole", "sphere", "segment", "cuboid", "triangle", "circle", "cylinder"]
    jobs = []  # (line, python outputs (renamed), nvars, meta)
    stats = {"rows": 0, "per_kind": {}, "disagreements": 0, "refusals": 0, "branches": {}, "max_dag_nodes": 0}
    cons = {}
    for i in range(n):
        nps = np.random.default_rng(rng.randrange(2**31))
        kind = kinds[i % len(kinds)]
        sc = 10.0 ** nps.uniform(-2, 2)
        f = rng.choice("BHJM")
        V = lambda names, vals: ktrace.symarr([list(names)], [list(vals)])  # noqa: E731
        try:
            if kind == "dipole":
                m, x = nps.uniform(-1, 1, 3) * sc**3, nps.uniform(-2, 2, 3) * sc
                order = ["mx", "my", "mz", "x", "y", "z"]
                vals = [*m, *x]
                thunk = lambda: dip.BHJM_dipole(f, V("xyz", x), V(["mx", "my", "mz"], m))  # noqa: E731
                mods = [dip]
                line = f"sym dipole {f} " + " ".join(bits(v) for v in vals)
            elif kind == "sphere":
                d, p = nps.uniform(0.5, 2) * sc, nps.uniform(-1, 1, 3)
                x = stratified_point(rng, nps, d / 2)
                order = ["d", "px", "py", "pz", "x", "y", "z"]
                vals = [d, *p, *x]
                thunk = lambda: sph.BHJM_magnet_sphere(f, V("xyz", x), ktrace.symarr(["d"], [d]), V(["px", "py", "pz"], p))  # noqa: E731
                mods = [sph]
                line = f"sym sphere {f} " + " ".join(bits(v) for v in vals)
            elif kind == "segment":
                p1, p2 = nps.uniform(-1, 1, 3) * sc, nps.uniform(-1, 1, 3) * sc
                t = nps.uniform(-2, 3)
                po = p1 + t * (p2 - p1) + nps.uniform(-1, 1, 3) * sc * 10 ** nps.uniform(-3, 1)
                cur = nps.uniform(-3, 3)
                order = ["i0", "ax", "ay", "az", "ex", "ey", "ez", "x", "y", "z"]
                vals = [cur, *p1, *p2, *po]
                thunk = lambda: pol.current_polyline_Hfield(V("xyz", po), V(["ax", "ay", "az"], p1), V(["ex", "ey", "ez"], p2),  # noqa: E731
                                                            ktrace.symarr(["i0"], [cur]))
                mods = [pol]
                line = "sym segment " + " ".join(bits(v) for v in vals)
                f = "H"
            elif kind == "cuboid":
                dim, p = nps.uniform(0.5, 2, 3) * sc, nps.uniform(-1, 1, 3) * rng.choice([1, 1, 1, 0])
                if rng.random() < 0.2:
                    p[rng.randrange(3)] = 0.0
                x = stratified_point(rng, nps, dim / 2)
                order = ["a", "b", "c", "px", "py", "pz", "x", "y", "z"]
                vals = [*dim, *p, *x]
                thunk = lambda: cub.BHJM_magnet_cuboid(f, V("xyz", x), V("abc", dim), V(["px", "py", "pz"], p))  # noqa: E731
                mods = [cub]
                line = f"sym cuboid {f} " + " ".join(bits(v) for v in vals)
            elif kind == "circle":
                d = nps.uniform(0.5, 2) * sc * rng.choice([1, 1, 1, -1])
                cur = nps.uniform(-3, 3)
                r0 = abs(d) / 2
                k = rng.random()
                if k < 0.15:  # on the axis (exactly)
                    x = np.array([0.0, 0.0, nps.uniform(-3, 3) * r0])
                elif k < 0.25:  # in the plane of the loop
                    x = np.array([*(nps.uniform(-3, 3, 2) * r0), 0.0])
                else:
                    x = nps.uniform(-1, 1, 3) * r0 * 10 ** nps.uniform(-1, 1)
                order = ["d", "i0", "x", "y", "z"]
                vals = [d, cur, *x]
                thunk = lambda: cir.BHJM_circle(f, V("xyz", x), ktrace.symarr(["d"], [d]), ktrace.symarr(["i0"], [cur]))  # noqa: E731
                mods = [cir, scel, util]
                line = f"sym circle {f} " + " ".join(bits(v) for v in vals)
            elif kind == "cylinder":
                # axial polarization only: the diametral part calls scipy's ellipk / ellipe, which the model writes through
                # cel0 (a modelling assumption the IEEE `kern` stream validates); the axial part uses the repo's own cel
                d, h, x, stratum = cylinder_case(rng, nps, sc)
                p = np.array([0.0, 0.0, nps.uniform(-1, 1) * rng.choice([1, 1, 1, 0])])
                order = ["d", "h", "px", "py", "pz", "x", "y", "z"]
                vals = [d, h, *p, *x]
                thunk = lambda: cyl.BHJM_magnet_cylinder(f, V("xyz", x), V(["d", "h"], [d, h]), V(["px", "py", "pz"], p))  # noqa: E731
                mods = [cyl, scel, util]
                line = f"sym cylinder {f} " + " ".join(bits(v) for v in vals)
            else:  # triangle
                v = nps.uniform(-1, 1, (3, 3)) * sc
                p = nps.uniform(-1, 1, 3)
                k = rng.random()
                if k < 0.45:  # generic observer
                    x = v.mean(axis=0) + nps.uniform(-1, 1, 3) * sc * 10 ** nps.uniform(-1.5, 1.5)
                elif k < 0.75:  # the sub-branches of the repaired edge integral: beyond the end / behind the start / alongside an edge, close to its line
                    e = rng.randrange(3)
                    d = 10 ** nps.uniform(-9, 0)
                    t = rng.choice([1 + d, -d, d, 1 - d, nps.uniform(0.05, 0.95), nps.uniform(1.2, 3), nps.uniform(-2, -0.2)])
                    x = v[e] + t * (v[(e + 1) % 3] - v[e]) + nps.uniform(-1, 1, 3) * sc * 10 ** nps.uniform(-12, -1.5)
                elif k < 0.9:  # axis-aligned, observer exactly on an edge line: on-edge branch, either extension, a vertex
                    a, b = (float(q) for q in nps.integers(1, 6, 2))
                    v = np.array([[0, 0, 0], [a, 0, 0], [0, b, 0]]) * sc
                    t = float(rng.choice([0.25, 0.5, 0.75, 1.5, 3.0, -0.5, -2.0, 0.0, 1.0]))
                    x = v[0] + t * (v[rng.choice([1, 2])] - v[0])
                else:  # zero-area mask
                    v = np.array([[0, 0, 0], [1, 2, -1], [2, 4, -2]]) * sc if rng.random() < 0.7 else np.array([[1, 2, 3], [1, 2, 3], [0, 1, 0]]) * sc
                    x = nps.uniform(-1, 1, 3) * sc
                names = [[f"v{a}{c}" for c in "xyz"] for a in range(3)]
                order = sum(names, []) + ["px", "py", "pz", "x", "y", "z"]
                vals = [*v.ravel(), *p, *x]
                thunk = lambda: tri.BHJM_triangle(f, V("xyz", x), ktrace.symarr([names], [v]), V(["px", "py", "pz"], p))  # noqa: E731
                mods = [tri]
                line = f"sym triangle {f} " + " ".join(bits(v) for v in vals)
            outs, conds = ktrace.trace(thunk, mods)
        except ktrace.TraceRefusal as r:
            stats["refusals"] += 1
            if stats["refusals"] <= 3:
                ctx.broken.append({"kind": "correspondence", "name": f"sym:{kind}:tracer-refusal", "detail": str(r)})
            continue
        mapping = {nm: j for j, nm in enumerate(order)}
        memo = {}
        py = [rename(o.e, mapping, cons, memo) for o in outs]
        branch = "".join("1" if c[3] else "0" for c in conds)
        jobs.append((line, py, len(order), {"kind": kind, "field": f, "branch": branch, "line": line, "shadow": [o.v for o in outs]}))
    out = run_driver([j[0] for j in jobs])
    samples = []
    for (line, py, nvars, meta), o in zip(jobs, out):
        stats["rows"] += 1
        stats["per_kind"][meta["kind"]] = stats["per_kind"].get(meta["kind"], 0) + 1
        key = f"{meta['kind']}:{meta['field']}:{meta['branch']}"
        stats["branches"][key] = stats["branches"].get(key, 0) + 1
        why = None
        try:
            head, *parts = o.split(" | ")
            model = []
            for part in parts:
                node, _ = parse_prefix(part.split(), cons)
                model.append(node)
            if int(head) != len(model):
                why = "malformed driver answer"
        except Exception as ex:  # noqa: BLE001
            why = f"driver answer not parsed: {o[:80]} ({type(ex).__name__})"
        if why is None:
            why = compare(py, model, nvars, lit)
        stats["max_dag_nodes"] = max(stats["max_dag_nodes"], len(cons))
        if why:
            stats["disagreements"] += 1
            if stats["disagreements"] <= 3:
                ctx.broken.append({"kind": "correspondence", "name": "sym:" + meta["kind"], "detail": {"meta": meta, "why": why}})
        elif len(samples) < 3:
            samples.append({k: meta[k] for k in ("kind", "field", "branch", "shadow")})
    stats["distinct_branches"] = len(stats["branches"])
    stats["samples"] = samples
    return stats
