"""correspondence stream `valid` (C17): the real validators of magpylib/_src/input_checks.py and the real attribute
setters / constructors against Model/Validators.lean, on values drawn from the PyVal grammar.

A value is a tagged tuple  ("N",) | ("T",) | ("F",) | ("I", n) | ("FL", n) | ("NAN",) | ("BT",) | ("BF",) | ("C",) | ("O",)
| ("S", text) | ("L", [values]) | ("A", shape, data).  `enc` writes it as driver tokens, `to_py` builds the Python object
(choosing list/tuple, Python/numpy scalar type within int ("I") or float ("FL", "NAN"), the ndarray dtype at random: the
model treats these alike, so the stream also checks that the code does).  Only integer-valued numbers occur, so ok/error kind, stored shape and stored data are
compared exactly ("nan" as a symbol)."""
import math
import warnings

import numpy as np

from vlib.driver import run_driver

# strings of the grammar: plain integer literals (float() parses them to that integer) or not float-parsable at all
STRINGS = ["abc", "", "right", "left", "up", "x", "12", "-3", "+4", "0", "007", "-", "+", "3a", "Right", "rightleft"]
INTS = [0, 1, 2, 3, -1, -2, 5, 4, 90, 360, 361, -360, 30, 400, 7, -90]


# ---------------------------------------------------------------- encoding / realisation
INT_TYPES = [int, np.int64, np.int32, np.int16, np.int8, np.uint8, np.uint64]
FLOAT_TYPES = [float, np.float64, np.float32, np.float16, np.longdouble]


def enc(t):
    k = t[0]
    if k == "OBJ":            # the same value handed over as an ndarray of dtype object: the model sees the nesting
        return enc(t[1])
    if k in ("N", "T", "F", "BT", "BF", "C", "O", "NAN"):
        return k
    if k in ("I", "FL"):
        return f"{k} {t[1]}"
    if k == "R":
        return f"R {t[1]} {t[2]}"
    if k == "S":
        return "S:" + t[1]
    if k == "L":
        return " ".join([f"L {len(t[1])}"] + [enc(x) for x in t[1]])
    if k == "A":
        return " ".join(["A", str(len(t[1]))] + [str(s) for s in t[1]] + [str(len(t[2]))] + [str(d) for d in t[2]])
    raise ValueError(k)


def to_py(t, rng):
    k = t[0]
    if k == "N":
        return None
    if k in ("T", "F"):
        return k == "T"
    if k in ("BT", "BF"):
        return np.bool_(k == "BT")
    if k == "OBJ":
        return np.array(to_py(t[1], rng), dtype=object)
    if k == "I":
        if len(t) > 2:        # forced scalar type
            return INT_TYPES[t[2]](t[1])
        return rng.choice([int, int, np.int64, np.int32] + ([np.uint8, np.int16] if 0 <= t[1] < 100 else []))(t[1])
    if k == "FL":
        if len(t) > 2:
            return FLOAT_TYPES[t[2]](t[1])
        return rng.choice([float, float, np.float64, np.float32, np.float16, np.longdouble])(t[1])
    if k == "NAN":
        return rng.choice([float("nan"), np.nan, np.float64("nan"), np.float32("nan")])
    if k == "C":
        return rng.choice([1j, complex(2, 0), complex(0, 1), -3 + 1j])   # a complex zero is outside the grammar (anchor=0j is accepted)
    if k == "O":
        return rng.choice([{"a": 1}, object(), {1, 2}, len])
    if k == "S":
        return t[1]
    if k == "R":
        from scipy.spatial.transform import Rotation as R
        n, finite = t[1], t[2]
        rv = np.array([[rng.uniform(-2, 2) for _ in range(3)] for _ in range(max(n, 1))])
        if not finite:
            rv[rng.randrange(len(rv)), rng.randrange(3)] = rng.choice([np.nan, np.inf])
        if n == 0:
            return R.from_rotvec(rv)[:0]
        return R.from_rotvec(rv[0]) if n == 1 and rng.random() < 0.5 else R.from_rotvec(rv)
    if k == "L":
        xs = [to_py(x, rng) for x in t[1]]
        return tuple(xs) if rng.random() < 0.4 else xs
    if k == "A":
        return np.array(t[2], dtype=rng.choice([np.int64, np.float64, np.int32, np.float32])).reshape(t[1])
    raise ValueError(k)


def show(t):
    k = t[0]
    if k == "OBJ":
        return "ndarray(dtype=object) of " + show(t[1])
    if k == "I":
        return str(t[1]) + (f" as {INT_TYPES[t[2]].__name__}" if len(t) > 2 else "")
    if k == "FL":
        return f"{t[1]}.0" + (f" as {FLOAT_TYPES[t[2]].__name__}" if len(t) > 2 else "")
    if k == "S":
        return repr(t[1])
    if k == "R":
        return f"Rotation(n={t[1]}, finite={bool(t[2])})"
    if k == "L":
        return "[" + ", ".join(show(x) for x in t[1]) + "]"
    if k == "A":
        return f"ndarray(shape={tuple(t[1])}, data={t[2]})"
    return {"N": "None", "T": "True", "F": "False", "BT": "np.True_", "BF": "np.False_", "C": "<complex>", "O": "<object>", "NAN": "nan"}[k]


# ---------------------------------------------------------------- generators
def I(n):
    return ("I", n)


def FL(n):
    return ("FL", n)


NAN = ("NAN",)
NONE3 = ("L", [("N",), ("N",), ("N",)])


def L(*xs):
    return ("L", list(xs))


def nums(*ns):
    return ("L", [("I", n) for n in ns])


def leaf(rng, good=0.8):
    r = rng.random()
    if r < good:
        return (rng.choice(["I", "I", "FL"]), rng.choice(INTS) if rng.random() < 0.6 else rng.randint(-4, 9))
    return rng.choice([("N",), ("N",), ("T",), ("F",), ("BT",), ("BF",), ("C",), ("O",), ("S", rng.choice(STRINGS)), ("S", rng.choice(STRINGS)),
                       ("I", 0), ("FL", -1), NAN])


def rect(rng, shape, good=0.93, pos=False):
    if not shape:
        if pos and rng.random() < 0.9:
            return (rng.choice(["I", "I", "FL"]), rng.randint(1, 6))
        return leaf(rng, good)
    return ("L", [rect(rng, shape[1:], good, pos) for _ in range(shape[0])])


def array(rng, shape, pos=False):
    n = math.prod(shape)
    return ("A", list(shape), [rng.randint(1, 6) if pos and rng.random() < 0.9 else rng.randint(-3, 6) for _ in range(n)])


def mutate(rng, t):
    """one structural defect: ragged row, extra nesting, a non-number leaf, a wrong length"""
    if t[0] != "L":
        return rng.choice([t, L(t), leaf(rng, 0.2)])
    xs = list(t[1])
    r = rng.random()
    if r < 0.25 and xs:
        i = rng.randrange(len(xs))
        xs[i] = mutate(rng, xs[i])
    elif r < 0.45 and xs:
        xs.pop(rng.randrange(len(xs)))
    elif r < 0.6:
        xs.insert(rng.randrange(len(xs) + 1), rng.choice(xs) if xs and rng.random() < 0.7 else leaf(rng, 0.5))
    elif r < 0.7:
        return L(t)
    elif r < 0.8 and xs:
        i = rng.randrange(len(xs))
        xs[i] = leaf(rng, 0.1)
    elif r < 0.9 and xs:
        i = rng.randrange(len(xs))
        xs[i] = L(xs[i])
    else:
        return rng.choice([("N",), leaf(rng, 0.3), ("L", []), L(("L", [])), xs[0] if xs else ("N",)])
    return ("L", xs)


def anyval(rng, depth=3):
    if depth == 0 or rng.random() < 0.35:
        return leaf(rng, 0.55)
    if rng.random() < 0.12:
        return array(rng, rng.choice([[0], [3], [0, 3], [2, 3], [1, 0, 3], [], [2, 0], [5], [3, 3], [1, 3]]))
    return ("L", [anyval(rng, depth - 1) for _ in range(rng.choice([0, 1, 2, 3, 3, 4, 5]))])


def shaped(rng, shapes, pos=False):
    """a value aimed at one of the given shapes: mostly well-formed, sometimes an ndarray, sometimes with one defect"""
    sh = list(rng.choice(shapes))
    r = rng.random()
    if r < 0.2:
        return array(rng, sh, pos)
    v = rect(rng, sh, 0.95, pos)
    if r < 0.55:
        return v
    if r < 0.9:
        return mutate(rng, v)
    return anyval(rng)


def poly_vertices(rng):
    """Polyline.vertices: rows of three numbers with separator rows (None, None, None); sometimes one defect: a partly-None row, a
    None row of another length, a None row one level deeper"""
    n = rng.choice([1, 2, 3, 4, 6])
    rows = [rect(rng, [3], 0.97) if rng.random() < 0.65 else NONE3 for _ in range(n)]
    r = rng.random()
    if r < 0.12 and rows:
        i = rng.randrange(len(rows))
        rows[i] = ("L", [rng.choice([("N",), I(1), NAN]) for _ in range(3)])
    elif r < 0.2 and rows:
        rows[rng.randrange(len(rows))] = ("L", [("N",)] * rng.choice([0, 1, 2, 4]))
    elif r < 0.26:
        return L(("L", rows))
    elif r < 0.32 and rows:
        rows[rng.randrange(len(rows))] = rng.choice([("N",), ("A", [3], [1, 2, 3]), ("S", "abc"), L(NONE3)])
    return ("L", rows)


def segment(rng):
    r1 = rng.choice([0, 0, 1, 2, -1, 3])
    r2 = r1 + rng.choice([-1, 0, 1, 1, 2, 3])
    h = rng.choice([-1, 0, 1, 1, 2, 5])
    p1 = rng.choice([-360, -90, 0, 0, 30, 90, 360, 400])
    p2 = p1 + rng.choice([-10, 0, 1, 90, 90, 359, 360, 361, 720])
    v = [r1, r2, h, p1, p2]
    r = rng.random()
    if r < 0.15:
        return ("A", [5], v)
    t = nums(*v)
    if r < 0.3:
        i = rng.randrange(5)
        t[1][i] = leaf(rng, 0.1)
    elif r < 0.4:
        t = mutate(rng, t)
    return t


NEAR3 = [[3], [3], [3], [2], [4], [1, 3], [0], [3, 1], [5]]
ROWS = [[1, 3], [2, 3], [3, 3], [4, 3], [5, 3], [3], [3, 2], [4, 4], [0, 3], [2, 2, 3], [3, 4], [0]]
PIX = [[3], [1, 3], [2, 3], [2, 2, 3], [1, 2, 1, 3], [0, 3], [2, 0, 3], [2], [2, 2], [3, 3], [0], [1] * 18 + [3], [1] * 19 + [3]]

# value pools per validator command (driver command, generator)
TABLE_ATTRS = [
    ("BaseCurrent", "current"), ("BaseGeo", "position"), ("BaseMagnet", "magnetization"), ("BaseMagnet", "polarization"),
    ("Circle", "diameter"), ("Cuboid", "dimension"), ("Cylinder", "dimension"), ("CylinderSegment", "dimension"),
    ("Dipole", "moment"), ("Polyline", "vertices"), ("Sensor", "pixel"), ("Sphere", "diameter"),
    ("Tetrahedron", "vertices"), ("Triangle", "vertices"),
]


def scalar_val(rng):
    r = rng.random()
    if r < 0.5:
        return ("I", rng.choice([0, 0, 1, 2, -1, -2, 5, -7]))
    if r < 0.8:
        return leaf(rng, 0.0)
    return rng.choice([nums(2), ("A", [], [2]), ("A", [1], [2]), ("L", []), anyval(rng, 1)])


def gen_for(rng, cmd):
    """value generator matched to the validator a command reaches"""
    head = cmd.split()[0]
    if head == "scalar":
        return scalar_val(rng)
    if head == "attr":
        c, a = cmd.split()[1:3]
        if a in ("current", "diameter"):
            return scalar_val(rng)
        if a == "position":
            return shaped(rng, ROWS + [[3]] * 4)
        if (c, a) == ("Cuboid", "dimension"):
            return shaped(rng, NEAR3, pos=True)
        if (c, a) == ("Cylinder", "dimension"):
            return shaped(rng, [[2], [2], [2], [3], [1], [1, 2], [0]], pos=True)
        if (c, a) == ("CylinderSegment", "dimension"):
            return segment(rng) if rng.random() < 0.85 else shaped(rng, [[5], [4], [6], [1, 5]])
        if (c, a) == ("Polyline", "vertices") and rng.random() < 0.5:
            return poly_vertices(rng)
        if a == "vertices":
            return shaped(rng, ROWS + {"Triangle": [[3, 3]] * 6, "Tetrahedron": [[4, 3]] * 6}.get(c, []))
        if a == "pixel":
            return shaped(rng, PIX)
        return shaped(rng, NEAR3)
    if head == "cylseg":
        return segment(rng) if rng.random() < 0.85 else shaped(rng, [[5], [4], [6], [1, 5]])
    if rng.random() < (0.5 if head == "vertices" else 0.08) and head in ("vertices", "triangle", "tetrahedron", "position", "pixel", "vector2"):
        return poly_vertices(rng)      # None rows are separators for Polyline.vertices only
    if head in ("vertices", "triangle", "tetrahedron"):
        return shaped(rng, ROWS + {"triangle": [[3, 3]] * 6, "tetrahedron": [[4, 3]] * 6}.get(head, []))
    if head == "position":
        return shaped(rng, ROWS + [[3]] * 4)
    if head == "pixel":
        return shaped(rng, PIX)
    if head == "handedness":
        return rng.choice([("S", "right"), ("S", "left"), ("S", rng.choice(STRINGS)), leaf(rng, 0.3), L(("S", "right")), anyval(rng, 1)])
    if head == "start":
        return rng.choice([I(rng.randint(-3, 5)), FL(rng.randint(-3, 5)), ("S", "auto"), ("S", rng.choice(STRINGS + ["Auto", "auto_"])), leaf(rng, 0.2), anyval(rng, 1)])
    if head == "degrees":
        return rng.choice([("T",), ("F",), ("BT",), ("BF",), I(0), I(1), leaf(rng, 0.2), anyval(rng, 1)])
    if head == "field":
        return rng.choice([("S", rng.choice("BHMJ")), ("S", rng.choice(["b", "BH", "", "x", "B_", "MJ"] + STRINGS)), leaf(rng, 0.2), L(("S", "B")), anyval(rng, 1)])
    if head == "output":
        return rng.choice([("S", "ndarray"), ("S", "dataframe"), ("S", rng.choice(["Ndarray", "array", "", "dataframe_"] + STRINGS)), leaf(rng, 0.2), L(("S", "ndarray")), anyval(rng, 1)])
    if head == "anchor":
        return rng.choice([I(0), FL(0), ("F",), ("T",), I(1), ("N",), leaf(rng, 0.3), shaped(rng, ROWS + [[3]] * 4), shaped(rng, ROWS + [[3]] * 4), ("A", [0, 3], [])])
    if head == "angle":
        return rng.choice([leaf(rng, 0.6), leaf(rng, 0.6), shaped(rng, [[0], [1], [2], [3], [5], [1, 2], [2, 1], []]), shaped(rng, [[1], [3], [4]]), anyval(rng, 2)])
    if head == "axis":
        return rng.choice([("S", rng.choice("xyz")), ("S", rng.choice(["X", "xy", "", "zz"] + STRINGS)), shaped(rng, NEAR3), shaped(rng, NEAR3), nums(0, 0, 0), L(I(0), FL(0), I(0)),
                           ("A", [3], [0, 0, 0]), L(NAN, I(0), I(0)), leaf(rng, 0.3)])
    if head == "orientation":
        return rng.choice([("N",), ("R", 1, 1), ("R", rng.choice([0, 1, 2, 3, 5]), 1), ("R", rng.choice([1, 2, 4]), 0), ("R", 0, 1), leaf(rng, 0.3), nums(0, 0, 0, 1), ("A", [4], [0, 0, 0, 1]),
                           L(("R", 1, 1)), anyval(rng, 1)])
    if head == "vector2":
        return shaped(rng, [[1, 3, 3], [2, 3, 3], [4, 3, 3], [3, 3], [3], [2, 3, 2], [2, 2, 3], [0, 3, 3], [2, 3, 3, 1], [0], [2, 3]])
    if head == "vector":
        return shaped(rng, NEAR3 + ROWS + [[5], [2], [], [2, 2, 3]], pos=rng.random() < 0.5)
    raise ValueError(cmd)


def random_vector_cmd(rng):
    dims = sorted(rng.sample([0, 1, 2, 3], rng.choice([1, 1, 2, 3])))
    m1 = rng.choice([-1, 2, 3, 3, 3, 5])
    length = rng.choice([0, 0, 0, 2, 3, 4])
    rs, an, f0 = int(rng.random() < 0.2), int(rng.random() < 0.5), int(rng.random() < 0.4)
    return f"vector {len(dims)} {' '.join(map(str, dims))} {m1} {length} {rs} {an} {f0}"


def edge_values():
    """fixed boundary values, run against every command on every run"""
    vs = [("N",), ("T",), ("F",), ("BT",), ("BF",), ("C",), ("O",), I(0), I(1), I(-1), I(2), ("S", ""), ("S", "abc"), ("S", "3"), ("S", "-3"),
          ("S", "right"), ("S", "left"), ("S", "Right"), ("L", []), L(("L", [])), L(("L", []), ("L", [])), nums(2), nums(1, 2), nums(1, 2, 3),
          nums(1, 2, 3, 4), nums(0, 2, 3), nums(1, 2, -3), nums(1, 0), nums(1, -1), L(I(1), ("N",), I(3)), L(I(1), ("S", "2"), I(3)),
          L(I(1), ("S", "x"), I(3)), L(I(1), ("T",), I(3)), L(I(1), ("F",), I(3)), L(I(1), ("BT",), I(3)), L(I(1), ("C",), I(3)),
          L(I(1), ("O",), I(3)), L(I(1), nums(2), I(3)), L(("S", "right")), L(nums(1, 2, 3)), L(nums(1, 2, 3), nums(4, 5, 6)),
          L(nums(1, 2, 3), nums(4, 5, 6), nums(7, 8, 10)), L(nums(1, 2, 3), nums(4, 5, 6), nums(7, 8, 10), nums(0, 0, 1)),
          L(nums(1, 2, 3), nums(4, 5, 6), nums(7, 8, 10), nums(0, 0, 1), nums(2, 2, 2)), L(nums(1, 2, 3), nums(4, 5)),
          L(nums(1, 2), nums(4, 5), nums(7, 8)), L(nums(1, 2), nums(4, 5), nums(7, 8), nums(1, 1)), L(nums(1, 2, 3, 4), nums(4, 5, 6, 7), nums(7, 8, 9, 9)),
          L(L(nums(1, 2, 3), nums(4, 5, 6))), L(L(nums(1, 2, 3)) , L(nums(4, 5, 6))), L(L(nums(1, 2, 3), nums(4, 5, 6), nums(7, 8, 9))),
          L(L(nums(1, 2, 3), nums(4, 5, 6), nums(7, 8, 9)), L(nums(1, 2, 3), nums(4, 5, 6), nums(7, 8, 9))),
          ("A", [3], [1, 2, 3]), ("A", [], [2]), ("A", [1], [2]), ("A", [0], []), ("A", [0, 3], []), ("A", [2, 0, 3], []), ("A", [1, 3], [1, 2, 3]),
          ("A", [3, 3], list(range(9))), ("A", [4, 3], list(range(12))), ("A", [2, 3], [1, 2, 3, 4, 5, 6]), ("A", [1, 3, 3], list(range(9))),
          ("A", [2, 2, 3], list(range(12))), ("A", [3, 0], []), ("A", [5], [1, 2, 1, 0, 90]), ("A", [2], [1, 2]), ("A", [2], [0, 2]),
          L(("A", [3], [1, 2, 3]), nums(4, 5, 6)), L(("A", [0, 3], [])), L(("A", [], [1]), I(2), I(3)),
          ("A", [1] * 18 + [3], [1, 2, 3]), ("A", [1] * 19 + [3], [1, 2, 3])]
    for seg in [(1, 2, 1, 0, 90), (1, 1, 1, 0, 90), (2, 1, 1, 0, 90), (0, 1, 1, 0, 360), (0, 1, 1, 0, 361), (0, 0, 1, 0, 90), (-1, 1, 1, 0, 90),
                (0, 1, 0, 0, 90), (0, 1, -1, 0, 90), (1, 2, 1, 90, 90), (1, 2, 1, 90, 0), (1, 2, 1, -360, 0), (1, 2, 1, -361, 0), (1, 2, 1, 400, 500),
                (0, 1, 1, -180, 180), (0, -1, 1, 0, 90), (1, 2, 1, 0), (1, 2, 1, 0, 90, 5)]:
        vs.append(nums(*seg))
    # numbers as float, nan given as a float; None rows (segment separators of Polyline.vertices, refused everywhere else)
    vs += [FL(0), FL(1), FL(-1), NAN, L(FL(1), I(2), FL(3)), L(I(1), NAN, I(3)), L(NAN, NAN, NAN), L(nums(1, 2, 3), L(NAN, NAN, NAN)),
           L(I(1), I(2), I(1), NAN, I(90)), NONE3, L(NONE3), L(NONE3, NONE3), L(NONE3, NONE3, NONE3), L(nums(0, 0, 0), NONE3, nums(1, 0, 0)),
           L(NONE3, nums(0, 0, 0), nums(0, 0, 1), NONE3, NONE3, nums(1, 0, 0), nums(1, 0, 1), NONE3), L(nums(0, 0, 0), L(I(1), ("N",), I(3))),
           L(nums(0, 0, 0), L(("N",), ("N",), I(3)), nums(1, 1, 1)), L(L(("N",), ("N",)), L(("N",), ("N",))), L(NONE3, nums(1, 2)),
           L(NONE3, L(("S", "a"), ("S", "b"), ("S", "c"))), L(NONE3, ("A", [3], [1, 2, 3])), L(L(NONE3, NONE3), L(NONE3, NONE3)),
           L(nums(0, 0, 0), ("N",)), L(NONE3, NONE3, NONE3, NONE3), L(L(("N",)) , L(("N",))), L(nums(1, 2, 3), L(("S", "1"), ("S", "2"), ("S", "3")))]
    # Rotation objects (orientation), argument strings, empty angle / anchor arrays
    vs += [("R", 1, 1), ("R", 2, 1), ("R", 0, 1), ("R", 1, 0), ("R", 3, 0), L(("R", 1, 1)), ("S", "auto"), ("S", "Auto"), ("S", "B"), ("S", "H"), ("S", "M"), ("S", "J"),
           ("S", "BH"), ("S", "b"), ("S", "ndarray"), ("S", "dataframe"), ("S", "x"), ("S", "y"), ("S", "z"), ("S", "X"), ("S", "xy"), nums(0, 0, 0), L(FL(0), FL(0), FL(0)),
           L(NAN, I(0), I(0)), ("A", [3], [0, 0, 0]), ("A", [0], []), ("A", [4], [0, 0, 0, 1]), nums(0, 0, 0, 1), L(I(0), ("F",), I(0)), I(45), FL(90), I(-3)]
    vs += [L(I(1), I(2), I(1), ("N",), I(90)), L(("N",), I(2), I(1), I(0), I(90)), L(I(1), I(2), ("S", "1"), I(0), I(90)), L(I(1), I(2), ("T",), I(0), I(90)),
           L(I(1), I(2), ("F",), I(0), I(90)), L(nums(1, 2, 1, 0, 90))]
    return vs


def commands():
    cmds = [f"scalar {a} {f}" for a in (0, 1) for f in (0, 1)]
    cmds += ["start", "degrees", "field", "output", "anchor", "angle", "axis", "orientation 0", "orientation 1"]
    cmds += ["vertices", "cylseg", "pixel", "handedness", "triangle", "tetrahedron", "position", "vector2 3 -1 3 3", "vector2 2 3 -1",
             "vector 1 1 3 0 0 1 1", "vector 1 1 2 0 0 1 1", "vector 1 1 3 0 0 0 0", "vector 2 1 2 3 0 1 0 0", "vector 1 2 3 3 0 1 0", "vector 1 1 -1 0 0 0 0",
             "vector 2 0 1 3 0 0 0 0", "vector 2 0 1 -1 2 0 0 0", "vector 2 0 1 -1 0 1 0 0", "vector 1 2 2 0 1 0 0"]
    cmds += [f"attr {c} {a}" for c, a in TABLE_ATTRS]
    return cmds


SCALARISH = ("scalar", "start", "degrees", "angle", "anchor", "attr BaseCurrent current", "attr Circle diameter", "attr Sphere diameter")
ARRAYISH = ("vector", "vector2", "vertices", "cylseg", "pixel", "triangle", "tetrahedron", "position", "anchor", "angle", "axis", "attr")


def typed_scalars():
    """every numeric scalar type numpy offers, for the validators of scalar arguments (and inside a vector)"""
    out = []
    for n in (0, 1, 2, -1, 45):
        out += [("I", n, k) for k, ty in enumerate(INT_TYPES) if n >= 0 or not ty.__name__.startswith("uint")]
        out += [("FL", n, k) for k in range(len(FLOAT_TYPES))]
    return out


def is_arrayish(cmd):
    p = cmd.split()
    return p[0] in ARRAYISH and not (p[0] == "attr" and p[2] in ("current", "diameter"))


def pure_rect(t):
    """shape of a rectangular nesting of lists and scalar leaves (no ndarray, no Rotation inside), else None"""
    if t[0] in ("A", "R", "OBJ"):
        return None
    if t[0] != "L":
        return ()
    shapes = [pure_rect(x) for x in t[1]]
    if any(sh is None for sh in shapes) or len(set(shapes)) > 1:
        return None
    return (len(shapes),) + (shapes[0] if shapes else ())


def has_none(t):
    return t[0] == "N" or (t[0] == "L" and any(has_none(x) for x in t[1]))


def object_ok(cmd, t):
    """may the value be handed over as an object-dtype ndarray?  (the model treats it like the nesting; None rows are separators only
    inside lists / tuples given to check_format_input_vertices)"""
    if not is_arrayish(cmd) or t[0] != "L" or pure_rect(t) is None:
        return False
    return not (has_none(t) and ("vertices" in cmd))


def object_edge_values():
    vs = [nums(1, 2, 3), nums(1, 2), nums(1, -2, 3), L(nums(1, 2, 3)), L(nums(1, 2, 3), nums(4, 5, 6)), L(nums(0, 0, 0), nums(1, 0, 0), nums(0, 1, 0)),
          L(nums(0, 0, 0), nums(1, 0, 0), nums(0, 1, 0), nums(0, 0, 1)), nums(1, 2, 1, 0, 90), L(I(1), ("N",), I(3)), L(I(1), ("S", "2"), I(3)),
          L(I(1), ("C",), I(3)), L(I(1), ("T",), I(3)), L(FL(1), NAN, I(3)), ("L", []), L(L(nums(1, 2, 3), nums(4, 5, 6))), L(NONE3, nums(1, 2, 3)),
          L(L(nums(0, 0, 0), nums(1, 0, 0), nums(0, 1, 0))), nums(0, 0, 0), nums(45, 90)]
    return [("OBJ", v) for v in vs] + [("OBJ", ("A", [], [2])), ("OBJ", ("A", [3], [1, 2, 3])), ("OBJ", ("A", [0], [])), ("OBJ", ("A", [0, 3], []))]


# ---------------------------------------------------------------- the real side
def canon(res):
    if res is None:
        return "ok none"
    if isinstance(res, str):
        return f"ok text {res}".rstrip() if res else "ok text"
    if isinstance(res, np.ndarray):
        if res.dtype != np.float64:
            return f"ok array-of-dtype-{res.dtype}"
        d = " ".join("nan" if math.isnan(x) else (str(int(x)) if float(x).is_integer() else repr(float(x))) for x in res.reshape(-1).tolist())
        sh = " ".join(str(s) for s in res.shape)
        return " ".join(f"ok array {res.ndim} {sh} : {d}".split())
    if type(res) is float or isinstance(res, np.floating):
        x = float(res)
        return "ok scalar " + ("nan" if math.isnan(x) else (str(int(x)) if x.is_integer() else repr(x)))
    return f"ok unexpected-type-{type(res).__name__}"


def snapshot(o):
    from scipy.spatial.transform import Rotation as R

    out = {}
    for k, v in o.__dict__.items():
        if isinstance(v, np.ndarray):
            out[k] = (v.shape, str(v.dtype), v.tobytes())
        elif isinstance(v, R):
            out[k] = v.as_quat().tobytes()
        elif isinstance(v, (int, float, str, type(None), bool)):
            out[k] = v
    return out


def make_objects():
    import magpylib as magpy

    m, c, x = magpy.magnet, magpy.current, magpy.misc
    tet = [(0, 0, 0), (1, 0, 0), (0, 1, 0), (0, 0, 1)]
    return {
        ("BaseCurrent", "current"): (c.Circle, dict(diameter=1, current=1)),
        ("BaseGeo", "position"): (magpy.Sensor, {}),
        ("BaseMagnet", "magnetization"): (m.Cuboid, dict(dimension=(1, 2, 3), polarization=(1, 2, 3))),
        ("BaseMagnet", "polarization"): (m.Cuboid, dict(dimension=(1, 2, 3), polarization=(1, 2, 3))),
        ("Circle", "diameter"): (c.Circle, dict(diameter=1, current=1)),
        ("Cuboid", "dimension"): (m.Cuboid, dict(dimension=(1, 2, 3), polarization=(1, 2, 3))),
        ("Cylinder", "dimension"): (m.Cylinder, dict(dimension=(1, 2), polarization=(1, 2, 3))),
        ("CylinderSegment", "dimension"): (m.CylinderSegment, dict(dimension=(1, 2, 1, 0, 90), polarization=(1, 2, 3))),
        ("Dipole", "moment"): (x.Dipole, dict(moment=(1, 2, 3))),
        ("Polyline", "vertices"): (c.Polyline, dict(vertices=tet[:3], current=1)),
        ("Sensor", "pixel"): (magpy.Sensor, dict(pixel=[(1, 2, 3), (4, 5, 6)])),
        ("Sensor", "handedness"): (magpy.Sensor, dict(handedness="left")),
        ("Sphere", "diameter"): (m.Sphere, dict(diameter=1, polarization=(1, 2, 3))),
        ("Tetrahedron", "vertices"): (m.Tetrahedron, dict(vertices=tet, polarization=(1, 2, 3))),
        ("Triangle", "vertices"): (x.Triangle, dict(vertices=tet[:3], polarization=(1, 2, 3))),
    }


SETTER_CMDS = {"pixel": ("Sensor", "pixel"), "handedness": ("Sensor", "handedness"), "triangle": ("Triangle", "vertices"),
               "tetrahedron": ("Tetrahedron", "vertices"), "position": ("BaseGeo", "position")}


def run_real(cmd, val, rng, objects, via_ctor):
    """returns (canonical result line, note) where note is a state-change remark for rejected setter calls"""
    from magpylib._src import input_checks as ic
    from magpylib._src.exceptions import MagpylibBadUserInput

    p = cmd.split()
    note = None
    try:
        with warnings.catch_warnings():
            warnings.simplefilter("ignore")
            if p[0] == "scalar":
                res = ic.check_format_input_scalar(val, "x", "a number", allow_None=bool(int(p[1])), forbid_negative=bool(int(p[2])))
            elif p[0] == "vector":
                nd = int(p[1])
                dims = tuple(int(x) for x in p[2:2 + nd])
                m1, length, rs, an, f0 = (int(x) for x in p[2 + nd:7 + nd])
                res = ic.check_format_input_vector(val, dims=dims, shape_m1="any" if m1 == -1 else m1, sig_name="x", sig_type="t",
                                                   length=None if length == 0 else length, reshape=(-1, 3) if rs else False,
                                                   allow_None=bool(an), forbid_negative0=bool(f0))
            elif p[0] == "vector2":
                n = int(p[1])
                res = ic.check_format_input_vector2(val, shape=[None if int(x) < 0 else int(x) for x in p[2:2 + n]], param_name="mesh")
            elif p[0] in ("start", "degrees", "field", "output", "anchor", "angle", "axis"):
                fn = {"start": ic.check_start_type, "degrees": ic.check_degree_type, "field": ic.check_field_input, "output": ic.check_getBH_output_type,
                      "anchor": ic.check_format_input_anchor, "angle": ic.check_format_input_angle, "axis": ic.check_format_input_axis}[p[0]]
                res = fn(val)
                if p[0] == "axis" and isinstance(val, str) and isinstance(res, np.ndarray):
                    res = res.astype(float)      # 'x', 'y', 'z' give integer arrays
            elif p[0] == "orientation":
                res = ic.check_format_input_orientation(val, init_format=bool(int(p[1])))
                q = res if bool(int(p[1])) else res[1]
                return f"ok quats {np.reshape(q, (-1, 4)).shape[0]}", note
            elif p[0] == "vertices":
                res = ic.check_format_input_vertices(val)
            elif p[0] == "cylseg":
                res = ic.check_format_input_cylinder_segment(val)
            else:
                key = SETTER_CMDS[p[0]] if p[0] in SETTER_CMDS else (p[1], p[2])
                ctor, kw = objects[key]
                attr = key[1]
                if via_ctor:
                    kw2 = {k: v for k, v in kw.items() if not (attr in ("polarization", "magnetization") and k in ("polarization", "magnetization"))}
                    obj = ctor(**{**kw2, attr: val})
                else:
                    obj = ctor(**kw)
                    before = snapshot(obj)
                    try:
                        setattr(obj, attr, val)
                    except Exception:
                        if snapshot(obj) != before:
                            note = "rejected assignment changed the object"
                        raise
                res = getattr(obj, "_" + attr)
                if isinstance(val, np.ndarray) and isinstance(res, np.ndarray) and np.shares_memory(val, res):
                    note = "stored array shares memory with the caller's array"
        return canon(res), note
    except MagpylibBadUserInput:
        return "err bad", note
    except Exception as e:  # pylint: disable=broad-except
        return f"err foreign:{type(e).__name__}", note


# ---------------------------------------------------------------- the stream
def run_stream(ctx, n):
    rng = ctx.rng
    objects = make_objects()
    cmds = commands()
    cases = []  # (cmd, tree)
    for cmd in cmds:          # fixed boundary values x every command
        for v in edge_values():
            cases.append((cmd, v))
    for cmd in cmds:          # every numpy scalar type x every validator of a scalar argument; a typed entry inside a vector elsewhere
        if cmd.startswith(SCALARISH):
            cases += [(cmd, v) for v in typed_scalars()]
        elif is_arrayish(cmd):
            cases += [(cmd, L(I(1), v, I(3))) for v in typed_scalars()[::3]]
    for cmd in cmds:          # object-dtype ndarrays (also 0-d and empty ones) x every validator of an array argument
        if is_arrayish(cmd):
            cases += [(cmd, v) for v in object_edge_values() if not (has_none(v[1]) and "vertices" in cmd)]
    n_edge = len(cases)
    for _ in range(n):        # random values matched to a random command
        cmd = random_vector_cmd(rng) if rng.random() < 0.12 else rng.choice(cmds)
        v = gen_for(rng, cmd) if rng.random() < 0.9 else anyval(rng)
        if rng.random() < 0.15 and object_ok(cmd, v):
            v = ("OBJ", v)
        cases.append((cmd, v))
    out = run_driver([f"valid {cmd} {enc(v)}" for cmd, v in cases])
    stats = {"cases": len(cases), "edge_cases": n_edge, "random_cases": n, "object_dtype_cases": sum(1 for _, v in cases if v[0] == "OBJ"),
             "typed_scalar_cases": sum(1 for _, v in cases if len(v) > 2 and v[0] in ("I", "FL")), "accepted": 0, "rejected_bad": 0, "foreign_agreed": 0,
             "disagreements": 0, "state_changes": 0, "per_validator": {}, "foreign_inputs": []}
    seen = set()
    for i, (cmd, v) in enumerate(cases):
        head = cmd.split()[0]
        is_obj = head in SETTER_CMDS or head == "attr"
        via_ctor = is_obj and rng.random() < 0.35
        pv = to_py(v, rng)
        real, note = run_real(cmd, pv, rng, objects, via_ctor)
        model = " ".join(out[i].split())
        name = " ".join(cmd.split()[:3]) if head == "attr" else head
        pvs = stats["per_validator"].setdefault(name, {"ok": 0, "bad": 0, "foreign": 0})
        pvs["ok" if real.startswith("ok") else ("bad" if real == "err bad" else "foreign")] += 1
        if real.startswith("ok"):
            stats["accepted"] += 1
        elif real == "err bad":
            stats["rejected_bad"] += 1
        elif real == model:
            stats["foreign_agreed"] += 1
            if len(stats["foreign_inputs"]) < 8 and (name, real) not in {(a, b) for a, b, _ in stats["foreign_inputs"]}:
                stats["foreign_inputs"].append((name, real, show(v)))
        seen.add((name, model, enc(v)) if real.startswith("ok") else (name, model, v[0], len(v[1]) if v[0] in ("L", "OBJ") else 0))
        if note:
            stats["state_changes"] += 1
        if real != model or note:
            stats["disagreements"] += 1
            if stats["disagreements"] <= 3:
                ctx.broken.append({"kind": "correspondence", "name": "valid",
                                   "detail": {"validator": cmd, "value": show(v), "via": "constructor" if via_ctor else "setter/function",
                                              "python_value": repr(pv)[:120], "model": model, "real": real, "note": note}})
    stats["distinct"] = len(seen)
    k = n_edge + min(3, n) - 1 if n else 0
    stats["samples"] = [{"validator": cases[j][0], "value": show(cases[j][1]), "result": out[j]} for j in (7, n_edge // 2, k) if j < len(cases)]
    return stats
