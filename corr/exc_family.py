"""correspondence stream `exc` (C02, excitation_sync): assignment histories on REAL magnet objects (Cuboid, Cylinder,
CylinderSegment, Sphere, Tetrahedron, TriangularMesh; with and without geometry) against Model/Excitation.lean run in IEEE
double by the driver.  One history = constructor call with magnetization= / polarization= (either, both, neither, valid /
None / refused values) followed by 0..8 assignments to `obj.polarization` / `obj.magnetization`; after the constructor and
after EVERY assignment the outcome (ok / low-magnetization warning / kind of exception) and the two attributes as read
through the properties are compared with the model: `None` as such, vectors as exact 64-bit patterns (NaN as a symbol).
Half of the histories run with warnings escalated to errors (`-W error`): the magnetization setter then raises AFTER it has
written both attributes, which the model reproduces (`Outcome.warned`).  Row `exc const`: the constant the setters use, as
the driver's Float evaluation of the regenerated expression, against (a) the bit pattern Python computes for the source
expression (Gen.ExcSync.magToPolBits / polToMagBits) and (b) `4*np.pi*1e-7` computed here."""
import re
import struct
import warnings

import numpy as np

from vlib.driver import run_driver

NUMPY_WARNINGS = [0]
CLASSES = ["Cuboid", "Cylinder", "CylinderSegment", "Sphere", "Tetrahedron", "TriangularMesh"]


def bits(x):
    return str(struct.unpack("<Q", struct.pack("<d", float(x)))[0])


def canon_tok(t):
    """a 64-bit pattern that is a NaN becomes the symbol `nan` (payload and sign of NaNs are not compared)"""
    if t.isdigit():
        v = int(t)
        if (v >> 52) & 0x7FF == 0x7FF and v & ((1 << 52) - 1):
            return "nan"
    return t


def canon(line):
    return " ".join(canon_tok(t) for t in line.split(" "))


def geometry(cls, rng):
    if rng.random() < 0.25 and cls != "TriangularMesh":  # TriangularMesh cannot be constructed without vertices / faces
        return {}
    return {"Cuboid": {"dimension": (1, 2, 3)}, "Cylinder": {"dimension": (1, 2)}, "CylinderSegment": {"dimension": (1, 2, 1, 0, 90)},
            "Sphere": {"diameter": 1.5},
            "Tetrahedron": {"vertices": [(0, 0, 0), (1, 0, 0), (0, 1, 0), (0, 0, 1)]},
            "TriangularMesh": {"vertices": [(0, 0, 0), (1, 0, 0), (0, 1, 0), (0, 0, 1)], "faces": [(0, 2, 1), (0, 1, 3), (1, 2, 3), (0, 3, 2)]}}[cls]


def gen_value(rng, nps):
    """(python value to assign, model argument)"""
    k = rng.random()
    if k < 0.12:
        return None, "N"
    if k < 0.3:
        bad = rng.choice([(1, 2), (1, 2, 3, 4), [[1, 2, 3]], 5.0, 7, "abc", [1, 2, "x"], [None, 1, 2], {}, np.zeros((3, 1)), [1j, 2, 3],
                          (), [[1], [2], [3]], np.zeros((2, 3)), object(), [1, 2, [3]], b"abc", (None, None, None)])
        return bad, "B"
    s = rng.random()
    if s < 0.3:
        v = nps.uniform(-1, 1, 3) * 10.0 ** nps.uniform(-5, 1)       # polarization-like
    elif s < 0.55:
        v = nps.uniform(-1, 1, 3) * 10.0 ** nps.uniform(3, 7)        # magnetization-like
    elif s < 0.7:
        v = nps.uniform(-1, 1, 3) * 10.0 ** nps.uniform(-300, 300)   # any magnitude (under/overflow of the product / quotient)
    elif s < 0.85:
        # around the warning threshold |M| = 2000, exactly representable
        v = np.array(rng.choice([(2000.0, 0, 0), (1200.0, 1600.0, 0), (0, 0, -2000.0), (1999.0, 0, 0), (2001.0, 0, 0), (0, 0, 0),
                                 (1024.0, 1024.0, 1024.0), (1200.0, 1600.0, 1.0), (1152.0, 1536.0, 512.0), (-0.0, 0.0, -0.0)]), dtype=float)
    elif s < 0.93:
        v = np.array(rng.choice([(np.inf, 0, 0), (1, -np.inf, 2), (np.nan, 1, 1), (1e308, 1e308, 0), (5e-324, 0, 0), (1e-310, -1e-315, 0)]), dtype=float)
    else:
        v = np.array([rng.choice([True, False, 3, -2, 7]) for _ in range(3)], dtype=object)
    form = rng.choice(["array", "list", "tuple", "ints" if s >= 0.93 else "array"])
    if s >= 0.93:
        val = [x for x in v]
        fv = np.array(val, dtype=float)
    else:
        fv = np.asarray(v, dtype=float)
        val = fv.copy() if form == "array" else (fv.tolist() if form == "list" else tuple(fv.tolist()))
    return val, "V " + " ".join(bits(x) for x in fv)


def read_state(obj):
    def one(a):
        return "N" if a is None else " ".join(bits(x) for x in np.asarray(a, dtype=float))
    return f"{one(obj.polarization)} {one(obj.magnetization)}"


def attempt(fn, strict):
    """run fn(); returns (outcome string, result)"""
    from magpylib._src.exceptions import MagpylibBadUserInput, MagpylibDeprecationWarning

    with warnings.catch_warnings(record=True) as rec:
        warnings.simplefilter("always")
        if strict:  # the library's own warning category is escalated; numpy's floating-point RuntimeWarnings (overflow of the
            # product / quotient, which the model does not represent) stay warnings and are counted
            warnings.filterwarnings("error", category=MagpylibDeprecationWarning)
        try:
            res = fn()
        except MagpylibBadUserInput:
            return "err:BadUserInput", None
        except MagpylibDeprecationWarning:
            return "warned-raised", None
        except ValueError:
            return "err:ValueError", None
        except Exception as e:  # noqa: BLE001 — any other exception type is itself a disagreement
            return f"EXC:{type(e).__name__}", None
    low = [w for w in rec if issubclass(w.category, MagpylibDeprecationWarning)]
    NUMPY_WARNINGS[0] += sum(issubclass(w.category, RuntimeWarning) for w in rec)
    other = [w for w in rec if not issubclass(w.category, (MagpylibDeprecationWarning, RuntimeWarning))]
    if other:
        return f"OTHER-WARNING:{other[0].category.__name__}", res
    return ("warned" if low else "ok"), res


def real_history(h):
    import magpylib as magpy

    cls = getattr(magpy.magnet, h["cls"])
    strict = h["strict"]
    kw = dict(h["geom"])
    if h["ctor"][0][1] != "N" or h["pass_none"]:
        kw["magnetization"] = h["ctor"][0][0]
    if h["ctor"][1][1] != "N" or h["pass_none"]:
        kw["polarization"] = h["ctor"][1][0]
    o, obj = attempt(lambda: cls(**kw), strict)
    if obj is None:
        return "ctor " + ("err:WarningAsError" if o == "warned-raised" else o)
    parts = [f"ctor {o} {read_state(obj)}"]
    for attr, (val, _) in h["ops"]:
        def assign(attr=attr, val=val):
            setattr(obj, "polarization" if attr == "P" else "magnetization", val)
            return True
        o, _ = attempt(assign, strict)
        parts.append(f"{'warned' if o == 'warned-raised' else o} {read_state(obj)}")
    return " ; ".join(parts)


def model_line(h):
    ops = " ".join(f"{a} {m}" for a, (_, m) in h["ops"])
    return f"exc hist {int(h['strict'])} {h['ctor'][0][1]} {h['ctor'][1][1]} {len(h['ops'])} {ops}".rstrip()


def gen_history(rng):
    nps = np.random.default_rng(rng.randrange(2**31))
    cls = CLASSES[rng.randrange(len(CLASSES))]
    k = rng.random()
    none = (None, "N")
    if k < 0.3:
        ctor = (none, gen_value(rng, nps))
    elif k < 0.6:
        ctor = (gen_value(rng, nps), none)
    elif k < 0.75:
        ctor = (none, none)
    else:
        ctor = (gen_value(rng, nps), gen_value(rng, nps))
    ops = [(rng.choice("PM"), gen_value(rng, nps)) for _ in range(rng.choice([0, 1, 2, 3, 4, 6, 8]))]
    return {"cls": cls, "geom": geometry(cls, rng), "strict": rng.random() < 0.5, "ctor": ctor, "ops": ops, "pass_none": rng.random() < 0.5}


def observed():
    """re-evaluated on every run, reported, not an obligation: with numpy's floating-point warnings escalated as well
    (`python -W error`), an assignment whose conversion overflows raises AFTER the first attribute was written and BEFORE the
    partner is — the pair is then out of sync (the model has no IEEE exception flags)"""
    import magpylib as magpy

    c = magpy.magnet.Cuboid(polarization=(0, 0, 1), dimension=(1, 1, 1))
    with warnings.catch_warnings():
        warnings.simplefilter("error")
        try:
            c.polarization = (1e308, 0, 0)
            raised = None
        except Exception as e:  # noqa: BLE001
            raised = type(e).__name__
    return {"case": "Cuboid(polarization=(0,0,1)); under warnings.simplefilter('error'): c.polarization = (1e308, 0, 0)", "raised": raised,
            "polarization": np.asarray(c.polarization).tolist(), "magnetization": np.asarray(c.magnetization).tolist(),
            "pair_out_of_sync": bool(raised) and not np.allclose(c.polarization, magpy.mu_0 * np.asarray(c.magnetization), rtol=1e-8)}


def run_stream(ctx, n):
    import math

    hs = [gen_history(ctx.rng) for _ in range(n)]
    lines = ["exc const"] + [model_line(h) for h in hs]
    out = run_driver(lines)
    stats = {"histories": 0, "ops": 0, "disagreements": 0, "outcomes": {}, "ctor_outcomes": {}, "per_class": {}, "strict_histories": 0,
             "states_compared": 0, "vector_states_bit_identical": 0}
    # the constant: driver evaluation of the regenerated expression = Python's value of the source expression = 4*pi*1e-7
    want = bits(4 * np.pi * 1e-7)
    gen_txt = open(__import__("os").path.join(__import__("vlib.core", fromlist=["LEAN"]).LEAN, "MagpyVerif", "Gen", "ExcSync.lean")).read()
    gbits = re.findall(r"def (?:magToPolBits|polToMagBits) : UInt64 := (\d+)", gen_txt)
    c = out[0].split()
    stats["setter_constant_bits"] = c[0]
    stats["exported_mu0_bits"] = c[2]
    import magpylib

    if not (len(c) == 3 and c[0] == c[1] == want and gbits == [want, want] and c[2] == bits(magpylib.mu_0)):
        stats["disagreements"] += 1
        ctx.broken.append({"kind": "correspondence", "name": "exc:const", "detail": {"driver": out[0], "python_4pi1e-7": want, "gen_bits": gbits,
                                                                                     "exported": bits(magpylib.mu_0)}})
    stats["constants_differ_rel"] = abs(4 * math.pi * 1e-7 - float(magpylib.mu_0)) / float(magpylib.mu_0)
    samples = []
    for h, m in zip(hs, out[1:]):
        r = real_history(h)
        stats["histories"] += 1
        stats["strict_histories"] += h["strict"]
        stats["per_class"][h["cls"]] = stats["per_class"].get(h["cls"], 0) + 1
        rparts = r.split(" ; ")
        stats["ctor_outcomes"][rparts[0].split(" ")[1]] = stats["ctor_outcomes"].get(rparts[0].split(" ")[1], 0) + 1
        if len(rparts) > 1:
            stats["ops"] += len(rparts) - 1
            for p in rparts[1:]:
                o = p.split(" ")[0]
                stats["outcomes"][o] = stats["outcomes"].get(o, 0) + 1
        for p in rparts:
            t = p.split(" ")
            if len(t) > 2:
                stats["states_compared"] += 1
                stats["vector_states_bit_identical"] += len(t) - (2 if t[0] == "ctor" else 1) == 6
        if canon(r) != canon(m):
            stats["disagreements"] += 1
            if stats["disagreements"] <= 3:
                ctx.broken.append({"kind": "correspondence", "name": "exc:history",
                                   "detail": {"class": h["cls"], "geometry": {k: str(v) for k, v in h["geom"].items()}, "strict": h["strict"],
                                              "constructor": [repr(h["ctor"][0][0]), repr(h["ctor"][1][0])],
                                              "ops": [(a, repr(v)) for a, (v, _) in h["ops"]], "model": m[:800], "real": r[:800]}})
        elif len(samples) < 2 and len(r) < 500 and len(rparts) > 2:
            samples.append({"class": h["cls"], "line": model_line(h)[:300], "real": r})
    stats["numpy_runtime_warnings_seen"] = NUMPY_WARNINGS[0]
    stats["observed_not_modelled"] = observed()
    stats["samples"] = samples
    return stats
