"""rows of the `kern` stream for kind `exccancel` (C05 / C02, added by c05wrap): the excitation masks of the BHJM wrappers.

One generated case = ONE call of the real wrapper on a batch of six rows that share geometry and observer and differ in the
excitation only:

    [ p,  -p,  p * 0.0  (zeros with the signs of p: +0.0 and -0.0),  q,  a*p + b*q,  p + (-p)  (exactly +0.0) ]

`p` and `q` are drawn with a zero pattern: no component zero / exactly one / exactly two / all three components exactly 0
(`q` may cancel the transversal or the axial part of `p`).  Scalar excitations (Circle, Polyline current): c, -c, c*0.0, c2, a*c + b*c2, 0.0.
Every row of the batch result is compared with the Lean port evaluated on that row alone (`kern dipole|dipole0|sphere|cuboid|triangle|tetra|circle|cylinder|cylseg`,
`poly seg` = `Kern.bhjmSegment`, `trimesh batch` = `Kern.bhjmTrimesh`), tolerances as in the base kinds.  So the stream contains, for every wrapper kind, rows
that run through the `pol == 0` mask (Cuboid, Cylinder), through the transversal-only / axial-only masks of the Cylinder, and p / -p in one batch.
On the real results the linearity residual  |F(a p + b q) - a F(p) - b F(q)|, the antisymmetry residual |F(p) + F(-p)| and the exactness of F(0) = 0
are measured and reported (statistics; rows where the kernel is singular are not judged)."""
import numpy as np

from . import cylseg_rows

WRAPPERS = ["dipole", "dipole0", "sphere", "cuboid", "triangle", "tetra", "trimesh", "circle", "polyline", "cylinder", "cylseg"]
PATTERNS = ["full", "one0", "two0", "all0"]


def zero_pattern(rng, nps, pattern, scale=1.0):
    v = nps.uniform(0.1, 1, 3) * np.array([rng.choice([-1.0, 1.0]) for _ in range(3)]) * scale
    idx = list(range(3))
    rng.shuffle(idx)
    for i in idx[: {"full": 0, "one0": 1, "two0": 2, "all0": 3}[pattern]]:
        v[i] = 0.0
    return v


def excitations(rng, nps, scale=1.0):
    """six excitation vectors and the description of how they were made"""
    pp, pq = rng.choice(PATTERNS[:3] + ["one0", "two0"]), rng.choice(PATTERNS)
    p = zero_pattern(rng, nps, pp, scale)
    q = zero_pattern(rng, nps, pq, scale)
    k = rng.random()
    rel = "independent"
    if k < 0.25:  # q cancels the transversal part of p
        q = np.array([-p[0], -p[1], q[2]])
        rel = "tv-cancel"
    elif k < 0.5:  # q cancels the axial part of p
        q = np.array([q[0], q[1], -p[2]])
        rel = "ax-cancel"
    a, b = (1.0, 1.0) if rel != "independent" else (float(rng.choice([2.0, -1.5, 0.5, 1.0])), float(rng.choice([3.0, -0.25, 1.0, -1.0])))
    rows = np.array([p, -p, p * 0.0, q, a * p + b * q, p + (-p)])
    return rows, a, b, {"p": pp, "q": pq, "rel": rel}


def scalar_excitations(rng, nps):
    c, c2 = float(nps.uniform(0.1, 3) * rng.choice([-1, 1])), float(nps.uniform(0.1, 3) * rng.choice([-1, 1]))
    if rng.random() < 0.3:
        c2 = -c
    a, b = float(rng.choice([2.0, -1.5, 1.0])), float(rng.choice([3.0, 1.0, -1.0]))
    return np.array([c, -c, c * 0.0, c2, a * c + b * c2, 0.0]), a, b, {"p": "scalar", "q": "scalar", "rel": "cancel" if c2 == -c else "independent"}


def case(rng, nps, wrapper, mu_0, bits, enc, stratified_point, cylinder_case):
    """-> list of (line, expect, meta), one per row (one entry holding all rows for `trimesh`), and the real batch result with its
    excitations for the residual statistics"""
    from magpylib._src.fields.field_BH_circle import BHJM_circle
    from magpylib._src.fields.field_BH_cuboid import BHJM_magnet_cuboid
    from magpylib._src.fields.field_BH_cylinder import BHJM_magnet_cylinder
    from magpylib._src.fields.field_BH_cylinder_segment import BHJM_cylinder_segment
    from magpylib._src.fields.field_BH_dipole import BHJM_dipole
    from magpylib._src.fields.field_BH_polyline import BHJM_current_polyline
    from magpylib._src.fields.field_BH_sphere import BHJM_magnet_sphere
    from magpylib._src.fields.field_BH_tetrahedron import BHJM_magnet_tetrahedron
    from magpylib._src.fields.field_BH_triangle import BHJM_triangle
    from magpylib._src.fields.field_BH_triangularmesh import BHJM_magnet_trimesh, mask_inside_trimesh

    sc = 10.0 ** nps.uniform(-2, 2)
    f = rng.choice("BBHHJM")
    fsc = 1 if f in "BJ" else 1 / mu_0
    tol = None
    stratum = ""
    if wrapper in ("circle", "polyline"):
        E, a, b, how = scalar_excitations(rng, nps)
    else:
        E, a, b, how = excitations(rng, nps, sc**3 if wrapper.startswith("dipole") else 1.0)
    n = len(E)
    escale = float(np.max(np.abs(E))) + 1e-300

    def tile(v):
        return np.tile(np.asarray(v, dtype=float)[None], (n,) + (1,) * np.ndim(v))

    with np.errstate(all="ignore"):
        if wrapper == "dipole":
            x = nps.uniform(-2, 2, 3) * sc
            real = BHJM_dipole(f, tile(x), E.copy())
            lines = [f"kern dipole {f} {enc(e)} {enc(x)}" for e in E]
            scale = (mu_0 if f == "B" else 1.0) * escale / np.linalg.norm(x) ** 3
        elif wrapper == "dipole0":  # observer AT the dipole position: the `r == 0` row, +inf / -inf / 0 per component (Kern.bhjmDipoleAtPosition)
            real = BHJM_dipole(f, np.zeros((n, 3)), E.copy())
            lines = [f"kern dipole0 {f} {enc(e)}" for e in E]
            scale = 1.0
            stratum = "at-position"
        elif wrapper == "sphere":
            d = nps.uniform(0.5, 2) * sc
            x = stratified_point(rng, nps, d / 2)
            real = BHJM_magnet_sphere(f, tile(x), np.full(n, d), E.copy())
            lines = [f"kern sphere {f} {bits(d)} {enc(e)} {enc(x)}" for e in E]
            scale = escale * fsc
        elif wrapper == "cuboid":
            dim = nps.uniform(0.5, 2, 3) * sc
            if rng.random() < 0.1:
                dim[rng.randrange(3)] = 0.0  # zero-dimension mask
                stratum = "dim0"
            x = stratified_point(rng, nps, np.where(dim > 0, dim, sc) / 2)
            real = BHJM_magnet_cuboid(f, tile(x), tile(dim), E.copy())
            lines = [f"kern cuboid {f} {enc(dim)} {enc(e)} {enc(x)}" for e in E]
            scale = escale * fsc
        elif wrapper == "triangle":
            v = nps.uniform(-1, 1, (3, 3)) * sc
            x = v.mean(axis=0) + nps.uniform(-1, 1, 3) * sc * 10 ** nps.uniform(-1, 1)
            real = BHJM_triangle(f, tile(x), tile(v), E.copy())
            lines = [f"kern triangle {f} {enc(v)} {enc(e)} {enc(x)}" for e in E]
            scale = escale * fsc
            tol = 1e-12
        elif wrapper in ("tetra", "trimesh"):
            while True:
                v = nps.uniform(-1, 1, (4, 3)) * sc
                if abs(np.linalg.det(v[1:] - v[0])) / sc**3 > 0.05:
                    break
            w = nps.dirichlet([1, 1, 1, 1]) if rng.random() < 0.5 else nps.uniform(-0.6, 1.2, 4)
            w = w / w.sum() if abs(w.sum()) > 0.2 else np.array([0.25] * 4)
            if min(abs(w).min(), abs(w - 1).min()) < 1e-3:
                w = np.array([0.1, 0.2, 0.3, 0.4])
            x = w @ v
            if wrapper == "tetra":
                real = BHJM_magnet_tetrahedron(f, tile(x), tile(v).copy(), E.copy())
                lines = [f"kern tetra {f} {enc(v)} {enc(e)} {enc(x)}" for e in E]
                tol = 1e-12
            else:
                if np.linalg.det(v[1:] - v[0]) < 0:
                    v = v[[0, 1, 3, 2]]
                faces = np.array([v[[0, 2, 1]], v[[0, 1, 3]], v[[1, 2, 3]], v[[0, 3, 2]]])  # outward
                real = np.asarray(BHJM_magnet_trimesh(f, tile(x), tile(faces), E.copy()), dtype=float)
                ins = int(bool(mask_inside_trimesh(x[None].copy(), faces.copy())[0]))
                rows = " ".join(f"0 4 {enc(faces)} {enc(x)} {enc(e)}" for e in E)
                lines = [f"trimesh batch {f} {n} 1 {rows} " + " ".join([str(ins)] * n)]
                tol = 1e-7
            scale = escale * fsc
        elif wrapper == "circle":
            d = nps.uniform(0.5, 2) * sc * rng.choice([1, 1, 1, -1])
            r0 = abs(d) / 2
            k = rng.random()
            if k < 0.2:
                x = np.array([0.0, 0.0, nps.uniform(-3, 3) * r0])
                stratum = "axis"
            elif k < 0.3:
                x = np.array([r0, 0.0, 0.0])
                stratum = "wire"
            else:
                x = nps.uniform(-1, 1, 3) * r0 * 10 ** nps.uniform(-1, 1)
            real = BHJM_circle(f, tile(x), np.full(n, d), E.copy())
            lines = [f"kern circle {f} {bits(d)} {bits(e)} {enc(x)}" for e in E]
            scale = escale / (2 * r0) * (mu_0 if f == "B" else 1) * 1e-3
        elif wrapper == "polyline":
            p1, p2 = nps.uniform(-1, 1, 3) * sc, nps.uniform(-1, 1, 3) * sc
            k = rng.random()
            off = nps.uniform(-1, 1, 3) * sc * 10 ** nps.uniform(-2, 1)
            if k < 0.1:
                p2 = p1.copy()  # mask_equal
                stratum = "zero-length"
            if k > 0.9:
                p1, p2, off = np.array([0.0, 0.0, 0.0]), np.array([sc, 0.0, 0.0]), np.zeros(3)  # observer on the carrier line: mask1
                stratum = "on-line"
            po = p1 + nps.uniform(-2, 3) * (p2 - p1) + off
            real = BHJM_current_polyline(f, tile(po), tile(p1), tile(p2), E.copy())
            lines = [f"poly seg {f} {bits(e)} {enc(p1)} {enc(p2)} {enc(po)}" for e in E]
            scale = escale * (mu_0 if f == "B" else 1) / (4 * np.pi * max(np.linalg.norm(off), 1e-300))
        elif wrapper == "cylinder":
            d, h, x, stratum = cylinder_case(rng, nps, sc)
            lines = [f"kern cylinder {f} {bits(d)} {bits(h)} {enc(e)} {enc(x)}" for e in E]
            try:
                real = BHJM_magnet_cylinder(f, tile(x), tile([d, h]), E.copy())
            except RuntimeError:
                real = None
            scale = escale * fsc
            tol = 1e-9
        else:  # cylseg: the function below 360 degrees
            k = cylseg_rows.fewbits(nps.uniform(0.05, 0.2) * sc)
            r2 = 5.0 * k
            r1 = rng.choice([0.0, 5.0 * cylseg_rows.fewbits(k * nps.uniform(0.1, 0.9))])
            r1 = 0.0 if r1 >= r2 else r1
            h = float(nps.uniform(0.2, 3) * r2)
            p1 = float(rng.choice([nps.uniform(-360, 300), -90.0, 0.0, 630.0]))
            p2 = float(p1 + rng.choice([nps.uniform(10, 350), 90.0, 180.0]))
            mid = np.deg2rad(p1 + (p2 - p1) * nps.uniform(0.05, 0.95))
            stratum = rng.choice(["inside", "inside", "outer", "above", "far", "surf_z", "generic"])
            rin, zin = r1 + (r2 - r1) * nps.uniform(0.05, 0.95), h / 2 * nps.uniform(-0.95, 0.95)
            x = {"inside": (rin * np.cos(mid), rin * np.sin(mid), zin),
                 "outer": (r2 * 2 * np.cos(mid), r2 * 2 * np.sin(mid), zin),
                 "above": (rin * np.cos(mid), rin * np.sin(mid), h * nps.uniform(0.6, 2)),
                 "far": tuple(nps.uniform(-1, 1, 3) * max(r2, h) * 10 ** nps.uniform(0.5, 1.5)),
                 "surf_z": (rin * np.cos(mid), rin * np.sin(mid), h / 2),
                 "generic": (*(nps.uniform(-2, 2, 2) * r2), nps.uniform(-1.5, 1.5) * h)}[stratum]
            x = np.asarray(x, dtype=float)
            dim = np.array([r1, r2, h, p1, p2])
            lines = [f"kern cylseg raw {f} {enc(x)} {enc(dim)} {enc(e)}" for e in E]
            try:
                with cylseg_rows.alarm(60):
                    real = BHJM_cylinder_segment(field=f, observers=tile(x), dimension=tile(dim), polarization=E.copy())
            except (cylseg_rows.Hang, RuntimeError, ValueError):
                real = None
            scale = escale * fsc
    base = {"kind": "exccancel", "wrapper": wrapper, "field": f, "how": how, "stratum": stratum}
    if tol is not None:
        base["tol"] = tol
    out = []
    if real is None:  # the real call raised / hung: not judged (never on purpose)
        return [], None
    real = np.asarray(real, dtype=float)
    if wrapper == "trimesh":
        out.append((lines[0], ("vec", real.ravel(), scale + 1e-300), {**base, "rows": n, "line": lines[0][:80]}))
    else:
        for j, ln in enumerate(lines):
            m = {**base, "row": j, "line": ln[:80]}
            if wrapper == "cylseg":  # NaN rows of the real code are `none` in the model: the cylseg branch of the comparison handles them
                m["kind"] = "cylseg"
                m["exccancel"] = True
                m["stratum"] = f"exccancel obs:{stratum}"
            out.append((ln, ("vec", real[j], scale + 1e-300), m))
    return out, (real, E, a, b, scale)


def residuals(real, E, a, b, scale):
    """on the real batch result: linearity, antisymmetry, F(0) == 0 (relative to the larger of the field values and `scale`)"""
    if not np.all(np.isfinite(real)):
        return None
    ref = max(float(np.max(np.abs(real))), float(scale))
    lin = float(np.max(np.abs(real[4] - a * real[0] - b * real[3]))) / ref
    anti = float(np.max(np.abs(real[0] + real[1]))) / ref
    zero_exact = bool(np.all(real[2] == 0) and np.all(real[5] == 0))
    return lin, anti, zero_exact
