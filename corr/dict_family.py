"""correspondence stream `dict` (C07): the functional interface getBH_dict_level2 — reached through the public
magpylib.getB / getH("ClassName", observers, **kwargs) — against Model/DictIface.lean (driver family `dict`).

Nothing in /repo is instrumented.  The field function is replaced FROM THE OUTSIDE for the duration of one call:

* marshal rows, real classes: for every class of `get_registered_sources()` in turn the class attribute `_field_func`
  (the thing `getBH_dict_level2` looks up as `source_classes[source_type]._field_func`) is temporarily set by the
  harness to a recording integer-affine function and restored in a `finally`; the class's own
  `_field_func_kwargs_ndim` is used by the real code, the regenerated `Gen/Ndim.lean` table by the model;
* marshal rows, test class: a subclass `VerifAffine(BaseSource)` defined in the harness is picked up by the registry
  (`get_registered_sources` walks `BaseSource.__subclasses__()`), with a random rank table (ranks 1..4) per case; it is
  deleted (and the registry checked) at the end of the stream;
* smoke rows: the UNPATCHED classes with physically valid values (oracles.sources), single values / stacks of the
  right rank only: accept / error kind / n / output shape.

Compared exactly per marshal row: the error kind (MagpylibBadUserInput / IndexError / ValueError, any other exception
is a disagreement), or: n = number of rows the field function received; for every keyword argument in call order the
array the field function received (object-array or float64, shape, flat integer data; ragged: every row); the
observers it received (source-frame, n×3 integers); the output shape (squeeze True / False) and the output values
(= back-rotated `A·x_loc + b + Σ_k (k+1)·w(arg_k[i])`, so a wrong row of a wrong argument changes the value).
Harness-side checks on the same calls: the field function is called exactly once, float arrays are float64, `in_out`
reaches the field function iff it declares that parameter, caller-owned input arrays are unchanged.
Exact integer data, octahedral rotations, integer positions."""
import contextlib
import gc

import numpy as np

from vlib.driver import run_driver
from vlib.octa import OCTA, fmt_mat, fmt_vec, rot_from

ID = next(i for i, m in enumerate(OCTA) if (m == np.eye(3, dtype=int)).all())
TEST_KEYS = [("s0", 1), ("s1", 1), ("v1", 2), ("w1", 2), ("m2", 3), ("t3", 4)]


def rvec(rng, a=4):
    return [rng.randint(-a, a) for _ in range(3)]


def rarr(rng, shape):
    n = int(np.prod(shape)) if shape else 1
    return {"shape": list(shape), "data": [rng.randint(-3, 3) for _ in range(n)]}


def tail_dims(rng, k):
    return [rng.choice([1, 2, 2, 3, 3]) for _ in range(k)]


def gen_val(rng, e, n0, n1):
    """one keyword value for a parameter whose table entry is e"""
    r = rng.random()
    if r < 0.02:
        return {"k": "none"}
    if r < 0.035:
        return {"k": "empty"}
    if r < 0.05:
        return {"k": "zerodim", "x": rng.randint(-3, 3)}
    if r < 0.35:  # one value
        if e == 1:
            return {"k": "num", "x": rng.randint(-3, 3), "py": rng.choice(["int", "float", "np"])}
        return {"k": "arr", **rarr(rng, tail_dims(rng, e - 1))}
    if r < 0.72:  # a stack
        L = rng.choice([n0, n0, n0, n0, 1, 1, n1])
        return {"k": "arr", **rarr(rng, [L] + tail_dims(rng, e - 1))}
    if r < 0.80 and e >= 2:  # rank too low
        d = rng.randrange(0, e - 1)
        if d == 0:
            return {"k": "num", "x": rng.randint(-3, 3), "py": rng.choice(["int", "float", "np"])}
        return {"k": "arr", **rarr(rng, tail_dims(rng, d))}
    if r < 0.88:  # rank too high
        d = e + rng.choice([1, 1, 2])
        return {"k": "arr", **rarr(rng, [rng.choice([1, n0, 2])] + tail_dims(rng, d - 1))}
    # a Python list of arrays
    L = rng.choice([n0, n0, 2, 3, n1])
    rank = max(1, e - 1)
    t = rng.random()
    if t < 0.6 and L >= 2:  # ragged: top-level lengths differ
        tl = tail_dims(rng, rank - 1)
        lens = [rng.choice([1, 2, 3, 4]) for _ in range(L)]
        if len(set(lens)) == 1:
            lens[-1] = lens[0] + 1
        return {"k": "seq", "rows": [rarr(rng, [a] + tl) for a in lens]}
    if t < 0.8 and rank >= 2 and L >= 2:  # equal lengths, different deeper shapes
        a = rng.choice([1, 2, 3])
        rows = [rarr(rng, [a] + tail_dims(rng, rank - 1)) for _ in range(L)]
        if len({tuple(x["shape"]) for x in rows}) == 1:
            rows[-1] = rarr(rng, [a] + [d + 1 for d in rows[0]["shape"][1:]])
        return {"k": "seq", "rows": rows}
    sh = tail_dims(rng, rank)
    return {"k": "seq", "rows": [rarr(rng, sh) for _ in range(L)]}


def gen_given(rng, n0, n1, elem, allow_default=True):
    r = rng.random()
    if allow_default and r < 0.2:
        return {"g": "default"}
    if r < 0.5:
        return {"g": "single", "v": elem()}
    L = rng.choice([n0, n0, n0, n0, 1, 1, n1])
    return {"g": "stack", "vs": [elem() for _ in range(L)]}


def gen_case(rng, idx, real_tables):
    """real_tables: [(class name, {key: rank})] of the real registry (without the test class)"""
    r = rng.random()
    if r < 0.03:
        cls, table, kind = "NoSuchClass", {}, "unknown"
    elif idx % 2 == 0:
        cls, table = real_tables[(idx // 2) % len(real_tables)]
        kind = "real"
    else:
        keys = [kv for kv in TEST_KEYS if rng.random() < 0.6]
        rng.shuffle(keys)
        cls, table, kind = "VerifAffine", dict(keys), "test"
    n0 = rng.choice([1, 2, 2, 3, 4])
    n1 = rng.choice([x for x in (2, 3, 5) if x != n0]) if rng.random() < 0.25 else n0
    keys = [k for k in table if rng.random() < 0.8]
    if rng.random() < 0.1:
        keys.append("zz")  # a keyword that is in no table: expected rank 1
    rng.shuffle(keys)
    params = [(k, gen_val(rng, table.get(k, 1), n0, n1)) for k in keys]
    return {
        "cls": cls, "kind": kind, "table": sorted(table.items()) if kind == "test" else None,
        "params": params,
        "observers": gen_given(rng, n0, n1, lambda: rvec(rng), allow_default=False),
        "position": gen_given(rng, n0, n1, lambda: rvec(rng)),
        "orientation": gen_given(rng, n0, n1, lambda: rng.randrange(24)),
        "squeeze": rng.random() < 0.5,
        "field": rng.choice("BH"),
        "A": [[rng.randint(-2, 2) for _ in range(3)] for _ in range(3)], "b": rvec(rng),
        "in_out_param": rng.random() < 0.3, "in_out": rng.choice(["auto", "inside", "outside"]),
        "style": rng.randrange(3),
    }


# ---------------------------------------------------------------------------------------------- model line
def enc_arr(a):
    return f"{len(a['shape'])} {' '.join(map(str, a['shape']))} {len(a['data'])} {' '.join(map(str, a['data']))}".replace("  ", " ")


def enc_val(v):
    k = v["k"]
    if k == "num":
        return f"n {v['x']}"
    if k == "arr":
        return "a " + enc_arr(v)
    if k == "seq":
        return f"s {len(v['rows'])} " + " ".join(enc_arr(a) for a in v["rows"])
    if k == "none":
        return "N"
    return "E"


def enc_given(g, fmt, default):
    if g["g"] == "default":
        return "s " + fmt(default)
    if g["g"] == "single":
        return "s " + fmt(g["v"])
    return f"v {len(g['vs'])} " + " ".join(fmt(x) for x in g["vs"])


def model_line(c):
    if c["kind"] == "test":
        reg = f"T {len(c['table'])} " + " ".join(f"{k} {nd}" for k, nd in c["table"])
    else:
        reg = f"C {c['cls']}"
    ps = " ".join(f"{k} {enc_val(v)}" for k, v in c["params"])
    fm = lambda o: fmt_mat(OCTA[o])
    return (f"dict {reg} {int(c['squeeze'])} P {len(c['params'])} {ps} O {enc_given(c['observers'], fmt_vec, None)} "
            f"X {enc_given(c['position'], fmt_vec, [0, 0, 0])} R {enc_given(c['orientation'], fm, ID)} "
            f"F {fmt_mat(c['A'])} {fmt_vec(c['b'])}")


# ---------------------------------------------------------------------------------------------- real side
def param_vec(d):
    j = np.arange(1, len(d) + 1, dtype=float)
    return np.array([np.sum(j * d), np.sum(j * j * d), np.sum(d)])


def make_recorder(c, store):
    A, b = np.array(c["A"], float), np.array(c["b"], float)

    def body(observers, kw):
        store["calls"] = store.get("calls", 0) + 1
        store["obs"] = np.array(observers)
        store["kw"] = [(k, v) for k, v in kw.items()]
        out = observers @ A.T + b
        for k, (_, v) in enumerate(kw.items()):
            for i in range(len(observers)):
                if i < len(v):
                    out[i] += (k + 1) * param_vec(np.asarray(v[i], dtype=float).reshape(-1))
        return out

    if c["in_out_param"]:
        def ff(field, observers, in_out, **kw):
            store["in_out"] = in_out
            return body(observers, kw)
    else:
        def ff(field, observers, **kw):
            store["in_out"] = "in_out" in kw and "LEAKED"
            return body(observers, kw)
    return ff


def real_val(v, style):
    k = v["k"]
    if k == "num":
        return {"int": int, "float": float, "np": np.float64}[v["py"]](v["x"])
    if k == "none":
        return None
    if k == "empty":
        return []
    if k == "zerodim":
        return np.array(float(v["x"]))
    mk = lambda a: np.array(a["data"], dtype=[int, float, int][style]).reshape(a["shape"])
    if k == "arr":
        a = mk(v)
        return a.tolist() if style == 2 else a
    return [mk(a).tolist() if style == 2 else mk(a) for a in v["rows"]]


def real_given(g, style, conv):
    if g["g"] == "single":
        return conv(g["v"])
    return conv(g["vs"])


@contextlib.contextmanager
def swapped_field_func(cls, ff):
    had = "_field_func" in cls.__dict__
    old = cls.__dict__.get("_field_func")
    cls._field_func = staticmethod(ff)
    try:
        yield
    finally:
        if had:
            setattr(cls, "_field_func", old)
        else:
            delattr(cls, "_field_func")


def snap(a):
    a = np.asarray(a, dtype=float)
    r = np.rint(a)
    if a.size and np.max(np.abs(a - r)) > 1e-6:
        return None
    return r.astype(int)


def canon_arr(a):
    s = snap(a)
    if s is None:
        return "UNSNAPPABLE"
    return f"{s.ndim} {' '.join(map(str, s.shape))} {s.size} {' '.join(map(str, s.reshape(-1)))}".replace("  ", " ")


def real_line(c, registry, test_cls):
    """returns (canonical line, list of harness-side complaints, number of caller-owned arrays compared before/after)"""
    import magpylib as magpy
    from magpylib._src.exceptions import MagpylibBadUserInput

    store, notes = {"owned": 0}, []
    ff = make_recorder(c, store)
    kwargs = {k: real_val(v, c["style"]) for k, v in c["params"]}
    pose = {}
    conv = [lambda x: np.array(x, dtype=float), lambda x: x, lambda x: tuple(map(tuple, x)) if isinstance(x[0], list) else tuple(x)][c["style"]]
    obs = real_given(c["observers"], c["style"], conv)
    if c["position"]["g"] != "default":
        pose["position"] = real_given(c["position"], c["style"], conv)
    if c["orientation"]["g"] == "single":
        pose["orientation"] = rot_from(OCTA[c["orientation"]["v"]])
    elif c["orientation"]["g"] == "stack":
        pose["orientation"] = rot_from([OCTA[o] for o in c["orientation"]["vs"]])
    owned = [(k, v, v.copy()) for k, v in list(kwargs.items()) + [("observers", obs)] + list(pose.items()) if isinstance(v, np.ndarray)]
    get = magpy.getB if c["field"] == "B" else magpy.getH
    if c["kind"] == "test":
        test_cls._field_func_kwargs_ndim = dict(c["table"])
        test_cls._field_func = staticmethod(ff)
        cm = contextlib.nullcontext()
    elif c["kind"] == "real":
        cm = swapped_field_func(registry[c["cls"]], ff)
    else:
        cm = contextlib.nullcontext()
    try:
        with cm:
            B = get(c["cls"], obs, squeeze=c["squeeze"], in_out=c["in_out"], **pose, **kwargs)
    except MagpylibBadUserInput:
        return "err BadUserInput", notes, 0
    except IndexError:
        return "err IndexError", notes, 0
    except ValueError:
        return "err ValueError", notes, 0
    except Exception as e:  # any other exception type is itself a disagreement with the model
        return f"EXC {type(e).__name__}: {str(e)[:120]}", notes, 0
    if store.get("calls") != 1:
        notes.append(f"field function called {store.get('calls')} times")
        return "NOCALL", notes, 0
    want_io = c["in_out"] if c["in_out_param"] else False
    if store["in_out"] != want_io:
        notes.append(f"in_out received {store['in_out']!r}, expected {want_io!r}")
    store["owned"] = len(owned)
    for k, v, v0 in owned:
        if v.shape != v0.shape or not np.array_equal(v, v0):
            notes.append(f"caller-owned array {k} was modified")
    args = []
    for k, v in store["kw"]:
        if v.dtype == object:
            args.append(f"{k} O {len(v)} " + " ".join(canon_arr(x) for x in v))
        else:
            if v.dtype != np.float64:
                notes.append(f"argument {k} has dtype {v.dtype}")
            args.append(f"{k} F {canon_arr(v)}")
    lo = snap(store["obs"])
    B = np.asarray(B)
    out = snap(B)
    if lo is None or out is None:
        return "UNSNAPPABLE", notes, 0
    return (f"ok n {len(store['obs'])} shape {' '.join(map(str, B.shape))} | {' ; '.join(args)} | "
            f"{' '.join(fmt_vec(v) for v in lo.reshape(-1, 3))} | {' '.join(fmt_vec(v) for v in out.reshape(-1, 3))}"), notes, store["owned"]


# ---------------------------------------------------------------------------------------------- smoke rows
def gen_smoke(rng, idx):
    from oracles.sources import CLASSES
    cls = CLASSES[idx % len(CLASSES)]
    n0 = rng.choice([1, 2, 3])
    n1 = rng.choice([x for x in (2, 4) if x != n0]) if rng.random() < 0.25 else n0
    pick = lambda: rng.choice(["single", "single", "stack", "stack", "stack1", "other"])
    return {"cls": cls, "n0": n0, "n1": n1, "seed": rng.randrange(2**31), "squeeze": rng.random() < 0.5,
            "obs": pick(), "pos": pick(), "ori": pick(), "kinds": [pick() for _ in range(4)], "field": rng.choice("BHJM")}


def smoke_lines(c):
    """(model line, real canonical head): shapes only, the model gets zero data of the real shapes"""
    import warnings

    import magpylib as magpy
    from magpylib._src.exceptions import MagpylibBadUserInput
    from scipy.spatial.transform import Rotation as R

    from oracles.c07 import dict_kwargs
    from oracles.sources import far_points, make

    nps = np.random.default_rng(c["seed"])
    with warnings.catch_warnings():
        warnings.simplefilter("ignore")
        src = make(c["cls"], nps)
    L = lambda kind: {"stack": c["n0"], "stack1": 1, "other": c["n1"]}.get(kind)
    kwargs, ps = {}, []
    for (k, v), kind in zip(sorted(dict_kwargs(c["cls"], src).items()), c["kinds"]):
        v = np.array(v, dtype=float)
        if L(kind) is not None:
            v = np.array([v] * L(kind))
        kwargs[k] = float(v) if v.ndim == 0 else v  # a 0-d ndarray is the IndexError row of the marshal stream
        ps.append((k, {"k": "num", "x": 0} if v.ndim == 0 else {"k": "arr", "shape": list(v.shape), "data": [0] * v.size}))

    def g(kind, one, many):
        if L(kind) is None:
            return one(), {"g": "single", "v": [0, 0, 0]}
        return many(L(kind)), {"g": "stack", "vs": [[0, 0, 0]] * L(kind)}

    obs, mo = g(c["obs"], lambda: far_points(nps, 1, lo=4, hi=8)[0], lambda n: far_points(nps, n, lo=4, hi=8))
    pos, mp = g(c["pos"], lambda: nps.uniform(-1, 1, 3), lambda n: nps.uniform(-1, 1, (n, 3)))
    ori, mr = g(c["ori"], lambda: R.random(rng=nps), lambda n: R.random(n, rng=nps))
    if mr["g"] == "single":
        mr = {"g": "single", "v": ID}
    else:
        mr = {"g": "stack", "vs": [ID] * len(mr["vs"])}
    mc = {"kind": "real", "cls": c["cls"], "params": ps, "observers": mo, "position": mp, "orientation": mr,
          "squeeze": c["squeeze"], "A": np.eye(3, dtype=int).tolist(), "b": [0, 0, 0]}
    try:
        with warnings.catch_warnings():
            warnings.simplefilter("ignore")
            B = getattr(magpy, "get" + c["field"])(c["cls"], obs, position=pos, orientation=ori, squeeze=c["squeeze"], **kwargs)
        real = f"ok shape {' '.join(map(str, np.shape(B)))}"
        if not np.all(np.isfinite(B)):
            real += " NONFINITE"
    except MagpylibBadUserInput:
        real = "err BadUserInput"
    except Exception as e:
        real = f"EXC {type(e).__name__}: {str(e)[:120]}"
    return model_line(mc), real


def smoke_head(m):
    """`ok n 2 shape 2 3 | …` → `ok shape 2 3`"""
    if not m.startswith("ok n "):
        return m
    head = m.split(" | ")[0].split(" ")
    return "ok " + " ".join(head[3:])


# ---------------------------------------------------------------------------------------------- stream
def run_stream(ctx, n_cases, n_smoke=None):
    from magpylib._src.obj_classes.class_BaseExcitations import BaseSource
    from magpylib._src.utility import get_registered_sources

    n_smoke = n_cases // 4 if n_smoke is None else n_smoke
    stats = {"cases": 0, "rows_field_function": 0, "errors": {}, "by_kind": {}, "classes_covered": 0, "value_kinds": {}, "pose_kinds": {},
             "n_values": {}, "squeeze": 0, "ragged_passed": 0, "in_out_declared": 0, "owned_arrays_checked": 0,
             "disagreements": 0, "distinct_outputs": 0, "smoke_cases": 0, "smoke_errors": 0, "smoke_classes": 0}
    before = sorted(get_registered_sources())
    registry = dict(get_registered_sources())
    real_tables = [(k, dict(registry[k]._field_func_kwargs_ndim)) for k in before]

    test_cls = type("VerifAffine", (BaseSource,), {"_field_func": None, "_field_func_kwargs_ndim": {}})
    samples, seen, covered = [], set(), set()
    try:
        if "VerifAffine" not in get_registered_sources():
            ctx.broken.append({"kind": "correspondence", "name": "dict", "detail": "harness class not picked up by get_registered_sources"})
        cases = [gen_case(ctx.rng, i, real_tables) for i in range(n_cases)]
        ml = run_driver([model_line(c) for c in cases])
        for c, m in zip(cases, ml):
            r, notes, nown = real_line(c, registry, test_cls)
            stats["owned_arrays_checked"] += nown
            r, m = " ".join(r.split()), " ".join(m.split())
            stats["cases"] += 1
            stats["by_kind"][c["kind"]] = stats["by_kind"].get(c["kind"], 0) + 1
            for _, v in c["params"]:
                stats["value_kinds"][v["k"]] = stats["value_kinds"].get(v["k"], 0) + 1
            for key in ("observers", "position", "orientation"):
                lab = c[key]["g"] + ("1" if c[key]["g"] == "stack" and len(c[key]["vs"]) == 1 else "")
                stats["pose_kinds"][lab] = stats["pose_kinds"].get(lab, 0) + 1
            stats["squeeze"] += c["squeeze"]
            if r.startswith("err"):
                stats["errors"][r] = stats["errors"].get(r, 0) + 1
            elif r.startswith("ok n "):
                n = r.split(" ")[2]
                stats["n_values"][n] = stats["n_values"].get(n, 0) + 1
                stats["rows_field_function"] += int(n)
                stats["ragged_passed"] += " O " in r.split(" | ")[1]
                stats["in_out_declared"] += c["in_out_param"]
                if c["kind"] == "real":
                    covered.add(c["cls"])
            seen.add(r)
            if r != m or notes:
                stats["disagreements"] += 1
                ctx.broken.append({"kind": "correspondence", "name": "dict", "detail": {"case": c, "model": m[:700], "real": r[:700], "notes": notes}})
                if stats["disagreements"] >= 3:
                    break
            elif len(samples) < 2 and len(r) < 300 and r.startswith("ok"):
                samples.append({"line": model_line(c), "output": r})
    finally:
        test_cls._field_func = None
        del test_cls
        gc.collect()
    after = sorted(get_registered_sources())
    if after != before:
        ctx.broken.append({"kind": "correspondence", "name": "dict", "detail": f"registry not restored: {after}"})
    stats["classes_covered"] = len(covered)
    stats["classes_registered"] = len(before)
    if stats["disagreements"] == 0 and n_cases >= 40 * len(before) and len(covered) != len(before):
        ctx.broken.append({"kind": "correspondence", "name": "dict", "detail": f"classes never reaching the field function: {sorted(set(before) - covered)}"})
    # smoke rows: the unpatched classes
    smoke = [gen_smoke(ctx.rng, i) for i in range(n_smoke)]
    pairs = [smoke_lines(c) for c in smoke]
    sm = run_driver([p[0] for p in pairs]) if pairs else []
    scl = set()
    for c, (_, real), m in zip(smoke, pairs, sm):
        stats["smoke_cases"] += 1
        stats["smoke_errors"] += real.startswith("err")
        scl.add(c["cls"])
        if smoke_head(m) != real:
            stats["disagreements"] += 1
            ctx.broken.append({"kind": "correspondence", "name": "dict-smoke", "detail": {"case": c, "model": m[:300], "real": real[:300]}})
            if stats["disagreements"] >= 3:
                break
    stats["smoke_classes"] = len(scl)
    stats["distinct_outputs"] = len(seen)
    stats["samples"] = samples
    return stats
