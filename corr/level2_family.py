"""correspondence stream `level2` (C03–C08): getB on real CustomSource objects whose field
functions are integer affine maps (shared function objects give multi-member groups), arbitrary
nesting in collections, duplicates, paths of different lengths, sensors with all pixel shapes /
handedness / static, translating and rotating paths, pixel_agg, sumup, squeeze — against
Model/Level2.lean.  Exact integer data, octahedral rotations; outputs compared exactly."""
import json

import numpy as np

from vlib.driver import run_driver
from vlib.octa import OCTA, fmt_mat, fmt_vec, rot_from

ID = next(i for i, m in enumerate(OCTA) if (m == np.eye(3, dtype=int)).all())


def rvec(rng, a=3):
    return [rng.randint(-a, a) for _ in range(3)]


def gen_path(rng, kind=None):
    n = rng.choice([1, 1, 2, 3, 4])
    kind = kind or rng.choice(["unit", "static", "rotating", "rotating"])
    pos = [rvec(rng, 5) for _ in range(n)]
    if kind == "unit":
        ori = [ID] * n
    elif kind == "static":
        ori = [rng.randrange(24)] * n
    else:
        ori = [rng.randrange(24) for _ in range(n)]
    return {"pos": pos, "ori": ori}


def gen_entry(rng, nf, depth, pool):
    r = rng.random()
    if pool and r < 0.12:
        return {"dup": rng.randrange(len(pool))}
    if depth > 0 and r < 0.45:
        return {"coll": [gen_entry(rng, nf, depth - 1, pool) for _ in range(rng.choice([1, 2, 3]))]}
    leaf = {"leaf": rng.randrange(nf), **gen_path(rng)}
    pool.append(leaf)
    return leaf


def gen_sensor(rng):
    s = gen_path(rng)
    k = rng.random()
    if k < 0.2:
        s["pixel"] = None
        s["shape"] = [1]
    elif k < 0.35:
        s["pixel"] = rvec(rng)
        s["shape"] = [1]
    elif k < 0.7:
        n = rng.choice([1, 2, 3])
        s["pixel"] = [rvec(rng) for _ in range(n)]
        s["shape"] = [n]
    else:
        n1, n2 = rng.choice([1, 2]), rng.choice([1, 2, 3])
        s["pixel"] = [[rvec(rng) for _ in range(n2)] for _ in range(n1)]
        s["shape"] = [n1, n2]
    s["left"] = rng.random() < 0.3
    return s


def gen_case(rng):
    nf = rng.choice([1, 2, 3])
    fs = [{"A": [[rng.randint(-2, 2) for _ in range(3)] for _ in range(3)], "b": rvec(rng)} for _ in range(nf)]
    pool = []
    entries = [gen_entry(rng, nf, 2, pool) for _ in range(rng.choice([1, 1, 2, 3, 4]))]
    nk = rng.choice([1, 1, 2, 3])
    sensors = [gen_sensor(rng) for _ in range(nk)]
    if rng.random() < 0.5 and nk > 1:  # force equal shapes half of the time
        for s in sensors[1:]:
            s["pixel"], s["shape"] = sensors[0]["pixel"], sensors[0]["shape"]
    agg = rng.choice(["none", "none", "sum", "min", "max"])
    # inputs the code must reject (C07/C17): no sources, no observers, a collection without sources
    r = rng.random()
    if r < 0.015:
        entries = []
    elif r < 0.03:
        sensors = []
    elif r < 0.06:
        entries.insert(rng.randrange(len(entries) + 1), rng.choice([{"coll": []}, {"coll": [{"coll": []}, {"coll": []}]}]))
    return {"fs": fs, "entries": entries, "sensors": sensors, "agg": agg, "sumup": rng.random() < 0.3,
            "squeeze": rng.random() < 0.5}



# --------------------------------------------------------------------------------------------------------------------
# c03post: what distinguishes the ORDER of the post-processing.  (a) a non-linear pixel_agg on a sensor that is rotated
# (some orientation of its path is not the unit rotation) or left-handed and has >= 2 distinct pixels: rotate/flip-then-
# aggregate (the code) differs from aggregate-then-rotate/flip; (b) an object (source leaf or sensor) whose own path has
# 2 <= len < longest path and whose pose at (m mod len) differs from its last pose for some m in [len, M): edge padding
# (the code) differs from cyclic tiling.
# --------------------------------------------------------------------------------------------------------------------
NONLINEAR = ("min", "max", "median", "std", "ptp")


def order_sensitive_sensors(c):
    out = 0
    for s in c["sensors"]:
        px = {tuple(v) for v in flat_pixels(s)}
        if len(px) >= 2 and (s["left"] or any(o != ID for o in s["ori"])):
            out += 1
    return out


def short_multi_step_objects(c):
    objs = leaves_in_order(c["entries"]) + list(c["sensors"])
    if not objs:
        return 0
    M = max(len(o["pos"]) for o in objs)
    out = 0
    for o in objs:
        n = len(o["pos"])
        if 2 <= n < M and any((o["pos"][m % n], o["ori"][m % n]) != (o["pos"][-1], o["ori"][-1]) for m in range(n, M)):
            out += 1
    return out


def force_order_sensitive(rng, c, aggs):
    """make the case sensitive to both orders: non-linear pixel_agg over a rotated / left-handed multi-pixel sensor, and
    an object with a multi-step path shorter than the longest one"""
    if not c["entries"] or not c["sensors"] or not leaves_in_order(c["entries"]):
        return c
    c["agg"] = rng.choice(aggs)
    s = rng.choice(c["sensors"])
    n = rng.choice([2, 3, 4])
    while True:
        px = [rvec(rng) for _ in range(n)]
        if len({tuple(v) for v in px}) >= 2:
            break
    s["pixel"], s["shape"] = px, [n]
    mode = rng.choice(["rot", "left", "both"])
    if mode in ("left", "both"):
        s["left"] = True
    if mode in ("rot", "both") and all(o == ID for o in s["ori"]):
        s["ori"] = [rng.choice([i for i in range(24) if i != ID]) for _ in s["ori"]]
    # one object with a 2- or 3-step path of distinct poses, another one with a longer path
    objs = leaves_in_order(c["entries"]) + list(c["sensors"])
    short = rng.choice(objs)
    n = rng.choice([2, 3])
    short["pos"] = [rvec(rng, 5) for _ in range(n)]
    short["ori"] = rng.sample(range(24), n)
    if short is s and mode in ("rot", "both") and all(o == ID for o in s["ori"]):
        s["ori"][0] = rng.choice([i for i in range(24) if i != ID])
    others = [o for o in objs if o is not short]
    if others:
        lng = rng.choice(others)
        m = n + rng.choice([1, 2])
        lng["pos"] = [rvec(rng, 5) for _ in range(m)]
        lng["ori"] = [rng.randrange(24) for _ in range(m)]
    return c


def flat_pixels(s):
    if s["pixel"] is None:
        return [[0, 0, 0]]
    a = np.array(s["pixel"]).reshape(-1, 3)
    return a.tolist()


def enc_path(p):
    return f"{len(p['pos'])} " + " ".join(fmt_vec(v) + " " + fmt_mat(OCTA[o]) for v, o in zip(p["pos"], p["ori"]))


def enc_entry(e, pool, tag="L"):
    if "dup" in e:
        return enc_entry(pool[e["dup"]], pool, tag)
    if "coll" in e:
        return f"C {len(e['coll'])} " + " ".join(enc_entry(c, pool, tag) for c in e["coll"])
    return f"{tag} {e['leaf']} {enc_path(e)}"


def leaves_in_order(entries):
    out = []

    def rec(e):
        if "coll" in e:
            for c in e["coll"]:
                rec(c)
        elif "leaf" in e:
            out.append(e)

    for e in entries:
        rec(e)
    return out


def model_line(c, df=False):
    pool = leaves_in_order(c["entries"])
    fs = " ".join(fmt_mat(f["A"]) + " " + fmt_vec(f["b"]) for f in c["fs"])
    es = " ".join(enc_entry(e, pool, c.get("tag", "L")) for e in c["entries"])
    ks = " ".join(
        f"{enc_path(s)} {int(s['left'])} {len(s['shape'])} {' '.join(map(str, s['shape']))} "
        f"{len(flat_pixels(s))} {' '.join(fmt_vec(v) for v in flat_pixels(s))}"
        for s in c["sensors"]
    )
    head = f"df {int(c['sumup'])}" if df else f"{int(c['sumup'])} {int(c['squeeze'])}"
    return (f"level2 {head} {c['agg']} F {len(c['fs'])} {fs} "
            f"S {len(c['entries'])} {es} K {len(c['sensors'])} {ks}")


def build_real(c):
    import magpylib as magpy

    funcs = []
    for f in c["fs"]:
        A, b = np.array(f["A"], float), np.array(f["b"], float)

        def ff(field, observers, A=A, b=b):
            return observers @ A.T + b

        funcs.append(ff)
    pool_objs = []

    def mk(e):
        if "dup" in e:
            return pool_objs[e["dup"]]
        if "coll" in e:
            return magpy.Collection(*[mk(x) for x in e["coll"]], override_parent=True)
        o = magpy.misc.CustomSource(field_func=funcs[e["leaf"]], position=e["pos"], orientation=rot_from([OCTA[i] for i in e["ori"]]))
        pool_objs.append(o)
        return o

    # `dup` indices refer to the pool in creation order = leaves_in_order
    entries = [mk(e) for e in c["entries"]]
    sensors = []
    for s in c["sensors"]:
        sensors.append(magpy.Sensor(position=s["pos"], orientation=rot_from([OCTA[i] for i in s["ori"]]),
                                    pixel=s["pixel"], handedness="left" if s["left"] else "right"))
    return entries, sensors


def real_line(c):
    import magpylib as magpy
    from magpylib._src.exceptions import MagpylibBadUserInput, MagpylibMissingInput

    entries, sensors = build_real(c)
    try:
        B = magpy.getB(entries, sensors, sumup=c["sumup"], squeeze=c["squeeze"],
                       pixel_agg=None if c["agg"] == "none" else c["agg"])
    except MagpylibBadUserInput:
        return "err BadUserInput"
    except MagpylibMissingInput:
        return "err MissingInput"
    except Exception as e:  # any other exception type is itself a disagreement with the model
        return f"EXC {type(e).__name__}: {str(e)[:120]}"
    B = np.asarray(B)
    r = np.rint(B)
    if np.max(np.abs(B - r)) > 1e-6:
        return "UNSNAPPABLE"
    return "ok shape " + " ".join(map(str, B.shape)) + " | " + " ".join(fmt_vec(v) for v in r.reshape(-1, 3))


def real_line_df(c):
    """output='dataframe' of the same call: index columns and values, one canonical string per row;
    returns (line, source labels by entry index, sensor labels by sensor index)"""
    import magpylib as magpy
    from magpylib._src.exceptions import MagpylibBadUserInput, MagpylibMissingInput

    entries, sensors = build_real(c)
    # half of the cases carry explicit labels, the other half the default `str(obj)`
    if c.get("labels", True):
        seen = {}
        for o in entries:
            if id(o) not in seen:
                seen[id(o)] = f"src-{len(seen)}"
                o.style.label = seen[id(o)]
        for j, o in enumerate(sensors):
            o.style.label = f"sens-{j}"
        src_labels = [seen[id(o)] for o in entries]
        sens_labels = [f"sens-{j}" for j in range(len(sensors))]
    else:
        src_labels = [str(o) for o in entries]
        sens_labels = [str(o) for o in sensors]
    try:
        df = magpy.getB(entries, sensors, sumup=c["sumup"], squeeze=c["squeeze"],
                        pixel_agg=None if c["agg"] == "none" else c["agg"], output="dataframe")
    except MagpylibBadUserInput:
        return "err BadUserInput", src_labels, sens_labels
    except MagpylibMissingInput:
        return "err MissingInput", src_labels, sens_labels
    except Exception as e:
        return f"EXC {type(e).__name__}: {str(e)[:120]}", src_labels, sens_labels
    if list(df.columns) != ["source", "path", "sensor", "pixel", "Bx", "By", "Bz"]:
        return f"COLUMNS {list(df.columns)}", src_labels, sens_labels
    vals = df[["Bx", "By", "Bz"]].to_numpy(dtype=float)
    r = np.rint(vals)
    if len(vals) and np.max(np.abs(vals - r)) > 1e-6:
        return "UNSNAPPABLE", src_labels, sens_labels
    rows = [f"{s}|{int(m)}|{k}|{int(p)}|{fmt_vec(v)}"
            for s, m, k, p, v in zip(df["source"], df["path"], df["sensor"], df["pixel"], r)]
    return f"ok df {len(rows)} | " + " ; ".join(rows), src_labels, sens_labels


def canon_model_df(m, src_labels, sens_labels):
    """model rows `S<i>|U<n> m k p x y z` with entry / sensor indices replaced by the labels of
    the real objects at those indices"""
    if not m.startswith("ok df "):
        return m
    head, _, body = m.partition(" | ")
    rows = []
    for row in (body.split(" ; ") if body else []):
        t = row.split(" ")
        src = f"sumup ({t[0][1:]})" if t[0][0] == "U" else src_labels[int(t[0][1:])]
        rows.append(f"{src}|{t[1]}|{sens_labels[int(t[2])]}|{t[3]}|{' '.join(t[4:])}")
    return head + " | " + " ; ".join(rows)


def dup_ok(c):
    """a duplicate inside collections would give one object two parents; the generator only
    allows duplicates at top level or uses override (object then sits in the last collection):
    keep the case only if every leaf object appears in at most one collection"""
    seen = {}

    def rec(e, incoll):
        if "coll" in e:
            return all(rec(x, True) for x in e["coll"])
        key = id(e) if "leaf" in e else ("dup", e["dup"])
        if incoll:
            k = ("d", e["dup"]) if "dup" in e else ("l", id(e))
            return False if "dup" in e else True
        return True

    return all(rec(e, False) for e in c["entries"])


def run_stream(ctx, n_cases):
    stats = {"cases": 0, "errors": {}, "agg": {}, "disagreements": 0, "distinct_outputs": 0, "max_leaves": 0,
             "with_collections": 0, "with_duplicates": 0, "mixed_pixel_shapes": 0, "sumup": 0, "squeeze": 0,
             "degenerate_inputs": 0, "dataframe_cases": 0, "dataframe_rows": 0, "dataframe_sumup_label": 0, "dataframe_errors": 0,
             "nonlinear_agg_on_rotated_or_left_multipixel_sensor": 0, "of_these_with_sumup": 0,
             "cases_with_short_multi_step_path": 0, "both_order_sensitivities": 0}
    cases = []
    while len(cases) < n_cases:
        c = gen_case(ctx.rng)
        if dup_ok(c):
            cases.append(c)
    for c in cases:
        c["labels"] = ctx.rng.random() < 0.5
    # c03post: a fifth of the cases is made sensitive to the order rotate/flip vs pixel_agg (min / max, exact on integers) and
    # to edge-vs-cyclic padding of short multi-step paths
    for c in cases[::5]:
        force_order_sensitive(ctx.rng, c, ["min", "max"])
    ml = run_driver([model_line(c) for c in cases])
    mdf = run_driver([model_line(c, df=True) for c in cases])
    seen, samples = set(), []
    for c, m, md in zip(cases, ml, mdf):
        r = real_line(c)
        # the same call with output="dataframe": index order (itertools.product) and values
        rd, src_labels, sens_labels = real_line_df(c)
        md = canon_model_df(md, src_labels, sens_labels)
        stats["dataframe_cases"] += 1
        if rd.startswith("ok df "):
            stats["dataframe_rows"] += int(rd.split(" ")[2])
            stats["dataframe_sumup_label"] += "sumup (" in rd
        else:
            stats["dataframe_errors"] += 1
        if rd != md:
            stats["disagreements"] += 1
            ctx.broken.append({"kind": "correspondence", "name": "level2", "detail": {"case": c, "output": "dataframe", "model": md[:600], "real": rd[:600]}})
            if stats["disagreements"] >= 3:
                break
        stats["cases"] += 1
        stats["agg"][c["agg"]] = stats["agg"].get(c["agg"], 0) + 1
        stats["max_leaves"] = max(stats["max_leaves"], len(leaves_in_order(c["entries"])))
        stats["with_collections"] += any("coll" in e for e in c["entries"])
        stats["with_duplicates"] += "dup" in str(c["entries"])
        stats["mixed_pixel_shapes"] += len({tuple(s["shape"]) for s in c["sensors"]}) > 1
        stats["sumup"] += c["sumup"]
        stats["degenerate_inputs"] += (not c["entries"]) or (not c["sensors"]) or '"coll": []' in json.dumps(c["entries"])
        stats["squeeze"] += c["squeeze"]
        nl = c["agg"] in NONLINEAR and order_sensitive_sensors(c) > 0 and r.startswith("ok")
        sh = short_multi_step_objects(c) > 0 and r.startswith("ok")
        stats["nonlinear_agg_on_rotated_or_left_multipixel_sensor"] += nl
        stats["of_these_with_sumup"] += nl and c["sumup"] and len(c["entries"]) > 1
        stats["cases_with_short_multi_step_path"] += sh
        stats["both_order_sensitivities"] += nl and sh
        if r.startswith("err"):
            stats["errors"][r] = stats["errors"].get(r, 0) + 1
        seen.add(r)
        if r != m:
            stats["disagreements"] += 1
            ctx.broken.append({"kind": "correspondence", "name": "level2", "detail": {"case": c, "model": m[:600], "real": r[:600]}})
            if stats["disagreements"] >= 3:
                break
        elif len(samples) < 2 and len(r) < 400:
            samples.append({"case": c, "output": r})
    stats["distinct_outputs"] = len(seen)
    stats["samples"] = samples
    return stats


# --------------------------------------------------------------------------------------------------------------------
# stream `level2f` (c03post; C03 / C04 / C05): the same scenes, pixel_agg = ANY numpy reduction by name — mean, median, std,
# ptp next to min / max / sum — against `Model/Level2.getBHF` / `dataframeF` with `Model/PixelAgg.byName`, the polymorphic
# model evaluated in IEEE double (`M3 Float`, `V3 Float`; integer data and octahedral matrices are exact in double, only the
# reductions round).  Every case is order-sensitive (see above).  Shapes, error kinds and dataframe index columns are
# compared exactly, values with |a - b| <= TOL * max(1, |a|, |b|).  For each case the two WRONG orders are evaluated in
# Python on the real pre-aggregation tensor of the same call (aggregate-then-rotate; cyclic tiling): how many cases would
# tell them from the code's order is reported (`distinguishes_*`).
# --------------------------------------------------------------------------------------------------------------------
TOL_F = 1e-9
AGGS_F = ["median", "std", "max", "min", "median", "std", "mean", "ptp", "sum"]


def _bits(tokens):
    import struct
    return [struct.unpack("<d", struct.pack("<Q", int(t)))[0] for t in tokens]


def parse_model_f(m):
    """('ok', shape, values) | ('err', kind) | ('other', text)"""
    if m.startswith("ok shape "):
        head, _, body = m.partition(" | ")
        return ("ok", [int(t) for t in head.split()[2:]], _bits(body.split()))
    if m.startswith("ok df "):
        head, _, body = m.partition(" | ")
        rows = []
        for row in (body.split(" ; ") if body else []):
            t = row.split(" ")
            rows.append((t[0], int(t[1]), int(t[2]), int(t[3]), _bits(t[4:])))
        return ("okdf", rows)
    if m.startswith("err "):
        return ("err", m[4:])
    return ("other", m)


def real_f(c, df=False):
    import warnings

    import magpylib as magpy
    from magpylib._src.exceptions import MagpylibBadUserInput, MagpylibMissingInput

    entries, sensors = build_real(c)
    try:
        with warnings.catch_warnings():
            warnings.simplefilter("ignore")
            B = magpy.getB(entries, sensors, sumup=c["sumup"], squeeze=c["squeeze"],
                           pixel_agg=None if c["agg"] == "none" else c["agg"], **({"output": "dataframe"} if df else {}))
    except MagpylibBadUserInput:
        return ("err", "BadUserInput")
    except MagpylibMissingInput:
        return ("err", "MissingInput")
    except Exception as e:  # noqa: BLE001
        return ("other", f"EXC {type(e).__name__}: {str(e)[:120]}")
    if df:
        lab = lambda o: str(o.style.label if o.style.label else o)  # noqa: E731
        rows = [(str(s_), int(m_), str(k_), int(p_), list(v)) for s_, m_, k_, p_, v in
                zip(B["source"], B["path"], B["sensor"], B["pixel"], B[["Bx", "By", "Bz"]].to_numpy(float))]
        return ("okdf", rows, [lab(o) for o in entries], [lab(o) for o in sensors])
    B = np.asarray(B, dtype=float)
    return ("ok", list(B.shape), list(B.reshape(-1)))


def close_f(a, b):
    return len(a) == len(b) and all((x == y) or abs(x - y) <= TOL_F * max(1.0, abs(x), abs(y)) or (x != x and y != y)
                                    for x, y in zip(a, b))


def same_f(m, r):
    if m[0] != r[0]:
        return False
    if m[0] == "ok":
        return m[1] == r[1] and close_f(m[2], r[2])
    if m[0] == "okdf":
        # model rows carry entry / sensor indices; replace them by the labels of the real objects at those indices
        def canon(x):
            src = f"sumup ({x[0][1:]})" if x[0][0] == "U" else r[2][int(x[0][1:])]
            return (src, x[1], r[3][x[2]], x[3])
        return len(m[1]) == len(r[1]) and all(canon(x) == y[:4] and close_f(x[4], y[4]) for x, y in zip(m[1], r[1]))
    return m[1] == r[1]


def wrong_orders_differ(c, real):
    """evaluate the two seeded orders on the real code's own pre-aggregation values: (1) aggregate the GLOBAL-frame pixel
    values, then rotate / flip the aggregate; (2) cyclic instead of edge padding of short paths.  Returns (d1, d2): does the
    final array differ from the real one by more than the tolerance?"""
    import warnings

    import magpylib as magpy
    from scipy.spatial.transform import Rotation as R

    if real[0] != "ok":
        return False, False
    f = getattr(np, c["agg"])
    objs = leaves_in_order(c["entries"]) + list(c["sensors"])
    M = max(len(o["pos"]) for o in objs)

    def final(cyclic, agg_first):
        cc = json.loads(json.dumps(c))
        if cyclic:  # the code pads; hand it paths already filled cyclically to the full length
            for o in leaves_in_order(cc["entries"]) + list(cc["sensors"]):
                n = len(o["pos"])
                o["pos"] = [o["pos"][m % n] for m in range(M)] if n > 1 else o["pos"]
                o["ori"] = [o["ori"][m % n] for m in range(M)] if n > 1 else o["ori"]
        entries, sensors = build_real(cc)
        out = []
        with warnings.catch_warnings():
            warnings.simplefilter("ignore")
            for k, (sens, sd) in enumerate(zip(sensors, cc["sensors"])):
                if not agg_first:
                    b = np.asarray(magpy.getB(entries, sens, squeeze=False, pixel_agg=c["agg"]), float)[:, :, 0, 0]
                else:
                    # global-frame values at the pixel positions, per path index
                    n = len(sd["pos"])
                    rows = []
                    for m in range(M):
                        mm = min(m, n - 1)
                        rot = R.from_matrix(np.array(OCTA[sd["ori"][mm]], float))
                        pos = rot.apply(np.array(flat_pixels(sd), float)) + np.array(sd["pos"][mm], float)
                        g = np.asarray(magpy.getB(entries, pos, squeeze=False), float)[:, min(m, M - 1), 0]  # (l, pix, 3)
                        a = f(g, axis=1)                                                                    # (l, 3)
                        a = rot.inv().apply(a)
                        if sd["left"]:
                            a[:, 0] *= -1
                        rows.append(a)
                    b = np.stack(rows, axis=1)  # (l, M, 3)
                out.append(b)
        B = np.stack(out, axis=2)  # (l, M, k, 3)
        if c["sumup"]:
            B = B.sum(axis=0, keepdims=True)
        return B.reshape(-1)

    ref = np.array(real[2], float)
    try:
        d1 = not close_f(list(final(False, True)), list(ref))
        d2 = not close_f(list(final(True, False)), list(ref))
    except Exception:  # noqa: BLE001  (reference evaluation only; never an obligation)
        return False, False
    return d1, d2


def run_f_stream(ctx, n_cases):
    stats = {"cases": 0, "disagreements": 0, "tolerance": TOL_F, "agg": {}, "errors": {}, "sumup": 0, "mixed_pixel_shapes": 0,
             "nonlinear_agg_on_rotated_or_left_multipixel_sensor": 0, "of_these_left_handed": 0, "of_these_rotated": 0,
             "of_these_with_sumup": 0, "cases_with_short_multi_step_path": 0, "dataframe_cases": 0, "max_rel_diff": 0.0,
             "distinguishes_aggregate_then_rotate": 0, "distinguishes_cyclic_tiling": 0, "non_integer_outputs": 0}
    cases = []
    while len(cases) < n_cases:
        c = gen_case(ctx.rng)
        if not dup_ok(c):
            continue
        if ctx.rng.random() < 0.9:
            force_order_sensitive(ctx.rng, c, AGGS_F)
        else:
            c["agg"] = ctx.rng.choice(AGGS_F + ["none"])
        c["labels"] = True
        cases.append(c)
    ml = run_driver([model_line(c).replace("level2 ", "level2f ", 1) for c in cases])
    mdf = run_driver([model_line(c, df=True).replace("level2 ", "level2f ", 1) for c in cases])
    samples = []
    for i, (c, m, md) in enumerate(zip(cases, ml, mdf)):
        pm, r = parse_model_f(m), real_f(c)
        stats["cases"] += 1
        stats["agg"][c["agg"]] = stats["agg"].get(c["agg"], 0) + 1
        stats["sumup"] += c["sumup"]
        stats["mixed_pixel_shapes"] += len({tuple(s["shape"]) for s in c["sensors"]}) > 1
        ok = r[0] == "ok"
        nl = c["agg"] in NONLINEAR and order_sensitive_sensors(c) > 0 and ok
        stats["nonlinear_agg_on_rotated_or_left_multipixel_sensor"] += nl
        stats["of_these_left_handed"] += nl and any(s["left"] and len({tuple(v) for v in flat_pixels(s)}) >= 2 for s in c["sensors"])
        stats["of_these_rotated"] += nl and any(any(o != ID for o in s["ori"]) and len({tuple(v) for v in flat_pixels(s)}) >= 2
                                                for s in c["sensors"])
        stats["of_these_with_sumup"] += nl and c["sumup"] and len(c["entries"]) > 1
        stats["cases_with_short_multi_step_path"] += short_multi_step_objects(c) > 0 and ok
        if r[0] == "err":
            stats["errors"][r[1]] = stats["errors"].get(r[1], 0) + 1
        if ok and pm[0] == "ok" and len(pm[2]) == len(r[2]) and r[2]:
            stats["max_rel_diff"] = max(stats["max_rel_diff"], max(abs(x - y) / max(1.0, abs(x), abs(y)) for x, y in zip(pm[2], r[2])))
            stats["non_integer_outputs"] += any(abs(x - round(x)) > 1e-9 for x in r[2])
        if not same_f(pm, r):
            stats["disagreements"] += 1
            if stats["disagreements"] <= 3:
                ctx.broken.append({"kind": "correspondence", "name": "level2f", "detail": {"case": c, "model": str(pm)[:600], "real": str(r)[:600]}})
        elif len(samples) < 2 and ok and len(r[2]) <= 12 and c["agg"] in ("median", "std"):
            samples.append({"line": model_line(c)[:300], "agg": c["agg"], "shape": r[1], "real": [float(x) for x in r[2]]})
        if i % 3 == 0:  # output="dataframe" of the same call
            rd, pmd = real_f(c, df=True), parse_model_f(md)
            stats["dataframe_cases"] += 1
            if not same_f(pmd, rd):
                stats["disagreements"] += 1
                if stats["disagreements"] <= 3:
                    ctx.broken.append({"kind": "correspondence", "name": "level2f", "detail": {"case": c, "output": "dataframe", "model": str(pmd)[:600], "real": str(rd)[:600]}})
        if nl and c["agg"] != "none" and i % 2 == 0:
            d1, d2 = wrong_orders_differ(c, r)
            stats["distinguishes_aggregate_then_rotate"] += d1
            stats["distinguishes_cyclic_tiling"] += d2
    stats["samples"] = samples
    return stats


# --------------------------------------------------------------------------------------------------------------------
# stream `level2-jm` (C02 with C03/C04): getJ / getM of REAL Cuboid magnets — integer positions, octahedral orientation
# paths, odd integer dimensions, integer polarization — read by sensors with unit / static / rotating orientation paths,
# pixels, handedness, pixel_agg, sumup, squeeze, nested collections, against the same pipeline model (Model/Level2.lean) with
# the local-frame field function `indicatorField (boxBody dim) pol`: J in the observer frame = sensor^-1 . magnet orientation
# . polarization inside the body, 0 outside.  M is compared after multiplication by the exported mu_0 (M = J / mu_0 in the
# field functions).  Exact after snapping to integers.  A third of the calls pass `in_out` = 'inside' / 'outside' / a
# misspelt value: for Cuboids the keyword must not change anything (getBH_level1 removes it).
# --------------------------------------------------------------------------------------------------------------------
def gen_case_jm(rng):
    c = gen_case(rng)
    # box magnets: the affine functions are replaced by (diag(dimension), polarization); dimensions ODD, so that the faces lie
    # on half-integer coordinates and integer observers are strictly inside or strictly outside (an observer exactly on a face
    # of a ROTATED magnet is decided by the rounding of scipy's rotation: relative 1e-15 mask against errors of a few ulp)
    c["fs"] = []
    for _ in range(rng.choice([1, 2, 3])):
        dim = [2 * rng.randint(0, 4) + 1 for _ in range(3)]
        c["fs"].append({"A": [[dim[0], 0, 0], [0, dim[1], 0], [0, 0, dim[2]]], "b": rvec(rng)})
    nf = len(c["fs"])

    def fix(e):
        if "coll" in e:
            for x in e["coll"]:
                fix(x)
        elif "leaf" in e:
            e["leaf"] = e["leaf"] % nf

    for e in c["entries"]:
        fix(e)
    c["tag"] = "J"
    c["field"] = rng.choice("JM")
    c["in_out"] = rng.choice(["auto", "auto", "auto", "inside", "outside", "bogus"])
    return c


def real_line_jm(c):
    import warnings

    import magpylib as magpy
    from magpylib._src.exceptions import MagpylibBadUserInput, MagpylibMissingInput

    pool_objs = []

    def mk(e):
        if "dup" in e:
            return pool_objs[e["dup"]]
        if "coll" in e:
            return magpy.Collection(*[mk(x) for x in e["coll"]], override_parent=True)
        f = c["fs"][e["leaf"]]
        o = magpy.magnet.Cuboid(dimension=[f["A"][i][i] for i in range(3)], polarization=f["b"], position=e["pos"],
                                orientation=rot_from([OCTA[i] for i in e["ori"]]))
        pool_objs.append(o)
        return o

    entries = [mk(e) for e in c["entries"]]
    sensors = [magpy.Sensor(position=s["pos"], orientation=rot_from([OCTA[i] for i in s["ori"]]), pixel=s["pixel"],
                            handedness="left" if s["left"] else "right") for s in c["sensors"]]
    fn = magpy.getJ if c["field"] == "J" else magpy.getM
    try:
        with warnings.catch_warnings():
            warnings.simplefilter("ignore")
            B = fn(entries, sensors, sumup=c["sumup"], squeeze=c["squeeze"], pixel_agg=None if c["agg"] == "none" else c["agg"],
                   in_out=c["in_out"])
    except MagpylibBadUserInput:
        return "err BadUserInput"
    except MagpylibMissingInput:
        return "err MissingInput"
    except Exception as e:  # noqa: BLE001
        return f"EXC {type(e).__name__}: {str(e)[:120]}"
    B = np.asarray(B, dtype=float) * (float(magpy.mu_0) if c["field"] == "M" else 1.0)
    r = np.rint(B)
    if B.size and np.max(np.abs(B - r)) > 1e-6:
        return "UNSNAPPABLE"
    return "ok shape " + " ".join(map(str, B.shape)) + " | " + " ".join(fmt_vec(v) for v in r.reshape(-1, 3))


def run_jm_stream(ctx, n_cases):
    stats = {"cases": 0, "disagreements": 0, "fields": {}, "in_out": {}, "rotated_sensor_cases": 0, "rotated_source_cases": 0,
             "nonzero_outputs": 0, "zero_and_nonzero_in_one_output": 0, "errors": {}}
    cases = []
    while len(cases) < n_cases:
        c = gen_case_jm(ctx.rng)
        if dup_ok(c):
            cases.append(c)
    ml = run_driver([model_line(c) for c in cases])
    samples = []
    for c, m in zip(cases, ml):
        r = real_line_jm(c)
        stats["cases"] += 1
        stats["fields"][c["field"]] = stats["fields"].get(c["field"], 0) + 1
        stats["in_out"][c["in_out"]] = stats["in_out"].get(c["in_out"], 0) + 1
        stats["rotated_sensor_cases"] += any(any(o != ID for o in s["ori"]) for s in c["sensors"])
        stats["rotated_source_cases"] += any(any(o != ID for o in e["ori"]) for e in leaves_in_order(c["entries"]))
        if r.startswith("err"):
            stats["errors"][r] = stats["errors"].get(r, 0) + 1
        elif " | " in r:
            vals = r.split(" | ")[1].split()
            nz = any(v not in ("0", "-0") for v in vals)
            stats["nonzero_outputs"] += nz
            trip = [vals[i:i + 3] for i in range(0, len(vals), 3)]
            stats["zero_and_nonzero_in_one_output"] += nz and any(all(v in ("0", "-0") for v in t) for t in trip)
        if r != m:
            stats["disagreements"] += 1
            if stats["disagreements"] <= 3:
                ctx.broken.append({"kind": "correspondence", "name": "level2-jm", "detail": {"case": c, "model": m[:600], "real": r[:600]}})
        elif len(samples) < 2 and len(r) < 300 and " | " in r:
            samples.append({"field": c["field"], "in_out": c["in_out"], "line": model_line(c)[:400], "output": r})
    stats["samples"] = samples
    return stats
