"""correspondence stream `mesh` (C16): get_open_edges and get_disconnected_faces_subsets of the real
code against Model/Mesh.lean on random face lists (closed polyhedra, with deleted faces, several
disjoint parts, permuted faces, renumbered vertices, flipped windings; every 8th case arbitrary triples
with repeated / degenerate faces) — exact integer comparison; and get_inwards_mask /
fix_trimesh_orientation against `inwardsMask` / `fixOrientation` (run_inwards)."""
import itertools

import numpy as np

from vlib.driver import run_driver

CUBE = [[0, 1, 3], [0, 3, 2], [4, 6, 7], [4, 7, 5], [0, 4, 5], [0, 5, 1], [2, 3, 7], [2, 7, 6], [0, 2, 6], [0, 6, 4], [1, 5, 7], [1, 7, 3]]
TETRA = [[0, 1, 2], [0, 1, 3], [0, 2, 3], [1, 2, 3]]
OCTA = [[0, 2, 4], [2, 1, 4], [1, 3, 4], [3, 0, 4], [2, 0, 5], [1, 2, 5], [3, 1, 5], [0, 3, 5]]




def _ring():
    """a square ring (one body with a through-hole, genus 1): 16 vertices, 32 faces, closed; V - F/2 = 0"""
    fs = []
    quad = lambda a, b, c, d: fs.extend([[a, b, c], [a, c, d]])  # noqa: E731
    for i in range(4):
        j = (i + 1) % 4
        quad(i, j, 4 + j, 4 + i)              # bottom annulus
        quad(8 + i, 8 + j, 12 + j, 12 + i)    # top annulus
        quad(i, j, 8 + j, 8 + i)              # outer wall
        quad(4 + i, 4 + j, 12 + j, 12 + i)    # wall of the hole
    sq = [(-1, -1), (1, -1), (1, 1), (-1, 1)]
    co = [[2 * x, 2 * y, 0] for x, y in sq] + [[x, y, 0] for x, y in sq] + [[2 * x, 2 * y, 1] for x, y in sq] + [[x, y, 1] for x, y in sq]
    return fs, co


RING, RING_COORDS = _ring()


def gen_faces(rng):
    parts, off = [], 0
    for _ in range(rng.choice([1, 1, 2, 3])):
        base = rng.choice([CUBE, TETRA, OCTA, RING])  # RING: a part with a through-hole (the Euler characteristic of a part is not always 2)
        nv = max(max(f) for f in base) + 1
        faces = [[v + off for v in f] for f in base]
        if rng.random() < 0.35:
            for _ in range(rng.choice([1, 2])):
                faces.pop(rng.randrange(len(faces)))
        if rng.random() < 0.2 and parts:  # share a vertex with the previous part (connected through a vertex)
            faces[0][0] = parts[-1][0][0]
        parts.append(faces)
        off += nv
    faces = [f for p in parts for f in p]
    rng.shuffle(faces)
    # renumber vertices, rotate / flip faces
    perm = list(range(off))
    rng.shuffle(perm)
    out = []
    for f in faces:
        f = [perm[v] for v in f]
        k = rng.randrange(3)
        f = f[k:] + f[:k]
        if rng.random() < 0.5:
            f = [f[0], f[2], f[1]]
        out.append(f)
    return out


COORDS = {
    "CUBE": [[x, y, z] for x in (-1, 1) for y in (-1, 1) for z in (-1, 1)],
    "TETRA": [[0, 0, 0], [2, 0, 0], [0, 2, 0], [0, 0, 2]],
    "OCTA": [[1, 0, 0], [-1, 0, 0], [0, 1, 0], [0, -1, 0], [0, 0, 1], [0, 0, -1]],
}
COORDS["RING"] = RING_COORDS
BASES = {"CUBE": CUBE, "TETRA": TETRA, "OCTA": OCTA, "RING": RING}


def gen_closed(rng):
    """closed bodies with coordinates: 1-3 parts (apart, or touching in one vertex), faces shuffled, vertices
    renumbered, random subset of faces flipped, windings rotated"""
    verts, faces, off = [], [], 0
    k = rng.choice([1, 1, 2, 3])
    for j in range(k):
        name = rng.choice(["CUBE", "TETRA", "OCTA", "RING"])
        co = [[c[0] + 5 * j, c[1], c[2]] for c in COORDS[name]]
        fs = [[v + off for v in f] for f in BASES[name]]
        verts += co
        faces += fs
        off += len(co)
    rng.shuffle(faces)
    perm = list(range(off))
    rng.shuffle(perm)  # new index of old vertex v is perm[v]
    v2 = [None] * off
    for old, new in enumerate(perm):
        v2[new] = verts[old]
    out = []
    pflip = rng.choice([0.0, 0.2, 0.5, 0.8, 1.0])
    for f in faces:
        f = [perm[v] for v in f]
        r = rng.randrange(3)
        f = f[r:] + f[:r]
        if rng.random() < pflip:
            f = [f[0], f[2], f[1]]
        out.append(f)
    return v2, out


def gen_any(rng):
    """arbitrary index triples for the propagation sweep with a stubbed seed test: the stream's face lists (open,
    joined through a vertex), or random triples over few vertices (non-manifold, repeated, degenerate faces)"""
    if rng.random() < 0.6:
        return gen_faces(rng)
    nv = rng.randrange(3, 9)
    return [[rng.randrange(nv) for _ in range(3)] if rng.random() < 0.15 else rng.sample(range(nv), 3) for _ in range(rng.randrange(1, 12))]


def run_inwards(ctx, n):
    """get_inwards_mask / fix_trimesh_orientation against Model/Mesh.lean `inwardsMask` / `fixOrientation`:
    (a) closed bodies, real `is_facet_inwards`, its verdicts recorded and handed to the model;
    (b) arbitrary triples, `is_facet_inwards` replaced by a table of random verdicts (pure propagation logic)"""
    import magpylib._src.fields.field_BH_triangularmesh as tm

    import signal

    def on_alarm(*_):
        raise TimeoutError

    try:
        old_handler = signal.signal(signal.SIGALRM, on_alarm)
    except ValueError:  # not in the main thread: no watchdog
        old_handler = None
    real_seed = tm.is_facet_inwards
    cases, lines, reals = [], [], []
    stats = {"meshes": 0, "real_seed": 0, "stub_seed": 0, "reseeded": 0, "with_flips": 0, "disagreements": 0, "distinct": 0,
             "inconsistent_after_fix_closed": 0}
    try:
        for i in range(n):
            rec = []
            if i % 2 == 0:
                verts, fs = gen_closed(ctx.rng)

                def seed(face, faces, rec=rec):
                    r = bool(real_seed(face, faces))
                    rec.append((len(faces), int(r)))
                    return r
                stats["real_seed"] += 1
            else:
                fs = gen_any(ctx.rng)
                verts = [[0, 0, 0]] * (max(max(f) for f in fs) + 1)
                table = [ctx.rng.randrange(2) for _ in range(len(fs) + 1)]

                def seed(face, faces, rec=rec, table=table):
                    rec.append((len(faces), table[len(faces)]))
                    return bool(table[len(faces)])
                stats["stub_seed"] += 1
            tm.is_facet_inwards = seed
            va, fa = np.array(verts, float), np.array(fs)
            try:
                if old_handler is not None:
                    signal.alarm(20)
                mask = tm.get_inwards_mask(va, fa)
                rec1 = list(rec)
                fixed = tm.fix_trimesh_orientation(va, fa)
            except TimeoutError:
                ctx.broken.append({"kind": "correspondence", "name": "mesh-inwards",
                                   "detail": {"faces": fs, "real": "get_inwards_mask did not return within 20 s", "model": "terminates (orientLoop_fuel_sufficient)"}})
                break
            finally:
                if old_handler is not None:
                    signal.alarm(0)
            enc = f"{len(fs)} " + " ".join(" ".join(map(str, f)) for f in fs)
            lines.append("mesh inwards " + enc + f" {len(rec1)} " + " ".join(f"{a} {b}" for a, b in rec1))
            reals.append("inwards left=0 mask " + "".join("1" if b else "0" for b in mask) + " faces " +
                         " ".join(",".join(str(int(v)) for v in f) for f in fixed))
            cases.append({"faces": fs, "seed_verdicts": rec1, "real_seed": i % 2 == 0})
            stats["reseeded"] += len(rec1) > 1
            stats["with_flips"] += bool(mask.any())
            if i % 2 == 0:
                d = [e for f in fixed.tolist() for e in ((f[0], f[1]), (f[1], f[2]), (f[2], f[0]))]
                stats["inconsistent_after_fix_closed"] += len(set(d)) != len(d)
    finally:
        tm.is_facet_inwards = real_seed
        if old_handler is not None:
            signal.signal(signal.SIGALRM, old_handler)
    out = run_driver(lines) if lines else []
    seen = set()
    for c, r, m in zip(cases, reals, out):
        seen.add(r)
        if r.strip() != m.strip():
            stats["disagreements"] += 1
            if stats["disagreements"] <= 3:
                ctx.broken.append({"kind": "correspondence", "name": "mesh-inwards", "detail": {**c, "model": m, "real": r}})
    if stats["inconsistent_after_fix_closed"]:
        ctx.broken.append({"kind": "correspondence", "name": "mesh-inwards", "detail": "closed body left with two faces traversing an edge in the same direction"})
    stats["meshes"] = len(cases)
    stats["distinct"] = len(seen)
    stats["samples"] = [{**cases[0], "model": out[0]}] if cases else []
    return stats


def run_stream(ctx, n):
    from magpylib._src.fields.field_BH_triangularmesh import get_disconnected_faces_subsets, get_open_edges

    cases = [gen_faces(ctx.rng) if i % 8 else gen_any(ctx.rng) for i in range(n)]
    lines = []
    for fs in cases:
        enc = f"{len(fs)} " + " ".join(" ".join(map(str, f)) for f in fs)
        lines += ["mesh open " + enc, "mesh subsets " + enc]
    out = run_driver(lines)
    stats = {"meshes": n, "open_meshes": 0, "disconnected_meshes": 0, "disagreements": 0, "distinct": 0}
    seen = set()
    for i, fs in enumerate(cases):
        a = np.array(fs)
        oe = sorted(map(tuple, get_open_edges(a).tolist()))
        real_open = ("open " + " ".join(f"{x}-{y}" for x, y in oe)).strip() if oe else "open "
        subs = get_disconnected_faces_subsets(a)
        real_sets = sorted(sorted(set(int(v) for v in s.reshape(-1))) for s in subs)
        mo, ms = out[2 * i], out[2 * i + 1]
        model_sets = sorted([int(v) for v in part.split()] for part in ms[len("subsets "):].split(" | ")) if ms.strip() != "subsets" else []
        stats["open_meshes"] += bool(oe)
        stats["disconnected_meshes"] += len(real_sets) > 1
        seen.add((real_open, str(real_sets)))
        if mo.strip() != real_open.strip() or model_sets != real_sets:
            stats["disagreements"] += 1
            if stats["disagreements"] <= 3:
                ctx.broken.append({"kind": "correspondence", "name": "mesh", "detail": {"faces": fs, "model": [mo, ms], "real": [real_open, real_sets]}})
    stats["distinct"] = len(seen)
    stats["samples"] = [{"faces": cases[0], "open": out[0], "subsets": out[1]}]
    return stats


# ---------------------------------------------------------------------------------------------------------------------------
# `unique` rows (C13): the soup -> (vertices, faces) glue of TriangularMesh.from_mesh / from_triangles against
# Model/MeshUnique.lean `fromMesh` (np.unique(axis=0, return_inverse=True) + reshape), IEEE double on both sides.

UNIQUE_SCALES = [1e-9, 1e-6, 1e-3, 1.0, 1e3, 1e6]


def _bits(x):
    import struct
    return struct.unpack("<Q", struct.pack("<d", float(x)))[0]


def gen_soup(rng, small):
    """a triangle soup (n, 3, 3): corners drawn from a pool of points at one length scale (random doubles, lattice points, points
    with zero coordinates, near-duplicates one ulp / 1e-9 relative apart), every zero coordinate given a random sign, corners
    repeated inside a triangle now and then, triangle order and corner order shuffled; `small` (<= 5 triangles, so numpy's argsort
    is its stable insertion sort) may also carry NaN / inf corners"""
    s = rng.choice(UNIQUE_SCALES)
    npool = rng.randrange(3, 7) if small else rng.randrange(4, 40)
    pool = []
    for _ in range(npool):
        kind = rng.random()
        if kind < 0.35:
            p = [rng.uniform(-1, 1) * s for _ in range(3)]
        elif kind < 0.7:
            p = [rng.randrange(-2, 3) * s for _ in range(3)]
        elif kind < 0.85 and pool:  # a near-duplicate of an earlier point: one ulp, or 1e-9 relative, in one coordinate
            q = list(rng.choice(pool))
            k = rng.randrange(3)
            q[k] = float(np.nextafter(q[k], np.inf)) if rng.random() < 0.5 else q[k] * (1 + 1e-9) + (1e-9 * s if q[k] == 0 else 0)
            p = q
        else:
            p = [rng.choice([0.0, rng.uniform(-1, 1) * s]) for _ in range(3)]
        pool.append([float(v) for v in p])
    if small and rng.random() < 0.4:
        bad = rng.choice([float("nan"), float("inf"), -float("inf")])
        q = list(rng.choice(pool))
        q[rng.randrange(3)] = bad
        pool.append(q)
        if rng.random() < 0.5:
            pool.append(list(q))
    ntri = rng.randrange(1, 6) if small else rng.randrange(6, 60)
    soup = []
    for _ in range(ntri):
        if rng.random() < 0.1:
            a = rng.choice(pool)
            tri = [a, a, rng.choice(pool)]
            rng.shuffle(tri)
        else:
            tri = [rng.choice(pool) for _ in range(3)] if rng.random() < 0.3 else rng.sample(pool, 3)
        soup.append([[(-0.0 if rng.random() < 0.5 else 0.0) if v == 0 else v for v in c] for c in tri])
    return s, soup


def run_unique(ctx, n):
    """the real `TriangularMesh.from_mesh` / `from_triangles` (alternating; every check and the re-orientation switched off, so that
    `.vertices`, `.faces` are what the two glue lines produced) against the driver's `mesh unique`: number of vertices and faces
    compared exactly; vertices bit for bit for soups of <= 15 corners and by `==` above (which of several `==`-equal rows is kept is
    numpy's unstable introsort's choice there); `obj.mesh == soup` row by row against the model's round-trip verdict"""
    import warnings

    from magpylib._src.obj_classes.class_magnet_TriangularMesh import TriangularMesh
    from magpylib._src.obj_classes.class_misc_Triangle import Triangle

    kw = dict(check_open="skip", check_disconnected="skip", check_selfintersecting="skip", reorient_faces="skip")
    stats = {"soups": 0, "from_mesh": 0, "from_triangles": 0, "bit_exact": 0, "with_signed_zero_pairs": 0, "with_nan_or_inf": 0,
             "with_merged_corners": 0, "zero_sign_of_representative_differs": 0, "per_scale": {str(s): 0 for s in UNIQUE_SCALES},
             "disagreements": 0, "distinct": 0, "corners": 0}
    cases, lines, reals = [], [], []
    for i in range(n):
        small = i % 3 == 0
        s, soup = gen_soup(ctx.rng, small)
        arr = np.array(soup, float)
        with warnings.catch_warnings():
            warnings.simplefilter("ignore")
            if i % 2 == 0:
                obj = TriangularMesh.from_mesh(mesh=arr, polarization=(0, 0, 1), **kw)
                stats["from_mesh"] += 1
            else:
                obj = TriangularMesh.from_triangles(triangles=[Triangle(vertices=t, polarization=(0, 0, 1)) for t in arr],
                                                    polarization=(0, 0, 1), **kw)
                stats["from_triangles"] += 1
        v, f = np.array(obj.vertices, float), np.array(obj.faces)
        back = bool(np.array_equal(obj.mesh, arr))  # `==`: -0.0 == 0.0, nan != nan
        reals.append((v, f, back))
        cases.append({"scale": s, "soup": soup, "small": small, "via": "from_mesh" if i % 2 == 0 else "from_triangles"})
        lines.append(f"mesh unique {len(soup)} " + " ".join(str(_bits(x)) for x in arr.reshape(-1)))
        pts = arr.reshape(-1, 3)
        stats["per_scale"][str(s)] += 1
        stats["corners"] += len(pts)
        stats["with_nan_or_inf"] += bool(~np.isfinite(pts).all())
        stats["with_merged_corners"] += len(v) < len(pts)
        z = {}
        for p in pts:
            z.setdefault(tuple(float(c) + 0.0 for c in p), set()).add(tuple(bool(b) for b in np.signbit(p)))
        stats["with_signed_zero_pairs"] += any(len(sg) > 1 for sg in z.values())
    out = run_driver(lines) if lines else []
    seen = set()
    for c, (v, f, back), m in zip(cases, reals, out):
        ok = True
        try:
            head, rest = m.split(" faces ")
            ftxt, rt = rest.split(" roundtrip ")
            toks = head.split()
            nv = int(toks[1])
            import struct
            mv = np.array([struct.unpack("<d", struct.pack("<Q", int(t)))[0] for t in toks[2:]], float).reshape(-1, 3)
            mf = np.array([[int(a) for a in t.split(",")] for t in ftxt.split()], int).reshape(-1, 3)
            ok = nv == len(v) and mv.shape == v.shape and mf.shape == f.shape and bool((mf == f).all()) and (int(rt) == 1) == back
            if ok:
                bit_same = mv.tobytes() == v.tobytes()
                if len(c["soup"]) * 3 <= 15:
                    ok = bit_same
                    stats["bit_exact"] += 1
                else:
                    ok = bool(np.array_equal(mv, v))
                    stats["zero_sign_of_representative_differs"] += not bit_same
        except (ValueError, IndexError):
            ok = False
        seen.add(m)
        if not ok:
            stats["disagreements"] += 1
            if stats["disagreements"] <= 3:
                ctx.broken.append({"kind": "correspondence", "name": "mesh-unique",
                                   "detail": {**c, "model": m, "real": {"vertices": [[repr(float(x)) for x in p] for p in v], "faces": f.tolist(), "mesh_eq_soup": back}}})
    stats["soups"] = len(cases)
    stats["distinct"] = len(seen)
    stats["samples"] = [{"scale": cases[0]["scale"], "soup": cases[0]["soup"], "model": out[0]}] if cases else []
    return stats
