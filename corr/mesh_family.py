"""correspondence stream `mesh` (C16): get_open_edges and get_disconnected_faces_subsets of the real
code against Model/Mesh.lean on random face lists (closed polyhedra, with deleted faces, several
disjoint parts, permuted faces, renumbered vertices, flipped windings) — exact integer comparison."""
import itertools

import numpy as np

from vlib.driver import run_driver

CUBE = [[0, 1, 3], [0, 3, 2], [4, 6, 7], [4, 7, 5], [0, 4, 5], [0, 5, 1], [2, 3, 7], [2, 7, 6], [0, 2, 6], [0, 6, 4], [1, 5, 7], [1, 7, 3]]
TETRA = [[0, 1, 2], [0, 1, 3], [0, 2, 3], [1, 2, 3]]
OCTA = [[0, 2, 4], [2, 1, 4], [1, 3, 4], [3, 0, 4], [2, 0, 5], [1, 2, 5], [3, 1, 5], [0, 3, 5]]


def gen_faces(rng):
    parts, off = [], 0
    for _ in range(rng.choice([1, 1, 2, 3])):
        base = rng.choice([CUBE, TETRA, OCTA])
        nv = max(max(f) for f in base) + 1
        faces = [[v + off for v in f] for f in base]
        if rng.random() < 0.35:
            for _ in range(rng.choice([1, 2])):
                faces.pop(rng.randrange(len(faces)))
        if rng.random() < 0.2 and parts:  # share a vertex with the previous part (connected through a vertex)
            faces[0][0] = parts[-1][0][0]
        parts.append(faces)
        off += nv
    faces = [f for p in parts for f in p]
    rng.shuffle(faces)
    # renumber vertices, rotate / flip faces
    perm = list(range(off))
    rng.shuffle(perm)
    out = []
    for f in faces:
        f = [perm[v] for v in f]
        k = rng.randrange(3)
        f = f[k:] + f[:k]
        if rng.random() < 0.5:
            f = [f[0], f[2], f[1]]
        out.append(f)
    return out


def run_stream(ctx, n):
    from magpylib._src.fields.field_BH_triangularmesh import get_disconnected_faces_subsets, get_open_edges

    cases = [gen_faces(ctx.rng) for _ in range(n)]
    lines = []
    for fs in cases:
        enc = f"{len(fs)} " + " ".join(" ".join(map(str, f)) for f in fs)
        lines += ["mesh open " + enc, "mesh subsets " + enc]
    out = run_driver(lines)
    stats = {"meshes": n, "open_meshes": 0, "disconnected_meshes": 0, "disagreements": 0, "distinct": 0}
    seen = set()
    for i, fs in enumerate(cases):
        a = np.array(fs)
        oe = sorted(map(tuple, get_open_edges(a).tolist()))
        real_open = ("open " + " ".join(f"{x}-{y}" for x, y in oe)).strip() if oe else "open "
        subs = get_disconnected_faces_subsets(a)
        real_sets = sorted(sorted(set(int(v) for v in s.reshape(-1))) for s in subs)
        mo, ms = out[2 * i], out[2 * i + 1]
        model_sets = sorted([int(v) for v in part.split()] for part in ms[len("subsets "):].split(" | ")) if ms.strip() != "subsets" else []
        stats["open_meshes"] += bool(oe)
        stats["disconnected_meshes"] += len(real_sets) > 1
        seen.add((real_open, str(real_sets)))
        if mo.strip() != real_open.strip() or model_sets != real_sets:
            stats["disagreements"] += 1
            if stats["disagreements"] <= 3:
                ctx.broken.append({"kind": "correspondence", "name": "mesh", "detail": {"faces": fs, "model": [mo, ms], "real": [real_open, real_sets]}})
    stats["distinct"] = len(seen)
    stats["samples"] = [{"faces": cases[0], "open": out[0], "subsets": out[1]}]
    return stats
