"""correspondence stream `mesh` (C16): get_open_edges and get_disconnected_faces_subsets of the real
code against Model/Mesh.lean on random face lists (closed polyhedra, with deleted faces, several
disjoint parts, permuted faces, renumbered vertices, flipped windings; every 8th case arbitrary triples
with repeated / degenerate faces) — exact integer comparison; and get_inwards_mask /
fix_trimesh_orientation against `inwardsMask` / `fixOrientation` (run_inwards)."""
import itertools

import numpy as np

from vlib.driver import run_driver

CUBE = [[0, 1, 3], [0, 3, 2], [4, 6, 7], [4, 7, 5], [0, 4, 5], [0, 5, 1], [2, 3, 7], [2, 7, 6], [0, 2, 6], [0, 6, 4], [1, 5, 7], [1, 7, 3]]
TETRA = [[0, 1, 2], [0, 1, 3], [0, 2, 3], [1, 2, 3]]
OCTA = [[0, 2, 4], [2, 1, 4], [1, 3, 4], [3, 0, 4], [2, 0, 5], [1, 2, 5], [3, 1, 5], [0, 3, 5]]




def _ring():
    """a square ring (one body with a through-hole, genus 1): 16 vertices, 32 faces, closed; V - F/2 = 0"""
    fs = []
    quad = lambda a, b, c, d: fs.extend([[a, b, c], [a, c, d]])  # noqa: E731
    for i in range(4):
        j = (i + 1) % 4
        quad(i, j, 4 + j, 4 + i)              # bottom annulus
        quad(8 + i, 8 + j, 12 + j, 12 + i)    # top annulus
        quad(i, j, 8 + j, 8 + i)              # outer wall
        quad(4 + i, 4 + j, 12 + j, 12 + i)    # wall of the hole
    sq = [(-1, -1), (1, -1), (1, 1), (-1, 1)]
    co = [[2 * x, 2 * y, 0] for x, y in sq] + [[x, y, 0] for x, y in sq] + [[2 * x, 2 * y, 1] for x, y in sq] + [[x, y, 1] for x, y in sq]
    return fs, co


RING, RING_COORDS = _ring()


def gen_faces(rng):
    parts, off = [], 0
    for _ in range(rng.choice([1, 1, 2, 3])):
        base = rng.choice([CUBE, TETRA, OCTA, RING])  # RING: a part with a through-hole (the Euler characteristic of a part is not always 2)
        nv = max(max(f) for f in base) + 1
        faces = [[v + off for v in f] for f in base]
        if rng.random() < 0.35:
            for _ in range(rng.choice([1, 2])):
                faces.pop(rng.randrange(len(faces)))
        if rng.random() < 0.2 and parts:  # share a vertex with the previous part (connected through a vertex)
            faces[0][0] = parts[-1][0][0]
        parts.append(faces)
        off += nv
    faces = [f for p in parts for f in p]
    rng.shuffle(faces)
    # renumber vertices, rotate / flip faces
    perm = list(range(off))
    rng.shuffle(perm)
    out = []
    for f in faces:
        f = [perm[v] for v in f]
        k = rng.randrange(3)
        f = f[k:] + f[:k]
        if rng.random() < 0.5:
            f = [f[0], f[2], f[1]]
        out.append(f)
    return out


COORDS = {
    "CUBE": [[x, y, z] for x in (-1, 1) for y in (-1, 1) for z in (-1, 1)],
    "TETRA": [[0, 0, 0], [2, 0, 0], [0, 2, 0], [0, 0, 2]],
    "OCTA": [[1, 0, 0], [-1, 0, 0], [0, 1, 0], [0, -1, 0], [0, 0, 1], [0, 0, -1]],
}
COORDS["RING"] = RING_COORDS
BASES = {"CUBE": CUBE, "TETRA": TETRA, "OCTA": OCTA, "RING": RING}


def gen_closed(rng):
    """closed bodies with coordinates: 1-3 parts (apart, or touching in one vertex), faces shuffled, vertices
    renumbered, random subset of faces flipped, windings rotated"""
    verts, faces, off = [], [], 0
    k = rng.choice([1, 1, 2, 3])
    for j in range(k):
        name = rng.choice(["CUBE", "TETRA", "OCTA", "RING"])
        co = [[c[0] + 5 * j, c[1], c[2]] for c in COORDS[name]]
        fs = [[v + off for v in f] for f in BASES[name]]
        verts += co
        faces += fs
        off += len(co)
    rng.shuffle(faces)
    perm = list(range(off))
    rng.shuffle(perm)  # new index of old vertex v is perm[v]
    v2 = [None] * off
    for old, new in enumerate(perm):
        v2[new] = verts[old]
    out = []
    pflip = rng.choice([0.0, 0.2, 0.5, 0.8, 1.0])
    for f in faces:
        f = [perm[v] for v in f]
        r = rng.randrange(3)
        f = f[r:] + f[:r]
        if rng.random() < pflip:
            f = [f[0], f[2], f[1]]
        out.append(f)
    return v2, out


def gen_any(rng):
    """arbitrary index triples for the propagation sweep with a stubbed seed test: the stream's face lists (open,
    joined through a vertex), or random triples over few vertices (non-manifold, repeated, degenerate faces)"""
    if rng.random() < 0.6:
        return gen_faces(rng)
    nv = rng.randrange(3, 9)
    return [[rng.randrange(nv) for _ in range(3)] if rng.random() < 0.15 else rng.sample(range(nv), 3) for _ in range(rng.randrange(1, 12))]


def run_inwards(ctx, n):
    """get_inwards_mask / fix_trimesh_orientation against Model/Mesh.lean `inwardsMask` / `fixOrientation`:
    (a) closed bodies, real `is_facet_inwards`, its verdicts recorded and handed to the model;
    (b) arbitrary triples, `is_facet_inwards` replaced by a table of random verdicts (pure propagation logic)"""
    import magpylib._src.fields.field_BH_triangularmesh as tm

    import signal

    def on_alarm(*_):
        raise TimeoutError

    try:
        old_handler = signal.signal(signal.SIGALRM, on_alarm)
    except ValueError:  # not in the main thread: no watchdog
        old_handler = None
    real_seed = tm.is_facet_inwards
    cases, lines, reals = [], [], []
    stats = {"meshes": 0, "real_seed": 0, "stub_seed": 0, "reseeded": 0, "with_flips": 0, "disagreements": 0, "distinct": 0,
             "inconsistent_after_fix_closed": 0}
    try:
        for i in range(n):
            rec = []
            if i % 2 == 0:
                verts, fs = gen_closed(ctx.rng)

                def seed(face, faces, rec=rec):
                    r = bool(real_seed(face, faces))
                    rec.append((len(faces), int(r)))
                    return r
                stats["real_seed"] += 1
            else:
                fs = gen_any(ctx.rng)
                verts = [[0, 0, 0]] * (max(max(f) for f in fs) + 1)
                table = [ctx.rng.randrange(2) for _ in range(len(fs) + 1)]

                def seed(face, faces, rec=rec, table=table):
                    rec.append((len(faces), table[len(faces)]))
                    return bool(table[len(faces)])
                stats["stub_seed"] += 1
            tm.is_facet_inwards = seed
            va, fa = np.array(verts, float), np.array(fs)
            try:
                if old_handler is not None:
                    signal.alarm(20)
                mask = tm.get_inwards_mask(va, fa)
                rec1 = list(rec)
                fixed = tm.fix_trimesh_orientation(va, fa)
            except TimeoutError:
                ctx.broken.append({"kind": "correspondence", "name": "mesh-inwards",
                                   "detail": {"faces": fs, "real": "get_inwards_mask did not return within 20 s", "model": "terminates (orientLoop_fuel_sufficient)"}})
                break
            finally:
                if old_handler is not None:
                    signal.alarm(0)
            enc = f"{len(fs)} " + " ".join(" ".join(map(str, f)) for f in fs)
            lines.append("mesh inwards " + enc + f" {len(rec1)} " + " ".join(f"{a} {b}" for a, b in rec1))
            reals.append("inwards left=0 mask " + "".join("1" if b else "0" for b in mask) + " faces " +
                         " ".join(",".join(str(int(v)) for v in f) for f in fixed))
            cases.append({"faces": fs, "seed_verdicts": rec1, "real_seed": i % 2 == 0})
            stats["reseeded"] += len(rec1) > 1
            stats["with_flips"] += bool(mask.any())
            if i % 2 == 0:
                d = [e for f in fixed.tolist() for e in ((f[0], f[1]), (f[1], f[2]), (f[2], f[0]))]
                stats["inconsistent_after_fix_closed"] += len(set(d)) != len(d)
    finally:
        tm.is_facet_inwards = real_seed
        if old_handler is not None:
            signal.signal(signal.SIGALRM, old_handler)
    out = run_driver(lines) if lines else []
    seen = set()
    for c, r, m in zip(cases, reals, out):
        seen.add(r)
        if r.strip() != m.strip():
            stats["disagreements"] += 1
            if stats["disagreements"] <= 3:
                ctx.broken.append({"kind": "correspondence", "name": "mesh-inwards", "detail": {**c, "model": m, "real": r}})
    if stats["inconsistent_after_fix_closed"]:
        ctx.broken.append({"kind": "correspondence", "name": "mesh-inwards", "detail": "closed body left with two faces traversing an edge in the same direction"})
    stats["meshes"] = len(cases)
    stats["distinct"] = len(seen)
    stats["samples"] = [{**cases[0], "model": out[0]}] if cases else []
    return stats


def run_stream(ctx, n):
    from magpylib._src.fields.field_BH_triangularmesh import get_disconnected_faces_subsets, get_open_edges

    cases = [gen_faces(ctx.rng) if i % 8 else gen_any(ctx.rng) for i in range(n)]
    lines = []
    for fs in cases:
        enc = f"{len(fs)} " + " ".join(" ".join(map(str, f)) for f in fs)
        lines += ["mesh open " + enc, "mesh subsets " + enc]
    out = run_driver(lines)
    stats = {"meshes": n, "open_meshes": 0, "disconnected_meshes": 0, "disagreements": 0, "distinct": 0}
    seen = set()
    for i, fs in enumerate(cases):
        a = np.array(fs)
        oe = sorted(map(tuple, get_open_edges(a).tolist()))
        real_open = ("open " + " ".join(f"{x}-{y}" for x, y in oe)).strip() if oe else "open "
        subs = get_disconnected_faces_subsets(a)
        real_sets = sorted(sorted(set(int(v) for v in s.reshape(-1))) for s in subs)
        mo, ms = out[2 * i], out[2 * i + 1]
        model_sets = sorted([int(v) for v in part.split()] for part in ms[len("subsets "):].split(" | ")) if ms.strip() != "subsets" else []
        stats["open_meshes"] += bool(oe)
        stats["disconnected_meshes"] += len(real_sets) > 1
        seen.add((real_open, str(real_sets)))
        if mo.strip() != real_open.strip() or model_sets != real_sets:
            stats["disagreements"] += 1
            if stats["disagreements"] <= 3:
                ctx.broken.append({"kind": "correspondence", "name": "mesh", "detail": {"faces": fs, "model": [mo, ms], "real": [real_open, real_sets]}})
    stats["distinct"] = len(seen)
    stats["samples"] = [{"faces": cases[0], "open": out[0], "subsets": out[1]}]
    return stats
