"""correspondence stream `selfint` (C16, C12): the self-intersection test of TriangularMesh against Model/MeshIntersect.lean
(the REPAIRED code: a zero signed volume fits both signs, segments that start or end in a corner of the facet are skipped,
r_factor = 2.0, lengths in units of the mesh size before the float32 cast).

Kind `segfacet`: `segments_intersect_facets(segments, facets, eps)` for ONE (segment, facet) pair, called on float64 arrays and on
float32 arrays (the dtype `get_intersecting_triangles` hands it), against `Kern.segFacet` evaluated by the driver in IEEE double
resp. in emulated float32 (every operation rounded).  Rows: *adversarial exact* ones on small dyadic coordinates (all products and
sums exactly representable in float32, so nothing depends on rounding): segment piercing the interior, passing exactly through an
edge, exactly through a vertex (both now reported), lying in the facet's plane, parallel to it, ending exactly in the plane, ending at
distance eps·(1 ± 2^-10) and exactly float32(eps) from the plane (axis-aligned facets: unit normal exact), starting in a corner of the
facet (the situation of adjacent mesh faces) — also on non-dyadic coordinates where the float32 plane distance of the shared corner
is rounding noise above eps (`corner-noise`: needle facets; only the exact `touch` test keeps them from being reported) —, far away,
zero-length segment, zero-area facet (NaN normal), `eps <= 0` (ValueError on both sides); and *random* rows (normal coordinates,
sizes 1e-4 … 1e4, mixed hit / miss).  The verdict is compared exactly.  A disagreement on a random row is excluded (counted as
`knife_edge_excluded`) iff one of the decisive quantities the model reports (g1, g2 against eps; the three signed volumes against 0)
lies within the band 1e-5 (float32) / 1e-12 (float64) relative of its threshold; adversarial rows are never excluded.  The real
function is also called once on each whole group of rows (same dtype and eps) and must agree with its one-row values (the model is a
map over rows).

Kind `selfint`: `get_intersecting_triangles(vertices, triangles, r, r_factor, eps)` on small meshes: boxes, boxes with faces
subdivided into 2×2 / 3×3 quads (many coplanar neighbours), tetrahedra, prisms, convex hulls, thin (needle-faced) boxes in general
position; two disjoint copies; two interpenetrating translated copies (generic shift; the half-diagonal shift of a cube, where every
edge meets the other cube's faces exactly on a face diagonal); the Stella octangula (edges crossing edges at their midpoints); a thin
spike through a face interior; two needle triangles crossing near their tips (centroids 4/3 of their length apart: inside the query
radius only with r_factor = 2); an octahedron whose equator lies in a box face (end points in the plane: still not reported); two
generic crossing triangles; meshes scaled by 1e-9 … 1e9 and translated (up to 1e7 sizes); faces shuffled; `r` None / given,
`r_factor` 1 / 1.5 / 2 / 10, `eps` 1e-6 / 1e-3.  Compared exactly: the returned index set, and the query radius (in units of the mesh
size) bit for bit when `r` is None (recomputed as the real code does).  Disagreements are excluded only when a float64 re-evaluation
finds a centre distance within 1e-12 relative of r or a predicate quantity within 1e-5 of its threshold."""
import warnings

import numpy as np

from corr.kern_family import bits, enc, unbits
from vlib.driver import run_driver

CUBE12 = np.array([[0, 1, 3], [0, 3, 2], [4, 6, 7], [4, 7, 5], [0, 4, 5], [0, 5, 1], [2, 3, 7], [2, 7, 6], [0, 2, 6], [0, 6, 4], [1, 5, 7], [1, 7, 3]])
TETRA4 = np.array([[0, 2, 1], [0, 1, 3], [1, 2, 3], [0, 3, 2]])


# ---------------------------------------------------------------------------------------------------------- segfacet rows
def _dyadic_tri(rng, axis_aligned):
    """a non-degenerate triangle on the lattice Z/4 with |coordinates| <= 4"""
    while True:
        if axis_aligned:
            z = rng.randrange(-8, 9) / 4
            t = np.array([[rng.randrange(-16, 17) / 4, rng.randrange(-16, 17) / 4, z] for _ in range(3)])
            t = t[:, rng.choice([[0, 1, 2], [1, 2, 0], [2, 0, 1]])]
        else:
            t = np.array([[rng.randrange(-16, 17) / 4 for _ in range(3)] for _ in range(3)])
        nrm = np.cross(t[1] - t[0], t[2] - t[0])
        if np.abs(nrm).sum() >= 1:
            return t, nrm


def _offplane_dir(rng, nrm):
    while True:
        d = np.array([rng.randrange(-8, 9) / 2 for _ in range(3)])
        if abs(d @ nrm) >= 0.5:
            return d


def gen_segfacet_adversarial(rng):
    """(category, eps, s0, s1, tri) on exactly representable coordinates"""
    cat = rng.choice(["interior", "edge", "vertex", "coplanar", "parallel", "end-in-plane", "at-eps", "corner-start", "far", "zero-segment",
                      "zero-area", "bad-eps", "interior", "edge", "vertex", "corner-noise", "corner-noise"])
    eps = rng.choice([1e-6, 1e-6, 1e-6, 1e-3, 0.5])
    t, nrm = _dyadic_tri(rng, axis_aligned=cat == "at-eps")
    w = rng.choice([(0.25, 0.25, 0.5), (0.5, 0.25, 0.25), (0.125, 0.125, 0.75), (0.25, 0.5, 0.25)])
    inner = w[0] * t[0] + w[1] * t[1] + w[2] * t[2]
    d = _offplane_dir(rng, nrm)
    k = rng.randrange(3)
    if cat == "interior":
        a, b = rng.choice([(1.0, 1.0), (0.5, 2.0), (2.0, 0.25)])
        s0, s1 = inner + a * d, inner - b * d
    elif cat == "edge":
        p = (t[k] + t[(k + 1) % 3]) / 2 if rng.random() < 0.7 else 0.25 * t[k] + 0.75 * t[(k + 1) % 3]
        s0, s1 = p + d, p - d
    elif cat == "vertex":
        s0, s1 = t[k] + d, t[k] - d
    elif cat == "coplanar":
        s0, s1 = inner, 2 * t[k] - inner if rng.random() < 0.5 else (t[k] + t[(k + 1) % 3]) / 2
    elif cat == "parallel":
        off = nrm / 4
        s0, s1 = inner + off, t[k] + (t[k] - inner) + off
    elif cat == "end-in-plane":
        s0, s1 = (inner + d, inner) if rng.random() < 0.5 else (inner, inner - d)
    elif cat == "at-eps":
        # axis-aligned facet: the unit normal is a signed coordinate vector, g = ± (coordinate difference) exactly
        ax = int(np.argmax(np.abs(nrm)))
        e32 = float(np.float32(eps))
        h = rng.choice([e32, eps * (1 + 2.0**-10), eps * (1 - 2.0**-10), float(np.nextafter(np.float32(eps), np.float32(1))), float(np.nextafter(np.float32(eps), np.float32(0))), eps])
        u = np.zeros(3)
        u[ax] = 1.0
        # keep the in-plane coordinates of the interior point, move along the normal only; plane coordinate chosen 0 so that h is not absorbed
        t = t.copy()
        t[:, ax] = 0.0
        inner = w[0] * t[0] + w[1] * t[1] + w[2] * t[2]
        s0, s1 = inner + h * u, inner - rng.choice([1.0, h]) * u
    elif cat == "corner-start":
        s0, s1 = t[k], t[k] + d
        if rng.random() < 0.5:
            s0, s1 = s1, s0
    elif cat == "corner-noise":
        # a needle facet in general position (non-dyadic), the segment runs from one of its corners to a point on the other side of its
        # plane as float32 sees it: in float32 the plane distance of the corner is rounding noise, often above eps
        nps = np.random.default_rng(rng.randrange(2**31))
        a = nps.normal(size=3)
        a /= np.linalg.norm(a)
        b = np.cross(a, nps.normal(size=3))
        b /= np.linalg.norm(b)
        org = nps.uniform(0, 1, 3)
        w_ = 10.0 ** nps.uniform(-4, -1)
        t = np.array([org, org + a, org + 0.5 * a + w_ * b])
        nn = np.cross(a, b)
        far_pt = org + nps.uniform(0.2, 0.8) * a + 0.3 * w_ * b + rng.choice([-1, 1]) * nps.uniform(0.05, 0.5) * nn
        eps = 1e-6
        s0, s1 = (t[k], far_pt) if rng.random() < 0.5 else (far_pt, t[k])
    elif cat == "far":
        s0, s1 = inner + 64 * d + np.array([100.0, 0, 0]), inner + 65 * d + np.array([100.0, 0, 0])
    elif cat == "zero-segment":
        s0 = s1 = inner + d
    elif cat == "zero-area":
        t = np.array([t[0], t[1], (t[0] + t[1]) / 2]) if rng.random() < 0.5 else np.array([t[0], t[0], t[0]])
        s0, s1 = inner + d, inner - d
    else:  # bad-eps
        eps = rng.choice([0.0, -1e-6])
        s0, s1 = inner + d, inner - d
    return cat, eps, np.array(s0, float), np.array(s1, float), t


def gen_segfacet_random(rng, nps):
    sc = 10.0 ** nps.uniform(-4, 4)
    t = nps.normal(size=(3, 3)) * sc
    mode = rng.random()
    w = nps.dirichlet((1, 1, 1))
    if mode < 0.5:  # aimed at the facet (inside or just outside)
        if rng.random() < 0.4:
            w = w * 1.6 - 0.2
        p = w @ t
        d = nps.normal(size=3) * sc
        s0, s1 = p + d * nps.uniform(0.05, 2), p - d * nps.uniform(0.05, 2)
    elif mode < 0.75:  # one side only
        p = w @ t
        d = nps.normal(size=3) * sc
        s0, s1 = p + d * 0.3, p + d * 1.5
    else:
        s0, s1 = nps.normal(size=3) * sc * 2, nps.normal(size=3) * sc * 2
    return "random", rng.choice([1e-6, 1e-6, 1e-3]), s0, s1, t


def real_segfacet(mod, prec, eps, s0, s1, t):
    dt = np.float32 if prec == 32 else np.float64
    seg = np.array([[s0, s1]], dtype=float).astype(dt)
    fac = np.array([t], dtype=float).astype(dt)
    try:
        with np.errstate(all="ignore"):
            return "1" if bool(mod.segments_intersect_facets(seg, fac, eps=eps)[0]) else "0"
    except ValueError:
        return "error"


def segfacet_margin(prec, eps, out_fields, s0, s1, t):
    """smallest relative distance of a decisive quantity (as the model computed it) from its threshold"""
    try:
        g1, g2, v0, v1, v2 = (unbits(x) for x in out_fields[1:6])
    except (ValueError, IndexError):
        return 0.0
    e = float(np.float32(eps)) if prec == 32 else eps
    m = []
    for g in (g1, g2):
        if not np.isfinite(g):
            return 0.0
        m.append(abs(abs(g) - e) / max(abs(g), e))
    d = np.linalg.norm(s0 - s1)
    for v, (i, j) in zip((v0, v1, v2), ((0, 1), (1, 2), (2, 0))):
        if not np.isfinite(v):
            return 0.0
        sc = np.linalg.norm(t[i] - s1) * np.linalg.norm(t[j] - s1) * d
        m.append(abs(v) / sc if sc > 0 else 0.0)
    # the sign comparison of g1, g2 only matters when both exceed eps, so |g| near 0 is covered by the eps margin
    return float(min(m))


# ------------------------------------------------------------------------------------------------------------ selfint rows
def box(d, off=(0, 0, 0)):
    v = np.array([[x, y, z] for x in (-1, 1) for y in (-1, 1) for z in (-1, 1)], float) * np.asarray(d, float) / 2 + np.asarray(off, float)
    return v, CUBE12.copy()


def tetra(nps):
    v = nps.normal(size=(4, 3))
    return v, TETRA4.copy()


def prism(nps, k):
    ph = np.sort(nps.uniform(0, 2 * np.pi, k))
    ring = np.stack([np.cos(ph), np.sin(ph)], axis=1)
    v = np.concatenate([np.c_[ring, -0.5 * np.ones(k)], np.c_[ring, 0.5 * np.ones(k)]])
    f = []
    for i in range(1, k - 1):
        f += [[0, i + 1, i], [k, k + i, k + i + 1]]
    for i in range(k):
        j = (i + 1) % k
        f += [[i, j, k + j], [i, k + j, k + i]]
    return v, np.array(f)


def hull(nps, n):
    from scipy.spatial import ConvexHull
    p = nps.normal(size=(n, 3))
    p /= np.linalg.norm(p, axis=1)[:, None]
    return p, ConvexHull(p).simplices.copy()


def two_copies(v, f, shift):
    return np.concatenate([v, v + shift]), np.concatenate([f, f + len(v)])


def needle_pair(L, w, delta):
    """two needle triangles (base w, length L) pointing at each other along x, in perpendicular planes, tips overlapping by 2·delta:
    they cross each other (each one's long edges pass through the other), centroids 4L/3 apart"""
    a = np.array([[-L, -w / 2, 0.0], [-L, w / 2, 0.0], [delta, 0.0, 0.0]])
    b = np.array([[L, 0.0, -w / 2], [L, 0.0, w / 2], [-delta, 0.0, 0.0]])
    return np.concatenate([a, b]), np.array([[0, 1, 2], [3, 4, 5]])


def spike_box(nps):
    v, f = box((2.0, 2.0, 2.0))
    w = nps.dirichlet((3, 3, 3))
    c = w @ v[[4, 6, 7]]
    e = 0.03
    spike = np.array([c + (1.5, 0, 0), c + (-0.6, e, 0), c + (-0.6, -e, e), c + (-0.6, -e, -e)])
    sf = np.array([[0, 1, 2], [0, 2, 3], [0, 3, 1], [1, 3, 2]])
    return np.concatenate([v, spike]), np.concatenate([f, sf + 8])


def gridbox(n, d):
    """box whose faces are subdivided into n x n quads (two triangles each), shared vertices merged: coplanar neighbours"""
    pts, V, F = {}, [], []

    def vid(p):
        key = tuple(np.round(p, 12))
        if key not in pts:
            pts[key] = len(V)
            V.append(p)
        return pts[key]
    g = np.linspace(-0.5, 0.5, n + 1)
    for ax in range(3):
        for side in (-0.5, 0.5):
            for i in range(n):
                for j in range(n):
                    q = []
                    for (a, b) in ((g[i], g[j]), (g[i + 1], g[j]), (g[i + 1], g[j + 1]), (g[i], g[j + 1])):
                        p = np.zeros(3)
                        p[ax], p[(ax + 1) % 3], p[(ax + 2) % 3] = side, a, b
                        q.append(vid(p * np.asarray(d, float)))
                    F += [[q[0], q[1], q[2]], [q[0], q[2], q[3]]]
    return np.array(V), np.array(F)


def rotated(nps, v):
    from scipy.spatial.transform import Rotation
    return Rotation.random(random_state=int(nps.integers(2**31))).apply(v)


STELLA = (np.array([(1, 1, 1), (1, -1, -1), (-1, 1, -1), (-1, -1, 1), (-1, -1, -1), (-1, 1, 1), (1, -1, 1), (1, 1, -1)], float),
          np.array([[0, 1, 2], [0, 3, 1], [0, 2, 3], [1, 3, 2], [4, 5, 6], [4, 6, 7], [4, 7, 5], [5, 7, 6]]))
OCTA = (np.array([(1, 0, 0), (0, 1, 0), (-1, 0, 0), (0, -1, 0), (0, 0, 1), (0, 0, -1)], float),
        np.array([[0, 1, 4], [1, 2, 4], [2, 3, 4], [3, 0, 4], [1, 0, 5], [2, 1, 5], [3, 2, 5], [0, 3, 5]]))


def octa_on_box(dz):
    """a small octahedron whose equator lies in (dz = 0) / near the top face of a box, away from the face's diagonal"""
    bv, bf = box((4.0, 4.0, 2.0), (0, 0, -1.0))
    return np.concatenate([bv, OCTA[0] * 0.25 + (1.25, 0.0, dz)]), np.concatenate([bf, OCTA[1] + 8])


def gen_selfint(rng, nps):
    kind = rng.choice(["box", "tetra", "prism", "hull", "disjoint", "interpenetrating", "interpenetrating", "half-diagonal", "spike", "needles",
                       "two-triangles", "interpenetrating-tetra", "gridbox", "thin-box", "stella", "far-needles", "octa-on-box"])
    if kind == "box":
        v, f = box(nps.uniform(0.5, 2, 3))
    elif kind == "gridbox":
        v, f = gridbox(rng.choice([2, 2, 3]), nps.uniform(0.5, 2, 3))
        if rng.random() < 0.6:
            v = rotated(nps, v)
    elif kind == "thin-box":
        v, f = box((1.0, 10.0 ** nps.uniform(-3, -1), 10.0 ** nps.uniform(-3, -1)))
        v = rotated(nps, v)
    elif kind == "stella":
        v, f = STELLA[0].copy(), STELLA[1].copy()
    elif kind == "far-needles":
        # two needles crossing near their tips, tips off each other's plane: centroids 4L/3 apart
        L, w_, d_ = rng.choice([1.0, 3.0]), rng.choice([0.1, 0.05]), rng.choice([0.05, 0.2])
        v, f = needle_pair(L, w_, d_)
        v[2] += (0.0, 0.04 * w_, 0.0)
        v[5] += (0.0, 0.0, -0.03 * w_)
    elif kind == "octa-on-box":
        v, f = octa_on_box(rng.choice([0.0, 0.0, -1e-3, 1e-3, -2e-6]))
    elif kind == "tetra":
        v, f = tetra(nps)
    elif kind == "prism":
        v, f = prism(nps, rng.choice([3, 4, 6]))
    elif kind == "hull":
        v, f = hull(nps, rng.choice([5, 8, 12]))
    elif kind == "disjoint":
        v, f = box(nps.uniform(0.5, 2, 3))
        v, f = two_copies(v, f, np.array([rng.choice([2.5, 4.0, 10.0]), 0, 0]))
    elif kind == "interpenetrating":
        v, f = box(nps.uniform(0.5, 2, 3)) if rng.random() < 0.6 else prism(nps, rng.choice([4, 6]))
        v, f = two_copies(v, f, np.ptp(v, axis=0) * nps.uniform(0.1, 0.6, 3))
    elif kind == "interpenetrating-tetra":
        v, f = tetra(nps)
        v, f = two_copies(v, f, np.ptp(v, axis=0) * nps.uniform(0.05, 0.3, 3))
    elif kind == "half-diagonal":
        s = rng.choice([1.0, 2.0, 0.5])
        v, f = box((s, s, s))
        v, f = two_copies(v, f, np.array([s / 2, s / 2, s / 2]))
    elif kind == "spike":
        v, f = spike_box(nps)
    elif kind == "needles":
        v, f = needle_pair(rng.choice([1.0, 3.0]), rng.choice([0.1, 0.05]), rng.choice([0.01, 0.05, 0.2]))
    else:
        v = nps.normal(size=(6, 3))
        f = np.array([[0, 1, 2], [3, 4, 5]])
    # scale, translation, face order
    lattice = kind in ("half-diagonal", "stella")
    sc = rng.choice([1.0, 1.0, 1.0, 1e-9, 1e-7, 1e-5, 1e-3, 1e2, 1e4, 1e6, 1e9]) if not lattice else rng.choice([1.0, 2.0**-10, 2.0**6, 1e-9, 1e9])
    v = v * sc
    if rng.random() < 0.3:
        v = v + (np.array([rng.randrange(-4, 5) for _ in range(3)]) * (sc if lattice else sc * nps.uniform(0.5, 3)))
    elif rng.random() < 0.15:
        v = v + np.array([1e7, -2e7, 3e7]) * sc
    f = f[nps.permutation(len(f))]
    r = None
    rf = rng.choice([2.0, 2.0, 2.0, 1.0, 1.5, 10.0])
    if rng.random() < 0.15:
        r = float(sc * rng.choice([0.5, 1.0, 10.0]))
    eps = rng.choice([1e-6, 1e-6, 1e-6, 1e-3])
    return kind, sc, v, f, r, rf, eps


def _normalised(v, r):
    """lengths in units of the mesh size, measured from the lower corner of the bounding box (as the code does it, float64)"""
    v = np.asarray(v, dtype=float)
    size = np.max(np.ptp(v, axis=0))
    if size > 0:
        v = (v - np.min(v, axis=0)) / size
        if r is not None:
            r = r / size
    return v, r


def real_selfint(mod, v, f, r, rf, eps):
    with np.errstate(all="ignore"), warnings.catch_warnings():
        warnings.simplefilter("ignore")
        res = mod.get_intersecting_triangles(np.array(v, float), np.array(f), r=r, r_factor=rf, eps=eps)
        radius = None
        if r is None:
            v32 = _normalised(v, None)[0].astype(np.float32)
            fac = v32[f]
            cen = np.mean(fac, axis=1)
            radius = rf * np.sqrt(((fac - cen[:, None, :]) ** 2).sum(-1)).max()
    return [int(i) for i in res], radius


def selfint_margin(v, f, r, rf, eps):
    """float64 re-evaluation: smallest relative margin of any pair's centre distance from r and of any predicate quantity"""
    vn, r = _normalised(v, r)
    v32 = vn.astype(np.float32).astype(float)
    fac = v32[f]
    cen = fac.mean(axis=1)
    rr = r if r is not None else rf * np.sqrt(((fac - cen[:, None, :]) ** 2).sum(-1)).max()
    m = [1.0]
    for i in range(len(f)):
        for j in range(len(f)):
            if i == j:
                continue
            d = np.linalg.norm(cen[i] - cen[j])
            m.append(abs(d - rr) / max(rr, 1e-300))
            if d > rr * (1 + 1e-6):
                continue
            t = fac[j]
            nrm = np.cross(t[2] - t[0], t[2] - t[1])
            nn = np.linalg.norm(nrm)
            if nn == 0:
                return 0.0
            nrm = nrm / nn
            for a, b in ((0, 1), (1, 2), (2, 0)):
                s0, s1 = fac[i][a], fac[i][b]
                g = [nrm @ (s0 - t[2]), nrm @ (s1 - t[2])]
                if not all(abs(x) > eps * (1 + 1e-4) for x in g):
                    if any(abs(abs(x) - eps) <= 1e-4 * eps for x in g):
                        return 0.0
                    continue
                if np.sign(g[0]) == np.sign(g[1]):
                    continue
                dl = np.linalg.norm(s0 - s1)
                for p, q in ((0, 1), (1, 2), (2, 0)):
                    sv = (t[p] - s1) @ np.cross(t[q] - s1, s0 - s1)
                    scl = np.linalg.norm(t[p] - s1) * np.linalg.norm(t[q] - s1) * dl
                    m.append(abs(sv) / scl if scl > 0 else 0.0)
    return float(min(m))


# ------------------------------------------------------------------------------------------------------------------ stream
def run_selfint_stream(ctx, n_cases):
    import magpylib._src.fields.field_BH_triangularmesh as mod

    rng = ctx.rng
    st = {"segfacet_rows": 0, "segfacet_true": 0, "segfacet_categories": {}, "segfacet_errors": 0, "selfint_rows": 0, "selfint_flagged": 0,
          "selfint_kinds": {}, "selfint_flagged_by_kind": {}, "radius_rows": 0, "disagreements": 0, "knife_edge_excluded": 0, "batch_vs_single_disagreements": 0,
          "tolerance": "verdicts and index sets exact; query radius bit for bit; exclusion band 1e-5 (float32) / 1e-12 (float64) on random rows only"}
    lines, expect = [], []
    groups = {}
    n_seg = n_cases
    for i in range(n_seg):
        nps = np.random.default_rng(rng.randrange(2**31))
        cat, eps, s0, s1, t = gen_segfacet_adversarial(rng) if i % 2 == 0 else gen_segfacet_random(rng, nps)
        for prec in (32, 64):
            real = real_segfacet(mod, prec, eps, s0, s1, t)
            lines.append(f"trimesh segfacet {prec} {bits(eps)} {enc(s0)} {enc(s1)} {enc(t)}")
            expect.append(("segfacet", real, cat, prec, eps, s0, s1, t))
            st["segfacet_rows"] += 1
            st["segfacet_true"] += real == "1"
            st["segfacet_errors"] += real == "error"
            st["segfacet_categories"][cat] = st["segfacet_categories"].get(cat, 0) + 1
            if real != "error":
                groups.setdefault((prec, eps), []).append((s0, s1, t, real))
    for (prec, eps), rows in groups.items():
        dt = np.float32 if prec == 32 else np.float64
        seg = np.array([[a, b] for a, b, _, _ in rows], float).astype(dt)
        fac = np.array([t for _, _, t, _ in rows], float).astype(dt)
        with np.errstate(all="ignore"):
            got = ["1" if b else "0" for b in mod.segments_intersect_facets(seg, fac, eps=eps)]
        if got != [r for _, _, _, r in rows]:
            st["batch_vs_single_disagreements"] += 1
            ctx.broken.append({"kind": "correspondence", "name": "selfint", "detail": {"what": "segments_intersect_facets on a batch differs from one row at a time", "prec": prec, "eps": eps}})
    n_mesh = max(40, n_cases // 2)
    for i in range(n_mesh):
        nps = np.random.default_rng(rng.randrange(2**31))
        kind, sc, v, f, r, rf, eps = gen_selfint(rng, nps)
        real, radius = real_selfint(mod, v, f, r, rf, eps)
        lines.append(f"trimesh selfint {0 if r is None else 1} {bits(0.0 if r is None else r)} {bits(rf)} {bits(eps)} {len(v)} {enc(v)} {len(f)} " + " ".join(str(int(x)) for x in f.ravel()))
        expect.append(("selfint", real, kind, radius, (v, f, r, rf, eps), None, None, None))
        st["selfint_rows"] += 1
        st["selfint_kinds"][kind] = st["selfint_kinds"].get(kind, 0) + 1
        if real:
            st["selfint_flagged"] += 1
            st["selfint_flagged_by_kind"][kind] = st["selfint_flagged_by_kind"].get(kind, 0) + 1
    out = run_driver(lines)
    samples = []
    for o, e in zip(out, expect):
        if e[0] == "segfacet":
            _, real, cat, prec, eps, s0, s1, t = e
            fields = o.split()
            if fields and fields[0] == real:
                if real == "1" and len(samples) < 1:
                    samples.append({"kind": "segfacet", "category": cat, "dtype": f"float{prec}", "eps": eps, "segment": [s0.tolist(), s1.tolist()], "facet": t.tolist(), "intersects": True})
                continue
            margin = segfacet_margin(prec, eps, fields, s0, s1, t) if cat == "random" else None
            if margin is not None and margin <= (1e-5 if prec == 32 else 1e-12):
                st["knife_edge_excluded"] += 1
                continue
            st["disagreements"] += 1
            if st["disagreements"] <= 3:
                ctx.broken.append({"kind": "correspondence", "name": "selfint", "detail": {"function": "segments_intersect_facets", "category": cat, "dtype": f"float{prec}", "eps": eps,
                                   "model": o, "real": real, "min_relative_margin": margin, "segment": [s0.tolist(), s1.tolist()], "facet": t.tolist()}})
        else:
            _, real, kind, radius, (v, f, r, rf, eps), _, _, _ = e
            want = "idx:" + "".join(f" {k}" for k in real)
            head, _, rb = o.partition(" r=")
            ok = head.strip() == want.strip()
            rad_ok = True
            if radius is not None:
                st["radius_rows"] += 1
                rad_ok = rb.strip() == bits(float(radius))
            if ok and rad_ok:
                if real and len(samples) < 3 and kind in ("interpenetrating", "spike", "stella", "far-needles"):
                    samples.append({"kind": "selfint", "mesh": kind, "faces": len(f), "reported": real})
                continue
            margin = selfint_margin(v, f, r, rf, eps) if rad_ok else None
            if margin is not None and margin <= 1e-5:
                st["knife_edge_excluded"] += 1
                continue
            st["disagreements"] += 1
            if st["disagreements"] <= 3:
                ctx.broken.append({"kind": "correspondence", "name": "selfint", "detail": {"function": "get_intersecting_triangles", "mesh": kind, "model": o, "real": want,
                                   "real_radius_bits": None if radius is None else bits(float(radius)), "min_relative_margin": margin,
                                   "vertices": np.asarray(v).tolist(), "faces": np.asarray(f).tolist(), "r": r, "r_factor": rf, "eps": eps}})
    st["samples"] = samples
    return st
