"""correspondence stream `sstate` (C20): random HISTORIES of operations on the real `magpylib.defaults` and on the
`.style` of real objects — `update` (nested dict / magic keywords / both, on the root or on a sub-object, all flag
combinations), attribute assignment (leaf values, None, dicts, strings for sub-objects, unknown names, method names,
the deprecated alias), `defaults.reset()`, `defaults.display.style.reset()`, `obj.style = dict / None / other.style`,
reads — against Model/StyleState.lean running on the regenerated class structure (Gen/StyleSchema.lean).

After EVERY operation the outcome (ok / exception class / value read) and the complete `as_dict()` of the object
touched are compared exactly (values as indices into the regenerated value panel), at the end the trees of all objects.
Rejected multi-key updates (valid keys before an invalid name / value, the alias next to an offender) are generated on
purpose (`gen_rejected_update`): since repo fix cea5f08 nothing may have changed after the rejection.
`magpylib.defaults` is process-global: it is reset before and after every history (try/finally) and instance
attributes that shadow methods are removed again.

Observed on the real heap in addition (no model involved): after every history no property object is reachable from
two different objects' styles or from an object and the defaults; a final `defaults.reset()` gives back the pristine
`as_dict()`."""
import copy
import os
import sys

from vlib.driver import run_driver

sys.path.insert(0, os.path.join(os.path.dirname(os.path.abspath(__file__)), "..", "translate"))

ERRK = {AssertionError: "assertion", AttributeError: "attribute", ValueError: "value", TypeError: "type"}
_P = [None]


def schema():
    if _P[0] is None:
        import magpylib
        import style_schema

        try:
            _P[0] = style_schema.probe()
        finally:
            magpylib.defaults.reset()
    return _P[0]


# ---------------------------------------------------------------- encoding
def enc_key(k):
    return "s" + k


def enc_val(P, v):
    if isinstance(v, dict):
        return " ".join([f"D {len(v)}"] + [enc_key(k) + " " + enc_val(P, x) for k, x in v.items()])
    if v is None:
        return "N"
    return f"L {P['index'].get(P['canon'](v), 9999)}"


def enc_model(t):
    """a tree of panel indices (what the generator produces) in the driver's grammar"""
    if isinstance(t, dict):
        return " ".join([f"D {len(t)}"] + [enc_key(k) + " " + enc_model(x) for k, x in t.items()])
    if t is None:
        return "N"
    return f"L {t}"


def to_real(P, t):
    if isinstance(t, dict):
        return {k: to_real(P, x) for k, x in t.items()}
    if t is None:
        return None
    return copy.deepcopy(P["panel"][t])


def enc_path(p):
    return " ".join([str(len(p))] + [enc_key(k) for k in p])


# ---------------------------------------------------------------- what the classes look like
def sub_paths(P, cls, pre=()):
    """(path, kind, info) of every property below class `cls`: kind leaf (info = validator row id) / obj (class) / alias"""
    for p, k, x in P["classes"][cls]["props"]:
        yield pre + (p,), k, x
        if k == "obj":
            yield from sub_paths(P, x, pre + (p,))


def pick_leaf_value(rng, P, vid):
    row = P["vrows"][vid]
    r = rng.random()
    if r < 0.12:
        return None
    ok = [j for j, o in enumerate(row["vals"]) if o[0] == "ok"]
    if r < 0.75 and ok:
        return rng.choice(ok)
    return rng.randrange(len(P["panel"]))


def gen_entry(rng, P, cls):
    """one (relative path, value) below class `cls`, sometimes with a wrong name"""
    subs = list(sub_paths(P, cls))
    path, kind, info = rng.choice(subs)
    path = list(path)
    r = rng.random()
    if kind == "leaf":
        val = pick_leaf_value(rng, P, info) if r < 0.96 else {"x": None}
    elif kind == "alias":
        val = rng.choice([None, 15, 8, 21, rng.randrange(len(P["panel"]))])
    else:
        if r < 0.2:
            val = None
        elif r < 0.3:
            val = {}
        elif r < 0.45:
            val = rng.randrange(len(P["panel"]))      # a scalar for a sub-object: ValueError, or the string shorthand
        else:
            val = {}
            for _ in range(rng.choice([1, 1, 2, 3])):
                q, v = gen_entry(rng, P, info)
                cut = rng.randrange(len(q) + 1)
                for k in reversed(q[cut:]):
                    v = {k: v}
                if cut == 0:
                    if isinstance(v, dict):
                        val.update(v)
                else:
                    val["_".join(q[:cut])] = v
    r = rng.random()
    if r < 0.06:
        path[rng.randrange(len(path))] = rng.choice(["bogus", "colour", "x", "size", "show"])
    elif r < 0.09:
        path.append(rng.choice(["bogus", "x", "color"]))
    return path, val


def gen_update(rng, P, i, cls):
    objs = [(), *[p for p, k, _ in sub_paths(P, cls) if k == "obj"]]
    recv = list(rng.choice(objs)) if rng.random() < 0.45 else []
    rcls = cls
    for k in recv:
        rcls = next(x for p, kk, x in P["classes"][rcls]["props"] if p == k)
    if rng.random() < 0.04:
        recv = recv + [rng.choice(["bogus", "color", "size"])]
    arg, kwargs = ({} if rng.random() < 0.6 else None), {}
    r = rng.random()
    if r < 0.05:
        name = odd_name(rng, P, rcls)
        if name != "__slotnames__":
            return ("U", i, recv, None, {name: rng.choice([None, 8])}, True, False)
    if r < 0.09 and arg is not None:
        # a scalar as `arg` (`arg.copy()` -> AttributeError); not a list: `[].copy()` works and `{**[]}` is a TypeError
        arg = rng.choice([j for j, v in enumerate(P["panel"]) if not isinstance(v, list)])
    else:
        for _ in range(rng.choice([0, 1, 1, 1, 2, 2, 3])):
            q, v = gen_entry(rng, P, rcls)
            cut = rng.randrange(len(q) + 1)
            for k in reversed(q[cut:]):
                v = {k: v}
            tgt = arg if (arg is not None and rng.random() < 0.5) else kwargs
            if cut == 0:
                if isinstance(v, dict):
                    tgt.update(v)
            else:
                tgt[("_" if rng.random() < 0.01 else "") + "_".join(q[:cut])] = v
    mt = rng.random() < 0.85
    rno = rng.random() < 0.15
    return ("U", i, recv, arg, kwargs, mt, rno)


def odd_name(rng, P, cls):
    """a non-property name: a method, a dunder name, an existing private slot, the frozen flag, an unknown underscored name"""
    info = P["classes"][cls]
    r = rng.random()
    if r < 0.3:
        return rng.choice([m for m in info["methods"] if not m.startswith("__")] + ["copy", "update", "as_dict", "reset", "add_trace"])
    if r < 0.5:
        return rng.choice([m for m in info["methods"] if m.startswith("__")] + ["__doc__", "__module__", "__dict__"])
    if r < 0.75:
        return rng.choice(["_" + p for p, _, _ in info["props"]] + ["_MagicProperties__isfrozen"])
    return rng.choice(["_zzz", "__zzz__", "_bogus", "_", "__", "_colour", "zzz_", "copy_"])


def class_at(P, cls, path):
    """class of the sub-object at `path` (None if the path does not lead to a sub-object)"""
    for k in path:
        nxt = [x for p, kk, x in P["classes"][cls]["props"] if p == k and kk == "obj"]
        if not nxt:
            return None
        cls = nxt[0]
    return cls


def gen_rejected_update(rng, P, i, cls):
    """an update that must be REJECTED after some of its keys were already assigned: one to three valid leaf entries
    (accepted values) plus one offender — an unknown name at some depth, a value the leaf's setter refuses, or the
    deprecated alias next to an invalid value — in random notation, on the root or on a sub-object"""
    objs = [(), *[p for p, k, _ in sub_paths(P, cls) if k == "obj"]]
    aliases = [p for p, k, _ in sub_paths(P, cls) if k == "alias"]
    if aliases and rng.random() < 0.3:          # magnetization.update(size=…, mode='bogus') and the like, from any level above
        ap = rng.choice(aliases)
        recv = list(ap[:rng.randrange(len(ap))])
    else:
        recv = list(rng.choice(objs)) if rng.random() < 0.6 else []
    rcls = class_at(P, cls, recv)
    leaves = [(p, x) for p, k, x in sub_paths(P, rcls) if k == "leaf"]
    entries = []
    for p, vid in rng.sample(leaves, min(len(leaves), rng.choice([1, 2, 3]))):
        ok = [j for j, o in enumerate(P["vrows"][vid]["vals"]) if o[0] == "ok"]
        entries.append((list(p), rng.choice(ok) if ok else None))
    sub_alias = [p for p, k, _ in sub_paths(P, rcls) if k == "alias"]
    r = rng.random()
    if sub_alias and r < 0.35:                  # the alias with a good value, and an offender next to it
        entries.append((list(rng.choice(sub_alias)), rng.choice([8, 15, 10])))
        r = rng.random() * 0.65 + 0.35
    if r < 0.7:                                  # unknown name at some depth
        p, _ = rng.choice(leaves)
        p = list(p)
        p[rng.randrange(len(p))] = rng.choice(["bogus", "colour", "zzz"])
        entries.append((p, rng.choice([None, 8])))
    else:                                        # a value the setter refuses
        for _ in range(20):
            p, vid = rng.choice(leaves)
            bad = [j for j, o in enumerate(P["vrows"][vid]["vals"]) if o[0] == "err"]
            if bad and not any(q == list(p) for q, _ in entries):
                entries.append((list(p), rng.choice(bad)))
                break
    rng.shuffle(entries)
    arg, kwargs = ({} if rng.random() < 0.5 else None), {}
    for q, v in entries:
        cut = rng.randrange(1, len(q) + 1)
        for k in reversed(q[cut:]):
            v = {k: v}
        tgt = arg if (arg is not None and rng.random() < 0.5) else kwargs
        key = "_".join(q[:cut])
        if isinstance(v, dict) and isinstance(tgt.get(key), dict):
            tgt[key] = {**tgt[key], **v}        # two entries below the same key in nested notation (one level merged)
        else:
            tgt[key] = v
    return ("U", i, recv, arg, kwargs, True, rng.random() < 0.1)


def gen_setattr(rng, P, i, cls):
    q, v = gen_entry(rng, P, cls)
    if rng.random() < 0.1:
        c = class_at(P, cls, q[:-1])
        if c is not None:
            q = q[:-1] + [odd_name(rng, P, c)]
            v = rng.choice([None, 8])
    return ("S", i, q[:-1], q[-1], v)


def gen_history(rng, P):
    objects = P["objects"]
    n = rng.choice([0, 1, 1, 2, 2, 3])
    objs = [rng.randrange(len(objects)) for _ in range(n)]
    ops = []
    for _ in range(rng.choice([2, 3, 4, 6, 8, 12])):
        i = rng.randrange(n + 1) if rng.random() < 0.75 else 0
        cls = P["root"] if i == 0 else objects[objs[i - 1]][1]
        r = rng.random()
        if r < 0.13:
            ops.append(gen_rejected_update(rng, P, i, cls))
        elif r < 0.42:
            ops.append(gen_update(rng, P, i, cls))
        elif r < 0.72:
            ops.append(gen_setattr(rng, P, i, cls))
        elif r < 0.8:
            ops.append(("R",))
        elif r < 0.84:
            ops.append(("RS",))
        elif r < 0.9 and n:
            j = rng.randrange(1, n + 1)
            c = objects[objs[j - 1]][1]
            rr = rng.random()
            if rr < 0.25:
                v = None
            elif rr < 0.35:
                v = rng.randrange(len(P["panel"]))
            else:
                v = {}
                for _ in range(rng.choice([0, 1, 2])):
                    q, x = gen_entry(rng, P, c)
                    for k in reversed(q[1:]):
                        x = {k: x}
                    v[q[0]] = x
            ops.append(("Y", j, v))
        elif r < 0.94 and n:
            ops.append(("YO", rng.randrange(1, n + 1), rng.randrange(1, n + 1)))
        else:
            subs = [()] + [p for p, _, _ in sub_paths(P, cls)]
            q = list(rng.choice(subs))
            if rng.random() < 0.05:
                q.append("bogus")
            ops.append(("G", i, q))
    return objs, ops


def enc_op(op):
    if op[0] == "U":
        _, i, recv, arg, kwargs, mt, rno = op
        return f"U {i} {enc_path(recv)} {'-' if arg is None else 'A ' + enc_model(arg)} {enc_model(kwargs)} {int(mt)} {int(rno)}"
    if op[0] == "S":
        _, i, recv, name, v = op
        return f"S {i} {enc_path(recv)} {enc_key(name)} {enc_model(v)}"
    if op[0] == "Y":
        return f"Y {op[1]} {enc_model(op[2])}"
    if op[0] == "YO":
        return f"YO {op[1]} {op[2]}"
    if op[0] == "G":
        return f"G {op[1]} {enc_path(op[2])}"
    return op[0]


def enc_history(P, objs, ops):
    seen = []
    for c in [P["root"]] + [c for _, c in P["objects"]]:
        if c not in seen:
            seen.append(c)
    cls = [seen.index(P["objects"][o][1]) for o in objs]
    return " ".join(["sstate hist", str(len(objs)), *map(str, cls), str(len(ops)), *[enc_op(o) for o in ops]])


# ---------------------------------------------------------------- the real thing
def clean_shadows(root):
    """remove instance attributes that shadow methods (created by `X.copy = 1`), recursively; returns how many"""
    from magpylib._src.defaults.defaults_utility import MagicProperties

    n = 0
    stack, seen = [root], set()
    while stack:
        o = stack.pop()
        if id(o) in seen:
            continue
        seen.add(id(o))
        for k in list(vars(o)):
            if not k.startswith("_"):
                object.__delattr__(o, k)
                n += 1
        for v in vars(o).values():
            if isinstance(v, MagicProperties):
                stack.append(v)
    return n


def prop_objects(root):
    from magpylib._src.defaults.defaults_utility import MagicProperties

    out, stack = {}, [root]
    while stack:
        o = stack.pop()
        if id(o) in out:
            continue
        out[id(o)] = o
        for v in vars(o).values():
            if isinstance(v, MagicProperties):
                stack.append(v)
    return out


def make_object(name):
    import magpylib as magpy

    if name == "TriangularMesh":
        return magpy.magnet.TriangularMesh.from_ConvexHull(points=[(0, 0, 0), (1, 0, 0), (0, 1, 0), (0, 0, 1)], polarization=(0, 0, 1))
    return {"Cuboid": magpy.magnet.Cuboid, "Sensor": magpy.Sensor, "Circle": magpy.current.Circle, "Dipole": magpy.misc.Dipole, "Triangle": magpy.misc.Triangle,
            "Collection": magpy.Collection, "CustomSource": magpy.misc.CustomSource}[name]()


def run_real(P, objs, ops, pristine, stats):
    """outcome and tree after every op, final trees; heap / reset observations into `stats`"""
    import magpylib as magpy
    from magpylib._src.defaults.defaults_utility import MagicProperties

    magpy.defaults.reset()
    outs, notes = [], []
    try:
        real = [make_object(P["objects"][o][0]) for o in objs]

        def root(i):
            return magpy.defaults if i == 0 else real[i - 1].style

        def tree(i):
            return enc_val(P, root(i).as_dict())

        for op in ops:
            touched = 0
            try:
                if op[0] == "U":
                    _, i, recv, arg, kwargs, mt, rno = op
                    touched = i
                    x = root(i)
                    for k in recv:
                        x = getattr(x, k)
                    ids_before = set(prop_objects(root(i)))
                    try:
                        x.update(to_real(P, arg), _match_properties=mt, _replace_None_only=rno, **to_real(P, kwargs))
                    except Exception:
                        # heap observation (no model): a rejected update leaves the very same property objects in place
                        stats["rejected_updates_heap_checked"] += 1
                        if set(prop_objects(root(i))) != ids_before:
                            notes.append(("rejected-update-replaced-objects", f"object {i}: property objects differ after a rejected update"))
                        raise
                    res = "err shadow" if clean_shadows(root(i)) else "ok"
                elif op[0] == "S":
                    _, i, recv, name, v = op
                    touched = i
                    x = root(i)
                    for k in recv:
                        x = getattr(x, k)
                    if isinstance(x, MagicProperties) and not isinstance(getattr(type(x), name, None), property):
                        # a non-property name: AttributeError = rejected; anything else (stored as a plain attribute, or
                        # another exception such as TypeError for `__dict__ = 1`) = `shadow`; the instance is put back
                        saved = dict(vars(x))
                        try:
                            setattr(x, name, to_real(P, v))
                            res = "err shadow"
                        except AttributeError:
                            res = "err attribute"
                        except Exception:  # noqa: BLE001
                            res = "err shadow"
                        finally:
                            vars(x).clear()
                            vars(x).update(saved)
                    else:
                        setattr(x, name, to_real(P, v))
                        res = "ok"
                elif op[0] == "R":
                    magpy.defaults.reset()
                    res = "ok"
                elif op[0] == "RS":
                    magpy.defaults.display.style.reset()
                    res = "ok"
                elif op[0] == "Y":
                    touched = op[1]
                    real[op[1] - 1].style = to_real(P, op[2])
                    res = "ok"
                elif op[0] == "YO":
                    touched = op[1]
                    real[op[1] - 1].style = real[op[2] - 1].style
                    res = "ok"
                else:
                    _, i, q = op
                    touched = i
                    x = root(i)
                    for k in q:
                        x = getattr(x, k)
                    res = "val " + enc_val(P, x.as_dict() if isinstance(x, MagicProperties) else x)
            except Exception as e:  # noqa: BLE001
                res = "err " + ERRK.get(type(e), "other:" + type(e).__name__)
                clean_shadows(root(touched))
            outs.append(res + " @ " + tree(touched))
        final = " | ".join(tree(i) for i in range(len(real) + 1))
        # heap: no property object reachable from two roots
        sets = [set(prop_objects(root(i))) for i in range(len(real) + 1)]
        for a in range(len(sets)):
            for b in range(a + 1, len(sets)):
                stats["heap_pairs_checked"] += 1
                if sets[a] & sets[b]:
                    notes.append(("style-objects-shared", f"objects {a} and {b} share {len(sets[a] & sets[b])} property objects"))
        # stability: `X.update()` re-assigns every property from as_dict(); on every state reached it must change nothing
        for i in range(len(real) + 1):
            before = tree(i)
            try:
                root(i).update()
                same = tree(i) == before
            except Exception:  # noqa: BLE001
                same = False
            stats["stable_states_checked"] += 1
            if not same:
                notes.append(("state-not-stable", f"object {i}: update() without arguments changes as_dict() or raises"))
        magpy.defaults.reset()
        stats["final_reset_checked"] += 1
        if magpy.defaults.as_dict() != pristine:
            notes.append(("reset-does-not-restore", "defaults.reset() after the history does not give the initial as_dict()"))
    finally:
        clean_shadows(magpy.defaults)
        magpy.defaults.reset()
    return " ; ".join(outs) + " || " + final, notes


# ---------------------------------------------------------------- the stream
def run_stream(ctx, n):
    import magpylib as magpy

    P = schema()
    rng = ctx.rng
    magpy.defaults.reset()
    pristine = magpy.defaults.as_dict()
    stats = {"odd_names": {}, "histories": 0, "ops": 0, "ops_by_kind": {}, "rejected_by_kind": {}, "accepted": 0, "resets": 0, "style_resets": 0, "max_path_depth": 0,
             "objects": 0, "disagreements": 0, "heap_pairs_checked": 0, "rejected_updates_heap_checked": 0, "final_reset_checked": 0, "stable_states_checked": 0, "panel_values": len(P["panel"]),
             "property_classes": len(P["classes"]), "validator_rows": len(P["vrows"]), "values_outside_panel": 0}
    lines, reals, hist, fails = [], [], [], []
    for _ in range(n):
        objs, ops = gen_history(rng, P)
        line = enc_history(P, objs, ops)
        real, notes = run_real(P, objs, ops, pristine, stats)
        lines.append(line)
        reals.append(real)
        hist.append((objs, ops))
        stats["histories"] += 1
        stats["objects"] += len(objs)
        stats["ops"] += len(ops)
        for op, seg in zip(ops, real.split(" || ")[0].split(" ; ")):
            stats["ops_by_kind"][op[0]] = stats["ops_by_kind"].get(op[0], 0) + 1
            out = seg.split(" @ ")[0]
            if out.startswith("err"):
                key = op[0] + ":" + out[4:]
                stats["rejected_by_kind"][key] = stats["rejected_by_kind"].get(key, 0) + 1
            else:
                stats["accepted"] += 1
            nm = op[3] if op[0] == "S" else (next(iter(op[4]), None) if op[0] == "U" and len(op[4]) == 1 and not op[3] else None)
            if nm is not None and (nm.startswith("_") or nm in ("copy", "update", "reset", "as_dict", "add_trace", "zzz_", "copy_")):
                kind = ("dunder" if nm.startswith("__") else "private") if nm.startswith("_") else "method-or-public"
                key = f"{op[0]}:{kind}:{out[4:] if out.startswith('err') else 'ok'}"
                stats["odd_names"][key] = stats["odd_names"].get(key, 0) + 1
            if op[0] == "U" and out.startswith("err") and len(op[4]) + (len(op[3]) if isinstance(op[3], dict) else 0) >= 2:
                stats["rejected_multikey_updates"] = stats.get("rejected_multikey_updates", 0) + 1
            if op[0] in ("U", "S"):
                stats["max_path_depth"] = max(stats["max_path_depth"], len(op[2]) + 1)
        stats["resets"] += sum(o[0] == "R" for o in ops)
        stats["style_resets"] += sum(o[0] == "RS" for o in ops)
        stats["values_outside_panel"] += real.count("L 9999")
        for key, desc in notes:
            if len(fails) < 3:
                fails.append({"key": key, "desc": desc, "replay": {"stream": "sstate", "line": line}})
    out = run_driver(lines)
    for line, r, m, h in zip(lines, reals, out, hist):
        if "L 9999" in r:      # a stored value outside the panel (`label = str(<some dict>)`): the model has no index for it
            stats["histories_skipped_value_outside_panel"] = stats.get("histories_skipped_value_outside_panel", 0) + 1
            continue
        if r.strip() != m.strip():
            stats["disagreements"] += 1
            if stats["disagreements"] <= 3:
                rs, ms = r.split(" ; "), m.split(" ; ")
                k = next((j for j, (a, b) in enumerate(zip(rs, ms)) if a != b), min(len(rs), len(ms)))
                ctx.broken.append({"kind": "correspondence", "name": "sstate",
                                   "detail": {"line": line, "first_differing_op": k, "op": repr(h[1][k]) if k < len(h[1]) else "final",
                                              "real": (rs[k] if k < len(rs) else r)[:1500], "model": (ms[k] if k < len(ms) else m)[:1500]}})
    stats["cases"] = len(lines)
    stats["samples"] = [{"line": lines[k][:600], "real": reals[k][:300], "model": out[k][:300]} for k in (0, len(lines) // 2)] if lines else []
    return stats, fails
