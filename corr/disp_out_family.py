"""correspondence stream `disp`, second part (C19; Driver/DispFam2.lean): rows against the REAL functions

  svol     six times the signed volume  sum det[a, b, c]  over the REAL x, y, z, i, j, k of make_Prism / make_CylinderSegment / make_Ellipsoid
           (and, for make_Pyramid, sum det[a - o, b - o, c - o] about the base centre o) against DisplayTrig.meshVol6 of the model's vertices and
           triangles: relative 1e-9 of the box volume; both must be POSITIVE for positive dimensions (wound outwards: Props/C19 *_wound_outwards)
  arrowr   draw_arrowed_line(vec, pos, sign, arrow_size, arrow_pos, pivot, include_line) with random directions, incl. exactly parallel / exactly
           anti-parallel to the y axis, nearly (anti-)parallel ones and a zero vector, against DisplayTrig.arrowedLine with Rodrigues' rotation:
           NaN rows as symbols, values to 1e-12 of |vec| + |pos|
  arrowsv  draw_arrow_from_vertices(vertices, sign, arrow_size, arrow_pos, scaled, include_line) on 1-6 vertices (repeated vertices, segments
           along -y) directly and through make_Polyline (current sign, style.arrow.*), against DisplayTrig.arrowFromVertices
  sensor   make_Sensor(obj, autosize): ALL vertex rows (axes glyph 98, pixel cubes, hull box) for right- / left-handed sensors, no / one / several
           pixels (coplanar, collinear: zero hull extents), style.size scalar, autosize None / number, sizemode scaled / absolute, against
           DisplayTrig.sensorTrace: values to 1e-12 of the largest coordinate
  extraf   a user model3d trace of the matplotlib backend with STATIC kwargs / args on an object with a path of 1-4 poses (octahedral rotations,
           integer positions, dyadic data): the per-frame traces returned by get_generic_traces3D(obj, extra_backend="matplotlib") (or by calling
           process_extra_trace in a loop with one Trace3d object) against Display.extraFrames, exact on the 1/64 grid, every frame compared; the
           user's kwargs dict and args tuple (the caller's objects and the ones stored on the style) compared before / after
"""
import copy
import struct
import warnings

import numpy as np

from corr.disp_family import Q, _bits, _canon_tval, _enc_tval, _norm, _q, _rfloat, _unbits
from vlib.driver import run_driver

RTOL = 1e-12
SVOL_RTOL = 1e-9


def _v3(v):
    return " ".join(_bits(c) for c in v)


# ------------------------------------------------------------------------------------------------------------------ generators
def gen_svol(rng):
    r = rng.random()
    if r < 0.3:
        N = rng.choice([3, 4, 5, 6, 50]) if rng.random() < 0.3 else rng.randint(3, 60)
        d, h = _rfloat(rng), _rfloat(rng)
        return ("svol", "prism", N, d, h), f"disp svol prism {N} {_bits(d)} {_bits(h)}"
    if r < 0.65:
        vert = rng.choice([0, 5, 25, 25, 50, 100, rng.randint(2, 200)])
        r2 = _rfloat(rng)
        r1 = 0.0 if rng.random() < 0.25 else r2 * rng.uniform(0.0, 0.999)
        h = _rfloat(rng)
        phi1 = rng.choice([0.0, -90.0, 30.0, rng.uniform(-360.0, 360.0)])
        phi2 = phi1 + rng.choice([1.0, 45.0, 90.0, 180.0, 270.0, 359.0, rng.uniform(0.5, 359.5)])
        return ("svol", "seg", vert, r1, r2, h, phi1, phi2), "disp svol seg %d %s" % (vert, " ".join(_bits(v) for v in (r1, r2, h, phi1, phi2)))
    if r < 0.88:
        N = rng.randint(4, 24)
        a, b, c = _rfloat(rng), _rfloat(rng), _rfloat(rng)
        return ("svol", "ell", N, a, b, c), f"disp svol ell {N} {_bits(a)} {_bits(b)} {_bits(c)}"
    N = rng.randint(3, 40)
    d, h = _rfloat(rng), _rfloat(rng)
    pivot = rng.choice(["tail", "tip", "middle"])
    return ("svol", "pyr", N, d, h, pivot), f"disp svol pyr {N} {_bits(d)} {_bits(h)} {pivot}"


def _rvec(rng):
    q = rng.random()
    L = _rfloat(rng)
    if q < 0.10:
        return [0.0, L, 0.0]
    if q < 0.25:
        return [0.0, -L, 0.0]  # exactly anti-parallel: the from_rotvec([0, 0, pi]) branch
    if q < 0.32:
        e = rng.choice([1e-9, 1e-13, 1e-17, 1e-200])
        return [e * L, -L, 0.0] if rng.random() < 0.5 else [0.0, -L, e * L]  # nearly anti-parallel
    if q < 0.38:
        e = rng.choice([1e-9, 1e-13, 1e-17])
        return [e * L, L, 0.0]  # nearly parallel
    if q < 0.42:
        return [0.0, 0.0, 0.0]  # zero vector: everything NaN
    if q < 0.55:
        v = [0.0, 0.0, 0.0]
        v[rng.choice([0, 2])] = L * rng.choice([1, -1])
        return v
    v = np.array([rng.gauss(0, 1) for _ in range(3)])
    return (v / np.linalg.norm(v) * L).tolist()


def gen_arrowr(rng):
    vec = _rvec(rng)
    pos = [rng.choice([0.0, float(rng.randint(-5, 5)), rng.uniform(-3, 3)]) for _ in range(3)]
    sign = rng.choice([1.0, -1.0, 0.0, 4.0])
    size = rng.choice([0.1, 1.0, _rfloat(rng)])
    apos = rng.choice([0.5, 0.5, 0.0, 1.0, rng.random()])
    pivot = rng.choice(["middle", "middle", "tip", "tail"])
    incl = rng.random() < 0.5
    return (("arrowr", vec, pos, sign, size, apos, pivot, incl),
            f"disp arrowr {_v3(vec)} {_v3(pos)} {_bits(sign)} {_bits(size)} {_bits(apos)} {pivot} {int(incl)}")


def gen_arrowsv(rng):
    m = rng.choice([1, 2, 2, 3, 4, 6])
    vs = [[rng.choice([0.0, float(rng.randint(-4, 4)), rng.uniform(-3, 3)]) for _ in range(3)] for _ in range(m)]
    if m >= 3 and rng.random() < 0.3:
        vs[2] = list(vs[1])  # a repeated vertex: zero-length segment
    if m >= 2 and rng.random() < 0.3:
        vs[1] = [vs[0][0], vs[0][1] - rng.choice([1.0, 2.5]), vs[0][2]]  # a segment exactly along -y
    through = m >= 2 and rng.random() < 0.5
    scaled = rng.random() < 0.6
    size = rng.choice([1.0, 0.5, _rfloat(rng)])
    apos = rng.choice([0.5, 0.5, 0.0, 1.0, rng.random()])
    if through:
        cur = rng.choice([1.0, -2.0, 0.0, None])
        sign = 0.0 if cur is None else float(np.sign(cur))
        incl = False
        c = ("arrowsv", "polyline", vs, cur, size, apos, scaled)
    else:
        sign = rng.choice([1.0, -1.0, 0.0])
        incl = rng.random() < 0.5
        c = ("arrowsv", "direct", vs, sign, size, apos, scaled, incl)
    return c, "disp arrowsv %d %s %s %s %s %d %d" % (m, " ".join(_v3(v) for v in vs), _bits(sign), _bits(size), _bits(apos), int(scaled), int(incl))


def gen_sensor(rng):
    left = rng.random() < 0.5
    size = rng.choice([1.0, 1.0, 0.5, 2.0, _rfloat(rng)])
    auto = None if rng.random() < 0.5 else rng.choice([1.0, 0.25, 3.0, _rfloat(rng)])
    sscaled = rng.random() < 0.6
    q = rng.random()
    sc = 10.0 ** rng.randint(-2, 1)
    if q < 0.2:
        ps = None
    elif q < 0.35:
        ps = [[rng.choice([0.0, rng.uniform(-2, 2)]) * sc for _ in range(3)]]
        if rng.random() < 0.3:
            ps = [[0.0, 0.0, 0.0]]
    else:
        m = rng.choice([2, 3, 4, 6, 9])
        ps = [[rng.choice([0.0, float(rng.randint(-3, 3)), rng.uniform(-2, 2)]) * sc for _ in range(3)] for _ in range(m)]
        r = rng.random()
        if r < 0.3:
            for p in ps:
                p[2] = ps[0][2]  # coplanar: one zero hull extent
        elif r < 0.45:
            for p in ps:
                p[1], p[2] = ps[0][1], ps[0][2]  # collinear: two zero extents
        if rng.random() < 0.2:
            ps[-1] = list(ps[0])
    pscaled = rng.random() < 0.7
    psize = rng.choice([1.0, 1.0, 0.5, 2.0, 0.0, rng.uniform(0.1, 3.0)])
    if ps is None:
        uniq = []
    else:
        uniq = np.unique(np.array(ps, dtype=float).reshape((-1, 3)), axis=0).tolist()  # what make_Sensor does first
    line = "disp sensor %d %s %s %d %d %d %s %d %s" % (int(left), _v3([size] * 3), "0" if auto is None else "1 " + _bits(auto), int(sscaled), int(ps is not None),
                                                        len(uniq), " ".join(_v3(p) for p in uniq), int(pscaled), _bits(psize))
    return ("sensor", left, size, auto, sscaled, ps, pscaled, psize), _norm(line)


def gen_extraf(rng):
    n = rng.randint(1, 4)
    coords = [np.array([rng.randint(-5, 5) for _ in range(n)]) for _ in range(3)]
    mode = rng.choice(["keys", "keys", "keys-custom", "args", "args", "args-custom"])
    others = [("color", ("o", rng.randint(0, 9))), ("i", ("a", np.array([rng.randint(0, 4) for _ in range(rng.randint(1, 3))]))), ("lw", ("o", rng.randint(0, 9)))]
    others = [o for o in others if rng.random() < 0.6]
    kw, args, ca = [], None, None
    if mode == "keys":
        kw = [(k, ("a", c)) for k, c in zip("xyz", coords)]
    elif mode == "keys-custom":
        names = tuple(rng.sample(["u", "v", "w", "x", "y", "z"], 3))
        kw = [(k, ("a", c)) for k, c in zip(names, coords)]
        ca = ("k",) + names
    elif mode == "args":
        args = [("a", c) for c in coords] + ([("o", 7)] if rng.random() < 0.3 else [])
    else:
        perm = rng.sample(range(4), 3)
        args = [("o", 3)] * 4
        for j, c in zip(perm, coords):
            args[j] = ("a", c)
        ca = ("a",) + tuple(perm)
    kw = kw + others
    rng.shuffle(kw)
    if rng.random() < 0.04 and mode.startswith("keys"):
        kw = [e for e in kw if e[0] != kw[0][0]]  # possibly a missing coordinate key: ValueError in the first frame
    K = rng.choice([1, 2, 2, 3, 3, 4])
    poses = [(rng.randrange(24), [rng.randint(-6, 6) for _ in range(3)]) for _ in range(K)]
    if K > 1 and rng.random() < 0.3:
        poses[1] = poses[0]  # the same pose twice: equal frames
    scale = 1 if rng.random() < 0.5 else 2.0 ** rng.randint(-2, 3)
    return ("extraf", {"kw": kw, "args": args, "ca": ca, "scale": scale, "poses": poses, "via": rng.choice(["generic3d", "generic3d", "loop"]), "style": rng.randrange(2)})


def extraf_line(c):
    from vlib.octa import OCTA

    kv = lambda l: f"{len(l)} " + " ".join(f"{k} {_enc_tval(v)}" for k, v in l)
    a = "0" if c["args"] is None else f"1 {len(c['args'])} " + " ".join(_enc_tval(v) for v in c["args"])
    ca = "0" if c["ca"] is None else f"1 {c['ca'][0]} " + " ".join(map(str, c["ca"][1:]))
    ps = " ".join(" ".join(_q(t) for t in np.asarray(OCTA[r]).reshape(-1)) + " " + " ".join(_q(t) for t in p) for r, p in c["poses"])
    return _norm(f"disp extraf COPY 1 K {kv(c['kw'])} A {a} C {ca} S {_q(c['scale'])} P {len(c['poses'])} {ps}")


# ------------------------------------------------------------------------------------------------------------------ real side
def _vol6(t, o=(0.0, 0.0, 0.0)):
    v = np.array([np.asarray(t[k], dtype=float) for k in "xyz"]).T - np.array(o)
    i, j, k = (np.asarray(t[c], dtype=int) for c in "ijk")
    return float(np.sum(np.einsum("ij,ij->i", v[i], np.cross(v[j], v[k]))))


def real_svol(tb, c):
    gen = c[1]
    if gen == "prism":
        _, _, N, d, h = c
        t = tb.make_Prism("generic", base=N, diameter=d, height=h)["kwargs"]
        return _vol6(t), d * d * h
    if gen == "seg":
        _, _, vert, r1, r2, h, p1, p2 = c
        t = tb.make_CylinderSegment("generic", dimension=np.array([r1, r2, h, p1, p2]), vert=vert)["kwargs"]
        return _vol6(t), r2 * r2 * h
    if gen == "ell":
        _, _, N, a, b, cc = c
        t = tb.make_Ellipsoid("generic", dimension=np.array([a, b, cc]), vert=N)["kwargs"]
        return _vol6(t), a * b * cc
    _, _, N, d, h, pivot = c
    t = tb.make_Pyramid("generic", base=N, diameter=d, height=h, pivot=pivot)["kwargs"]
    zs = {"tail": h / 2, "tip": -h / 2, "middle": 0.0}[pivot]
    return _vol6(t, (0.0, 0.0, -h / 2 + zs)), d * d * h


def real_arrows(magpy, tc, c):
    from magpylib._src.display.traces_utility import draw_arrow_from_vertices, draw_arrowed_line

    if c[0] == "arrowr":
        _, vec, pos, sign, size, apos, pivot, incl = c
        v = draw_arrowed_line(np.array(vec), np.array(pos), sign=sign, arrow_size=size, arrow_pos=apos, pivot=pivot, include_line=incl)
        return [np.asarray(v[:, k], dtype=float) for k in range(3)]
    if c[1] == "direct":
        _, _, vs, sign, size, apos, scaled, incl = c
        try:
            v = draw_arrow_from_vertices(np.array(vs, dtype=float), sign, size, arrow_pos=apos, scaled=scaled, include_line=incl)
        except ValueError:
            return "err ValueError"
        return [np.asarray(v[:, k], dtype=float) for k in range(3)]
    _, _, vs, cur, size, apos, scaled = c
    o = magpy.current.Polyline(current=cur, vertices=vs)
    o.style.arrow.show, o.style.line.show = True, False
    o.style.arrow.size, o.style.arrow.offset, o.style.arrow.sizemode = size, apos, ("scaled" if scaled else "absolute")
    (t,) = tc.make_Polyline(o)
    return [np.asarray(t[k], dtype=float).reshape(-1) for k in "xyz"]


def real_sensor(magpy, tc, c):
    _, left, size, auto, sscaled, ps, pscaled, psize = c
    o = magpy.Sensor(pixel=ps, handedness="left" if left else "right")
    o.style.pixel.size, o.style.pixel.sizemode, o.style.pixel.color = psize, ("scaled" if pscaled else "absolute"), "red"
    o.style.size, o.style.sizemode = size, ("scaled" if sscaled else "absolute")
    t = tc.make_Sensor(o, autosize=auto)
    return [np.asarray(t[k], dtype=float).reshape(-1) for k in "xyz"]


def compare_rows(real, mo, scale):
    """None when equal: lengths / order exact, NaN rows as symbols, values to RTOL relative to max(|a|, |b|, scale)"""
    if isinstance(real, str):
        return (None if real == mo.strip() else "error kinds differ"), 0.0
    if not mo.startswith("ok"):
        return "model reports " + mo[:60], 0.0
    parts = mo[2:].split(";")
    if len(parts) != 3:
        return "model line malformed", 0.0
    worst = 0.0
    for name, ra, part in zip("xyz", real, parts):
        ma = [float("nan") if t == "nan" else _unbits(t) for t in part.split()]
        if len(ma) != len(ra):
            return f"length of {name}: model {len(ma)} real {len(ra)}", worst
        for idx, (a, b) in enumerate(zip(ra.tolist(), ma)):
            if a != a or b != b:
                if (a != a) != (b != b):
                    return f"{name}[{idx}]: model {b!r} real {a!r}", worst
                continue
            if a == b:
                continue
            dev = abs(a - b) / max(abs(a), abs(b), scale)
            worst = max(worst, dev)
            if dev > RTOL:
                return f"{name}[{idx}]: model {b!r} real {a!r} rel {dev:.3g}", worst
    return None, worst


def real_extraf(magpy, c):
    """(canonical line, notes)"""
    from magpylib._src.display.traces_generic import get_generic_traces3D, process_extra_trace
    from vlib.octa import OCTA, rot_from

    def val(v):
        if v[0] == "o":
            return f"t{v[1]}"
        a = np.asarray(v[1])
        return [a.astype(float), a.tolist()][c["style"]]

    user_kw = {k: val(v) for k, v in c["kw"]}
    user_args = None if c["args"] is None else tuple(val(v) for v in c["args"])
    coordsargs = None if c["ca"] is None else {k: (n if c["ca"][0] == "k" else f"args[{n}]") for k, n in zip("xyz", c["ca"][1:])}
    snap = copy.deepcopy((user_kw, user_args, coordsargs))
    o = magpy.magnet.Cuboid(polarization=(0, 0, 1), dimension=(1, 1, 1))
    o.position = [p for _, p in c["poses"]]
    o.orientation = rot_from([OCTA[r] for r, _ in c["poses"]])
    o.style.model3d.showdefault = False
    o.style.magnetization.show = False
    o.style.path.frames = 1
    tr_kwargs = dict(backend="matplotlib", constructor="plot_trisurf", kwargs=user_kw, coordsargs=coordsargs)
    if user_args is not None:
        tr_kwargs["args"] = user_args
    if c["scale"] != 1:
        tr_kwargs["scale"] = c["scale"]
    o.style.model3d.add_trace(**tr_kwargs)
    extr = o.style.model3d.data[0]
    stored = copy.deepcopy((extr.kwargs, extr.args, extr.coordsargs))
    notes = []
    try:
        if c["via"] == "generic3d":
            frames = get_generic_traces3D(o, extra_backend="matplotlib")["matplotlib"]
        else:
            frames = [process_extra_trace({"model3d": extr, "position": pos, "orientation": ori, "kwargs_extra": {}})
                      for ori, pos in zip(o._orientation, o._position)]  # the internal path arrays: one row per pose also for a path of length 1
    except ValueError:
        frames, err = None, "err ValueError"
    except IndexError:
        frames, err = None, "err IndexError"

    def same(a, b):
        if isinstance(a, dict):
            return isinstance(b, dict) and list(a) == list(b) and all(same(a[k], b[k]) for k in a)
        if isinstance(a, (list, tuple)) and not (a and isinstance(a[0], (int, float))):
            return type(a) is type(b) and len(a) == len(b) and all(same(u, w) for u, w in zip(a, b))
        if isinstance(a, np.ndarray):
            return isinstance(b, np.ndarray) and a.dtype == b.dtype and a.shape == b.shape and np.array_equal(a, b)
        return type(a) is type(b) and a == b

    if not same(snap, (user_kw, user_args, coordsargs)):
        notes.append("the caller's kwargs dict / args tuple / coordsargs changed")
    if not same(stored, (extr.kwargs, extr.args, extr.coordsargs)):
        notes.append("the kwargs dict / args tuple / coordsargs stored on the object's style changed")
    if frames is None:
        return err, notes
    if len(frames) != len(c["poses"]):
        return f"FRAMES {len(frames)}", notes
    outs = []
    for fr in frames:
        parts = [(k, _canon_tval(v)) for k, v in fr["kwargs"].items()]
        ra, rc = fr["args"], fr["coordsargs"]
        a = "none" if ra is None else f"{len(ra)} " + " ".join(str(_canon_tval(v)) for v in ra)
        ca = "none" if rc is None else " ".join(rc[k] for k in "xyz")
        if any(t is None for _, t in parts) or "None" in a:
            return "UNSNAPPABLE", notes
        outs.append(f"{len(parts)} " + " ".join(f"{k} {t}" for k, t in parts) + f" | {a} | {ca}")
    user = [(k, _canon_tval(v)) for k, v in extr.kwargs.items()]
    return _norm("ok " + " || ".join(outs) + f" || USER {len(user)} " + " ".join(f"{k} {t}" for k, t in user)), notes


# ------------------------------------------------------------------------------------------------------------------ the stream
def run_out(ctx, n, stats):
    import magpylib as magpy
    from magpylib._src.display import traces_base as tb
    from magpylib._src.display import traces_core as tc

    rng = ctx.rng
    st = {"svol": 0, "svol_prism": 0, "svol_seg": 0, "svol_ell": 0, "svol_pyr": 0, "svol_nonpositive": 0, "svol_max_rel_dev": 0.0, "arrowr": 0, "arrowr_antiparallel": 0,
          "arrowr_parallel": 0, "arrowr_zero_vec": 0, "arrowr_nan_rows": 0, "arrowsv": 0, "arrowsv_through_make_Polyline": 0, "arrowsv_errors": 0, "arrowsv_zero_length_segment": 0,
          "sensor": 0, "sensor_left": 0, "sensor_no_pixel": 0, "sensor_one_pixel": 0, "sensor_zero_hull_extent": 0, "extraf": 0, "extraf_frames": 0, "extraf_errors": 0,
          "extraf_multi_frame": 0, "extraf_args": 0, "extraf_via_get_generic_traces3D": 0, "out_max_rel_dev": 0.0, "out_rtol": RTOL, "svol_rtol": SVOL_RTOL, "out_cases": 0}
    cases, lines = [], []
    for _ in range(n):
        r = rng.random()
        if r < 0.22:
            c, line = gen_svol(rng)
        elif r < 0.44:
            c, line = gen_arrowr(rng)
        elif r < 0.60:
            c, line = gen_arrowsv(rng)
        elif r < 0.80:
            c, line = gen_sensor(rng)
        else:
            c = gen_extraf(rng)
            line = extraf_line(c[1])
        cases.append(c)
        lines.append(line)
    out = run_driver(lines)
    samples = stats.setdefault("samples", [])
    seen = set()
    with warnings.catch_warnings():
        warnings.simplefilter("ignore")
        for c, line, mo in zip(cases, lines, out):
            kind = c[0]
            st[kind] += 1
            why, shown = None, "?"
            try:
                if kind == "svol":
                    st["svol_" + c[1]] += 1
                    real, box = real_svol(tb, c)
                    shown = repr(real)
                    if not mo.startswith("ok "):
                        why = "model reports " + mo[:60]
                    else:
                        mv = _unbits(mo.split()[1])
                        dev = abs(mv - real) / abs(box)
                        st["svol_max_rel_dev"] = max(st["svol_max_rel_dev"], dev)
                        if dev > SVOL_RTOL:
                            why = f"signed volume x 6: model {mv!r} real {real!r}"
                        elif not (real > 0 and mv > 0):
                            st["svol_nonpositive"] += 1
                            why = f"signed volume not positive (wound inwards?): model {mv!r} real {real!r}"
                elif kind in ("arrowr", "arrowsv"):
                    real = real_arrows(magpy, tc, c)
                    if kind == "arrowr":
                        vec, pos = np.array(c[1]), np.array(c[2])
                        scale = float(np.linalg.norm(vec) * (1 + c[4]) + np.linalg.norm(pos))
                        st["arrowr_antiparallel"] += vec[0] == 0 and vec[2] == 0 and vec[1] < 0
                        st["arrowr_parallel"] += vec[0] == 0 and vec[2] == 0 and vec[1] > 0
                        st["arrowr_zero_vec"] += not vec.any()
                    else:
                        vs = np.array(c[2])
                        scale = float(np.max(np.abs(vs)) * 2 + c[4] + 1e-300)
                        st["arrowsv_through_make_Polyline"] += c[1] == "polyline"
                        st["arrowsv_errors"] += isinstance(real, str)
                        st["arrowsv_zero_length_segment"] += bool(len(vs) > 1 and (np.diff(vs, axis=0) == 0).all(axis=1).any())
                    if not isinstance(real, str):
                        st["arrowr_nan_rows"] += int(np.isnan(real[0]).sum()) if kind == "arrowr" else 0
                        shown = "ok " + " ; ".join(" ".join(repr(v) for v in a.tolist()[:4]) for a in real)
                    else:
                        shown = real
                    why, dev = compare_rows(real, mo, scale)
                    st["out_max_rel_dev"] = max(st["out_max_rel_dev"], dev)
                elif kind == "sensor":
                    real = real_sensor(magpy, tc, c)
                    st["sensor_left"] += c[1]
                    st["sensor_no_pixel"] += c[5] is None
                    st["sensor_one_pixel"] += c[5] is not None and len(np.unique(np.array(c[5]), axis=0)) == 1
                    if c[5] is not None:
                        u = np.unique(np.array(c[5], dtype=float), axis=0)
                        if len(u) == 1:
                            u = np.concatenate([[[0.0, 0.0, 0.0]], u])
                        st["sensor_zero_hull_extent"] += bool(((u.max(axis=0) - u.min(axis=0)) == 0).any())
                    scale = float(max(np.max(np.abs(a)) for a in real))
                    shown = "ok " + " ; ".join(" ".join(repr(v) for v in a.tolist()[96:100]) for a in real)
                    why, dev = compare_rows(real, mo, scale)
                    st["out_max_rel_dev"] = max(st["out_max_rel_dev"], dev)
                else:
                    cc = c[1]
                    real, notes = real_extraf(magpy, cc)
                    shown = real
                    st["extraf_frames"] += len(cc["poses"])
                    st["extraf_multi_frame"] += len(cc["poses"]) > 1
                    st["extraf_errors"] += real.startswith("err")
                    st["extraf_args"] += cc["args"] is not None
                    st["extraf_via_get_generic_traces3D"] += cc["via"] == "generic3d"
                    if notes:
                        why = "; ".join(notes)
                    elif _norm(real) != _norm(mo):
                        why = "model and real differ"
            except Exception as e:  # noqa: BLE001
                why = f"harness: {type(e).__name__}: {e}"
            seen.add((kind, line[:300]))
            if kind not in [s_["kind"] for s_ in samples] and len(samples) < 40:
                samples.append({"kind": kind, "line": line[:200], "model": mo[:200], "real": shown[:200]})
            if why is not None:
                stats["disagreements"] += 1
                if stats["disagreements"] <= 3:
                    ctx.broken.append({"kind": "correspondence", "name": "disp-out", "detail": {"line": line[:500], "why": why, "model": mo[:400], "real": shown[:400]}})
    st["out_cases"] = len(cases)
    st = {k: (v.item() if hasattr(v, "item") else v) for k, v in st.items()}  # numpy scalars from the counters
    stats.update(st)
    stats["distinct"] += len(seen)
    stats["cases"] += len(cases)
