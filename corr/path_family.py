"""correspondence stream `path` (C09, C10): histories of move / rotate / rotate_from_* (rotate_from_angax
also with the angle/axis -> rotation vector conversion done by the model: op `angax`) /
position= / orientation= / reset_path on a collection tree, executed on the real objects and on
the Lean model (Model/Tree.lean through the driver), state compared after every operation.

Exact data: positions in Z^3, rotations in the octahedral group; real results are snapped to the
integer grid (and rejected if farther than 1e-6) and compared exactly.
"""
import json
import struct
import warnings

import numpy as np
from scipy.spatial.transform import Rotation as R

from vlib.driver import run_driver
from vlib.octa import OCTA, fmt_mat, fmt_vec, rot_from, snap_matrix, snap_vec

warnings.filterwarnings("ignore", message="Gimbal lock")
FORMS = ["rotate", "quat", "matrix", "rotvec", "angax", "euler", "mrp"]


# ------------------------------------------------------------------ generation
def gen_shape(rng, max_nodes):
    """preorder child counts of a random tree"""
    n = rng.choice([1, 1, 2, 3, 4, 5, 6][: max(1, max_nodes)])
    # random recursive tree: parent of node i is a random earlier node
    parents = [None] + [rng.randrange(i) for i in range(1, n)]
    kids = {i: [] for i in range(n)}
    for i, p in enumerate(parents):
        if p is not None:
            kids[p].append(i)
    out = []

    def rec(i):
        out.append(len(kids[i]))
        for c in kids[i]:
            rec(c)

    rec(0)
    return out


def addresses(shape):
    """all node addresses (lists of child indices) in preorder"""
    it = iter(shape)
    out = []

    def rec(addr):
        k = next(it)
        out.append(addr)
        for j in range(k):
            rec(addr + [j])

    rec([])
    return out


def rvec(rng):
    return [rng.randint(-4, 4) for _ in range(3)]


def start_arg(s):
    """the `start` argument as the real call gets it: 'auto', a Python int, or — for every third value — a numpy integer
    (np.argmax / np.arange results are what users pass on); the model gets the same integer"""
    if s is None:
        return "auto"
    return [int, np.int64, np.int32][s % 3](s)


def gen_start(rng, nmax):
    if rng.random() < 0.45:
        return None
    return rng.randint(-nmax - 3, nmax + 3)


EULER_SEQS = [s for n in (1, 2, 3) for s in map("".join, __import__("itertools").product("xyz", repeat=n))
              if all(a != b for a, b in zip(s, s[1:]))]
EULER_SEQS += [s.upper() for s in EULER_SEQS]
BAD_SEQS = ["xx", "xYz", "", "xyzx", "a", "zyy", "Xx"]
ENTRY_KINDS = ["rotvec", "euler", "matrix", "mrp", "quat"]


def gen_rotfrom(rng, addr, nmax):
    """one of the five thin `rotate_from_*` wrappers with RAW arguments (the model converts them itself): exact data — rotation
    vectors / quaternions / MRPs / matrices of octahedral rotations, Euler angles that are multiples of 90 degrees for every valid
    sequence of 1..3 axes (extrinsic and intrinsic), scalar input (one parameter set) or vector input (n >= 1 sets); a share of
    arguments scipy refuses (bad sequence, wrong angle shape incl. the documented shape (n,) for a one-letter sequence, reflection
    matrix, zero quaternion)."""
    kind = rng.choice(ENTRY_KINDS)
    single = rng.random() < 0.45
    n = 1 if single else rng.choice([1, 1, 2, 2, 3, 4])
    op = {"op": "rotfrom", "addr": addr, "kind": kind, "single": single, "anchor": gen_anchor(rng), "start": gen_start(rng, nmax),
          "deg": rng.random() < 0.6}
    if kind == "euler":
        bad = rng.random() < 0.14
        seq = rng.choice(BAD_SEQS) if bad and rng.random() < 0.4 else rng.choice(EULER_SEQS)
        w = len(seq)
        ang = lambda: float(90 * rng.randint(-4, 4)) if op["deg"] else float(rng.randint(-4, 4) * (np.pi / 2))
        if single:
            if w == 1 and rng.random() < 0.5:
                op["eshape"], op["data"] = "num", ang()
            else:
                op["eshape"], op["data"] = "arr1", [ang() for _ in range(w)]
        else:
            op["eshape"], op["data"] = "arr2", [[ang() for _ in range(w)] for _ in range(n)]
        if bad and seq not in BAD_SEQS:
            c = rng.randrange(3)
            if c == 0:  # 1-D array whose length is not the number of axes (for w = 1: the docstring's "shape (n,)")
                m = rng.choice([k for k in (1, 2, 3, 4) if k != w])
                op["eshape"], op["data"] = "arr1", [ang() for _ in range(m)]
            elif c == 1 and w > 1:
                op["eshape"], op["data"] = "num", ang()
            else:
                m = rng.choice([k for k in (1, 2, 3, 4) if k != w])
                op["eshape"], op["data"] = "arr2", [[ang() for _ in range(m)] for _ in range(n)]
        op["seq"] = seq
        return op
    idx = [rng.randrange(24) for _ in range(n)]
    rot = rot_from([OCTA[i] for i in idx])
    if kind == "rotvec":
        data = rot.as_rotvec(degrees=op["deg"])
    elif kind == "mrp":
        data = rot.as_mrp()
    elif kind == "quat":
        data = rot.as_quat() * rng.choice([1.0, 1.0, -1.0, 2.5])
        if rng.random() < 0.06:
            data[rng.randrange(n)] = 0.0
    else:
        data = rot.as_matrix()
        if rng.random() < 0.06:
            data[rng.randrange(n)] = rng.choice([np.diag([1.0, 1.0, -1.0]), np.zeros((3, 3)), -np.eye(3)])
    data = np.asarray(data, dtype=float)
    op["data"] = (data[0] if single else data).tolist()
    return op


def gen_subtree(rng, depth=0):
    """a fresh object (Sensor / Dipole) or collection with explicit paths, to be added as a child"""
    n = rng.choice([1, 1, 2, 3])
    node = {"pos": [rvec(rng) for _ in range(n)], "ori": [rng.randrange(24) for _ in range(n)], "kids": [],
            "leaf": rng.choice(["Sensor", "Dipole"])}
    if depth < 2 and rng.random() < 0.35:
        node["leaf"] = None
        node["kids"] = [gen_subtree(rng, depth + 1) for _ in range(rng.choice([1, 1, 2]))]
    return node


def sk_from_shape(shape):
    it = iter(shape)

    def rec():
        k = next(it)
        return {"coll": k > 0, "kids": [rec() for _ in range(k)]}

    return rec()


def sk_from_subtree(node):
    return {"coll": node["leaf"] is None, "kids": [sk_from_subtree(c) for c in node["kids"]]}


def sk_addresses(sk, pred=lambda n: True):
    out = []

    def rec(n, addr):
        if pred(n):
            out.append(addr)
        for j, c in enumerate(n["kids"]):
            rec(c, addr + [j])

    rec(sk, [])
    return out


def sk_at(sk, addr):
    for i in addr:
        sk = sk["kids"][i]
    return sk


def gen_op(rng, addrs, nmax, p_bad, sk=None, root_only=False):
    addr = rng.choice(addrs)
    r = rng.random()
    if r < p_bad:
        return {"op": "bad", "addr": addr, "what": rng.choice(BAD_KINDS)}
    if sk is not None and rng.random() < 0.07:
        if rng.random() < 0.55:
            cands = [[]] if root_only else sk_addresses(sk, lambda n: n["coll"])
            cands = [a for a in cands if sk_at(sk, a)["coll"]]
            if cands:
                return {"op": "add", "addr": rng.choice(cands), "sub": gen_subtree(rng)}
        else:
            cands = [[]] if root_only else sk_addresses(sk, lambda n: n["coll"] and n["kids"])
            cands = [a for a in cands if sk_at(sk, a)["coll"] and sk_at(sk, a)["kids"]]
            if cands:
                a = rng.choice(cands)
                return {"op": "remove", "addr": a, "j": rng.randrange(len(sk_at(sk, a)["kids"]))}
    if rng.random() < 0.17:
        return gen_rotfrom(rng, addr, nmax)
    k = rng.random()
    if k < 0.30:
        if rng.random() < 0.45:
            inp = ["s", rvec(rng)]
        else:
            n = rng.choice([0, 1, 1, 2, 2, 3, 4]) if rng.random() < 0.9 else 5
            inp = ["v", [rvec(rng) for _ in range(n)]]
        return {"op": "move", "addr": addr, "inp": inp, "start": gen_start(rng, nmax)}
    if k < 0.40:
        return gen_angax(rng, addr, nmax)
    if k < 0.70:
        if rng.random() < 0.45:
            rot = ["s", rng.randrange(24)]
        else:
            rot = ["v", [rng.randrange(24) for _ in range(rng.choice([1, 1, 2, 2, 3, 4]))]]
        a = rng.random()
        if a < 0.30:
            anchor = None
        elif a < 0.42:
            anchor = 0
        elif a < 0.68:
            anchor = ["s", rvec(rng)]
        else:
            anchor = ["v", [rvec(rng) for _ in range(rng.choice([1, 2, 2, 3, 4]))]]
        form = rng.choice(FORMS) if rng.random() < 0.6 else "rotate"
        if rng.random() < 0.12:  # rotation=None ("interpreted as unit rotation"): same path effects as an explicit identity
            rot, form = ["s", ID], "none"
        return {"op": "rot", "addr": addr, "rot": rot, "anchor": anchor, "start": gen_start(rng, nmax), "form": form}
    if k < 0.82:
        n = rng.choice([1, 1, 2, 3, 4])
        return {"op": "setpos", "addr": addr, "val": [rvec(rng) for _ in range(n)], "flat": n == 1 and rng.random() < 0.5}
    if k < 0.94:
        n = rng.choice([1, 1, 2, 3, 4])
        return {"op": "setori", "addr": addr, "val": [rng.randrange(24) for _ in range(n)],
                "single": n == 1 and rng.random() < 0.5, "none": False}
    if k < 0.97:
        return {"op": "setori", "addr": addr, "val": [0_0], "single": True, "none": True}
    return {"op": "reset", "addr": addr}


def gen_descendant_op(rng, addr):
    """a length-preserving operation addressed to a descendant: scalar move / scalar rotation (anchor none / 0 / scalar), start
    'auto' (= 0 for scalar input), 0 or -1 — all inside a path of any length >= 1"""
    start = rng.choice([None, None, 0, -1])
    if rng.random() < 0.5:
        return {"op": "move", "addr": addr, "inp": ["s", rvec(rng)], "start": start, "descendant": True}
    a = rng.random()
    anchor = None if a < 0.4 else (0 if a < 0.55 else ["s", rvec(rng)])
    return {"op": "rot", "addr": addr, "rot": ["s", rng.randrange(24)], "anchor": anchor, "start": start,
            "form": rng.choice(["rotate", "rotate", "quat", "matrix", "rotvec"]), "descendant": True}


def gen_anchor(rng):
    a = rng.random()
    if a < 0.30:
        return None
    if a < 0.42:
        return 0
    if a < 0.68:
        return ["s", rvec(rng)]
    return ["v", [rvec(rng) for _ in range(rng.choice([1, 2, 2, 3, 4]))]]


def gen_angax(rng, addr, nmax):
    """rotate_from_angax on exact data: angles are multiples of 90 degrees (k * 90 with degrees=True, k * pi/2 in double with
    degrees=False), the axis is 'x'/'y'/'z' or a (signed, scaled) coordinate axis as a vector; rejected axes: (0,0,0), other strings.
    The model converts angle/axis to rotation vectors itself (Model/Angax.lean at Float) — nothing is precomputed here."""
    if rng.random() < 0.45:
        ang = ["s", rng.randint(-8, 8)]
    else:
        ang = ["v", [rng.randint(-8, 8) for _ in range(rng.choice([1, 1, 2, 2, 3, 4]))]]  # non-empty: rotate's domain (PathIn.WF); an empty Rotation with a vector anchor raises inside multi_anchor_behavior
    a = rng.random()
    if a < 0.35:
        axis = rng.choice(["x", "y", "z"])
    elif a < 0.88:
        e = [0.0, 0.0, 0.0]
        e[rng.randrange(3)] = rng.choice([1.0, -1.0, 2.0, -3.0, 5.0, 3.7, -0.25, 1e-3, -1e6])
        axis = e
    elif a < 0.95:
        axis = [0.0, 0.0, 0.0]
    else:
        axis = rng.choice(["w", "X", "xy", ""])
    return {"op": "angax", "addr": addr, "angle": ang, "axis": axis, "degrees": rng.random() < 0.6,
            "anchor": gen_anchor(rng), "start": gen_start(rng, nmax)}


def _bits(x):
    return str(struct.unpack("<Q", struct.pack("<d", float(x)))[0])


def angax_value(op, k):
    """the angle handed to the real function and (as bit pattern) to the model"""
    return float(90 * k) if op["degrees"] else float(k * (np.pi / 2))


def angax_as_given(op, g):
    """the angle argument as the user may write it: a scalar as float or numpy float (scalar input; a 0-d array is not a documented angle), a vector as
    list or — for odd lengths, in particular length 1 — as ndarray (a one-element 1-D array is still vector input of length 1)"""
    if g[0] == "s":
        a = angax_value(op, g[1])
        return [a, np.float64(a)][int(g[1]) % 2]
    v = [angax_value(op, q) for q in g[1]]
    return np.array(v) if len(v) % 2 == 1 else v


BAD_KINDS = [
    "remove-nonchild", "add-self", "add-twice",
    "move-str", "move-shape2", "move-n2", "move-none", "move-4d", "move-ragged", "start-float", "start-str",
    "start-none", "rot-list", "rot-start-float", "anchor-shape", "anchor-str", "anchor-1", "setpos-str", "setpos-shape",
    "setpos-empty", "setori-list", "setori-empty", "angax-axis0", "angax-axis-str", "angax-degrees", "parent-int",
]


def identity_index():
    for i, m in enumerate(OCTA):
        if (m == np.eye(3, dtype=int)).all():
            return i
    raise AssertionError


ID = identity_index()


def sk_apply(sk, op):
    """keep the generator's skeleton of the tree in step with add / remove"""
    if op["op"] == "add":
        sk_at(sk, op["addr"])["kids"].append(sk_from_subtree(op["sub"]))
    elif op["op"] == "remove":
        del sk_at(sk, op["addr"])["kids"][op["j"]]


def gen_history(rng, n_ops, max_nodes=6, p_bad=0.08, equal_lengths=False):
    shape = gen_shape(rng, max_nodes)
    addrs = addresses(shape)
    sk = sk_from_shape(shape)
    ops = []
    if equal_lengths:
        # C10 regime: only operate on collections after giving every node the same path length
        n = rng.choice([1, 2, 3, 4])
        for a in reversed(addrs):  # leaves-to-root order is irrelevant for setpos on distinct nodes; do children first
            ops.append({"op": "setpos", "addr": a, "val": [rvec(rng) for _ in range(n)], "flat": False})
            ops.append({"op": "setori", "addr": a, "val": [rng.randrange(24) for _ in range(n)], "single": False, "none": False})
        # root-only afterwards keeps the equal-length hypothesis for scalar ops; vector ops change all alike
        for _ in range(n_ops):
            others = [a for a in sk_addresses(sk) if a]
            if others and rng.random() < 0.2:
                # an operation addressed to a DESCENDANT that keeps the path length (scalar input, start inside the path): the regime
                # of `history_refines_spec_any_address` — interleaved with the operations on the collection itself
                op = gen_descendant_op(rng, rng.choice(others))
            else:
                op = gen_op(rng, [[]], 4, p_bad, sk=sk, root_only=True)
            ops.append(op)
            sk_apply(sk, op)
            if op["op"] == "add":
                # the new child has its own path length: assigning the collection's position path re-bases every descendant to
                # the collection's new length, which restores the common path length (C10 regime)
                m = rng.choice([1, 2, 3, 4])
                ops.append({"op": "setpos", "addr": [], "val": [rvec(rng) for _ in range(m)], "flat": False})
    else:
        for _ in range(n_ops):
            op = gen_op(rng, sk_addresses(sk), 4, p_bad, sk=sk)
            ops.append(op)
            sk_apply(sk, op)
    return {"shape": shape, "ops": ops}


# ------------------------------------------------------------------ model side
def enc_addr(a):
    return f"{len(a)} " + " ".join(map(str, a)) if a else "0"


def enc_start(s):
    return "a" if s is None else f"i {s}"


def enc_pathin_vec(p):
    if p[0] == "s":
        return "s " + fmt_vec(p[1])
    return f"v {len(p[1])} " + " ".join(fmt_vec(v) for v in p[1])


def enc_pathin_rot(p):
    if p[0] == "s":
        return "s " + fmt_mat(OCTA[p[1]])
    return f"v {len(p[1])} " + " ".join(fmt_mat(OCTA[i]) for i in p[1])


def enc_bits_list(xs):
    return " ".join(_bits(x) for x in np.asarray(xs, dtype=float).reshape(-1))


def enc_entry(op):
    k = op["kind"]
    if k == "euler":
        d = op["data"]
        if op["eshape"] == "num":
            e = "num " + _bits(d)
        elif op["eshape"] == "arr1":
            e = f"arr1 {len(d)} " + enc_bits_list(d)
        else:
            e = f"arr2 {len(d)} {len(d[0]) if d else 0} " + enc_bits_list(d)
        return f"euler {e} {op['seq'] if op['seq'] else 'EMPTY'} {int(op['deg'])}"
    d = op["data"]
    body = ("s " + enc_bits_list(d)) if op["single"] else (f"v {len(d)} " + enc_bits_list(d))
    if k == "rotvec":
        return f"rotvec {body} {int(op['deg'])}"
    return f"{k} {body}"


def enc_subtree(node):
    me = (f"{len(node['kids'])} P {len(node['pos'])} " + " ".join(fmt_vec(v) for v in node["pos"])
          + f" O {len(node['ori'])} " + " ".join(fmt_mat(OCTA[i]) for i in node["ori"]))
    return " ".join([me] + [enc_subtree(c) for c in node["kids"]])


def model_lines(h):
    lines = ["path new " + " ".join(map(str, h["shape"]))]
    for op in h["ops"]:
        a = enc_addr(op["addr"])
        k = op["op"]
        if k == "move":
            lines.append(f"path move {a} {enc_pathin_vec(op['inp'])} {enc_start(op['start'])}")
        elif k == "rot":
            an = op["anchor"]
            if an is None:
                ea = "n"
            elif an == 0:
                ea = "s 0 0 0"
            else:
                ea = enc_pathin_vec(an)
            lines.append(f"path rot {a} {enc_pathin_rot(op['rot'])} {ea} {enc_start(op['start'])}")
        elif k == "angax":
            an = op["anchor"]
            ea = "n" if an is None else ("s 0 0 0" if an == 0 else enc_pathin_vec(an))
            g = op["angle"]
            eg = "s " + _bits(angax_value(op, g[1])) if g[0] == "s" else f"v {len(g[1])} " + " ".join(_bits(angax_value(op, q)) for q in g[1])
            ax = op["axis"]
            eax = ("str " + (ax if ax else "EMPTY")) if isinstance(ax, str) else "vec " + " ".join(_bits(c) for c in ax)
            lines.append(f"path angax {a} {eg} {eax} {int(op['degrees'])} {ea} {enc_start(op['start'])}".replace("  ", " "))
        elif k == "setpos":
            lines.append(f"path setpos {a} {len(op['val'])} " + " ".join(fmt_vec(v) for v in op["val"]))
        elif k == "setori":
            vals = [ID] if op.get("none") else op["val"]
            lines.append(f"path setori {a} {len(vals)} " + " ".join(fmt_mat(OCTA[i]) for i in vals))
        elif k == "reset":
            lines.append(f"path reset {a}")
        elif k == "rotfrom":
            an = op["anchor"]
            ea = "n" if an is None else ("s 0 0 0" if an == 0 else enc_pathin_vec(an))
            lines.append(f"path rotfrom {a} {enc_entry(op)} {ea} {enc_start(op['start'])}".replace("  ", " "))
        elif k == "add":
            lines.append(f"path add {a} {enc_subtree(op['sub'])}")
        elif k == "remove":
            lines.append(f"path remove {a} {op['j']}")
        elif k == "bad":
            lines.append("path bad")
        else:
            raise ValueError(k)
    return lines


# ------------------------------------------------------------------ real side
def build_real(shape):
    import magpylib as magpy

    it = iter(shape)

    def rec():
        k = next(it)
        if k == 0:
            # leaves alternate between object kinds; all share BaseGeo/BaseTransform
            return magpy.Sensor()
        kids = [rec() for _ in range(k)]
        return magpy.Collection(*kids)

    root = rec()
    return root


def build_sub(node):
    import magpylib as magpy

    kw = {"position": np.array(node["pos"], dtype=float), "orientation": rot_from([OCTA[i] for i in node["ori"]])}
    if node["leaf"] == "Sensor":
        return magpy.Sensor(**kw)
    if node["leaf"] == "Dipole":
        return magpy.misc.Dipole(moment=(1, 2, 3), **kw)
    return magpy.Collection(*[build_sub(c) for c in node["kids"]], **kw)


def call_rotfrom(obj, op):
    an = op["anchor"]
    kw = {"anchor": None if an is None else (0 if an == 0 else an[1]), "start": "auto" if op["start"] is None else op["start"]}
    k = op["kind"]
    if k == "euler":
        obj.rotate_from_euler(op["data"], op["seq"], degrees=op["deg"], **kw)
    elif k == "rotvec":
        obj.rotate_from_rotvec(np.array(op["data"], dtype=float), degrees=op["deg"], **kw)
    elif k == "matrix":
        obj.rotate_from_matrix(np.array(op["data"], dtype=float), **kw)
    elif k == "mrp":
        obj.rotate_from_mrp(np.array(op["data"], dtype=float), **kw)
    elif k == "quat":
        obj.rotate_from_quat(np.array(op["data"], dtype=float), **kw)
    else:
        raise ValueError(k)


def node_at(root, addr):
    n = root
    for i in addr:
        n = n.children[i]
    return n


def dump_real(root):
    parts = []

    def rec(n):
        pos = np.asarray(n._position)
        ori = n._orientation.as_matrix()
        if ori.ndim == 2:
            ori = ori[None]
        p = " ".join(fmt_vec(snap_vec(v)) for v in pos)
        q = " ".join(fmt_mat(snap_matrix(m)) for m in ori)
        parts.append(f"P {len(pos)} {p} O {len(ori)} {q}")
        for c in getattr(n, "children", []):
            rec(c)

    rec(root)
    return " | ".join(parts)


def mk_rot(spec):
    if spec[0] == "s":
        return rot_from(OCTA[spec[1]])
    return rot_from([OCTA[i] for i in spec[1]])


def call_rotate(obj, op):
    rot = mk_rot(op["rot"])
    an = op["anchor"]
    anchor = None if an is None else (0 if an == 0 else (an[1] if an[0] == "s" else an[1]))
    kw = {"anchor": anchor, "start": start_arg(op["start"])}
    form = op.get("form", "rotate")
    single = op["rot"][0] == "s"
    if form == "none":
        assert op["rot"] == ["s", ID]
        obj.rotate(None, **kw)
    elif form == "rotate":
        obj.rotate(rot, **kw)
    elif form == "quat":
        obj.rotate_from_quat(rot.as_quat(), **kw)
    elif form == "matrix":
        obj.rotate_from_matrix(rot.as_matrix(), **kw)
    elif form == "mrp":
        # 180 degree rotations have MRP of norm 1 (fine); use scipy's own conversion
        obj.rotate_from_mrp(rot.as_mrp(), **kw)
    elif form == "rotvec":
        deg = bool(len(str(op["start"])) % 2)
        obj.rotate_from_rotvec(rot.as_rotvec(degrees=deg), degrees=deg, **kw)
    elif form == "euler":
        deg = bool(len(str(op["start"])) % 2)
        obj.rotate_from_euler(rot.as_euler("xyz", degrees=deg), "xyz", degrees=deg, **kw)
    elif form == "angax":
        rv = rot.as_rotvec()
        if single:
            ang = float(np.linalg.norm(rv))
            if ang < 1e-12:
                obj.rotate_from_angax(0, "z", **kw)
            else:
                deg = bool(len(str(op["start"])) % 2)
                obj.rotate_from_angax(np.degrees(ang) if deg else ang, rv / ang * 3.7, degrees=deg, **kw)
        else:
            # angax takes one axis for all steps: only usable if all steps share the axis
            angs = np.linalg.norm(rv, axis=1)
            nz = angs > 1e-12
            if not nz.any():
                obj.rotate_from_angax(list(angs), "x", degrees=False, **kw)
            else:
                ax = rv[nz][0] / angs[nz][0]
                proj = rv @ ax
                if np.allclose(rv, np.outer(proj, ax), atol=1e-12):
                    obj.rotate_from_angax(list(np.degrees(proj)), ax, degrees=True, **kw)
                else:
                    obj.rotate(rot, **kw)
    else:
        raise ValueError(form)


def call_bad(obj, what):
    z = R.from_quat([0, 0, 0, 1])
    if what == "move-str":
        obj.move("abc")
    elif what == "move-shape2":
        obj.move((1, 2))
    elif what == "move-n2":
        obj.move([(1, 2), (3, 4)])
    elif what == "move-none":
        obj.move(None)
    elif what == "move-4d":
        obj.move(np.zeros((2, 2, 3)))
    elif what == "move-ragged":
        obj.move([(1, 2, 3), (1, 2)])
    elif what == "start-float":
        obj.move((1, 2, 3), start=1.0)
    elif what == "start-str":
        obj.move((1, 2, 3), start="end")
    elif what == "start-none":
        obj.move([(1, 2, 3)], start=None)
    elif what == "rot-list":
        obj.rotate([0, 0, 0, 1])
    elif what == "rot-start-float":
        obj.rotate(z, start=0.5)
    elif what == "anchor-shape":
        obj.rotate(z, anchor=(1, 2))
    elif what == "anchor-str":
        obj.rotate(z, anchor="origin")
    elif what == "anchor-1":
        obj.rotate(z, anchor=1)
    elif what == "setpos-str":
        obj.position = "here"
    elif what == "setpos-shape":
        obj.position = [(1, 2, 3, 4)]
    elif what == "setpos-empty":
        obj.position = np.zeros((0, 3))
    elif what == "setori-list":
        obj.orientation = [0, 0, 0, 1]
    elif what == "setori-empty":
        obj.orientation = R.from_quat(np.zeros((0, 4)))
    elif what == "angax-axis0":
        obj.rotate_from_angax(90, (0, 0, 0))
    elif what == "angax-axis-str":
        obj.rotate_from_angax(90, "w")
    elif what == "angax-degrees":
        obj.rotate_from_angax(90, "z", degrees=1)
    elif what == "parent-int":
        obj.parent = 3
    elif what == "remove-nonchild":
        import magpylib as magpy

        if not isinstance(obj, magpy.Collection):
            obj.move("abc")
        obj.remove(magpy.Sensor())
    elif what == "add-self":
        import magpylib as magpy

        if not isinstance(obj, magpy.Collection):
            obj.move("abc")
        obj.add(obj)
    elif what == "add-twice":
        import magpylib as magpy

        if not isinstance(obj, magpy.Collection):
            obj.move("abc")
        x = magpy.Sensor()
        obj.add(x, x)
    else:
        raise ValueError(what)


def real_lines(h, dump=None):
    """returns (lines, errkinds) — one line per model line; `dump` replaces the snapped state dump (run_scale_stream: raw bit patterns)"""
    from magpylib._src.exceptions import MagpylibBadUserInput

    if dump is not None:
        return _real_states(h, dump)
    root = build_real(h["shape"])
    out = ["ok " + dump_real(root)]
    errs = []
    for op in h["ops"]:
        obj = node_at(root, op["addr"])
        k = op["op"]
        try:
            if k == "move":
                inp = op["inp"][1] if op["inp"][0] == "s" else np.array(op["inp"][1], dtype=float).reshape(-1, 3)
                obj.move(inp, start=start_arg(op["start"]))
            elif k == "rot":
                call_rotate(obj, op)
            elif k == "angax":
                an = op["anchor"]
                anchor = None if an is None else (0 if an == 0 else an[1])
                g = op["angle"]
                angle = angax_as_given(op, g)
                axis = op["axis"] if isinstance(op["axis"], str) else tuple(op["axis"])
                obj.rotate_from_angax(angle, axis, anchor=anchor, start=start_arg(op["start"]), degrees=op["degrees"])
            elif k == "setpos":
                obj.position = op["val"][0] if op.get("flat") else op["val"]
            elif k == "setori":
                if op.get("none"):
                    obj.orientation = None
                elif op.get("single"):
                    obj.orientation = rot_from(OCTA[op["val"][0]])
                else:
                    obj.orientation = rot_from([OCTA[i] for i in op["val"]])
            elif k == "reset":
                obj.reset_path()
            elif k == "rotfrom":
                call_rotfrom(obj, op)
            elif k == "add":
                obj.add(build_sub(op["sub"]))
            elif k == "remove":
                obj.remove(obj.children[op["j"]])
            elif k == "bad":
                call_bad(obj, op["what"])
            tag = "ok"
        except MagpylibBadUserInput:
            tag = "err"
            errs.append((k, op.get("what"), "BadUserInput"))
        except Exception as e:  # foreign error type: reported, still "err" for the state comparison
            tag = "err"
            errs.append((k, op.get("what"), "Foreign:" + type(e).__name__))
        try:
            out.append(f"{tag} " + dump_real(root))
        except ValueError as e:
            out.append(f"{tag} UNSNAPPABLE {e}")
    return out, errs


# ------------------------------------------------------------------ comparison
def first_diff(h):
    ml = run_driver(model_lines(h))
    rl, errs = real_lines(h)
    for i, (a, b) in enumerate(zip(ml, rl)):
        if a != b:
            return i, a, b, errs
    return None, None, None, errs


def shrink(h):
    """greedy removal of operations while a disagreement persists"""
    cur = h
    changed = True
    while changed:
        changed = False
        for i in range(len(cur["ops"]) - 1, -1, -1):
            cand = {"shape": cur["shape"], "ops": cur["ops"][:i] + cur["ops"][i + 1:]}
            try:
                if first_diff(cand)[0] is not None:
                    cur = cand
                    changed = True
            except Exception:
                pass
    return cur


def run_stream(ctx, n_hist, n_ops, equal_lengths_share=0.3, corpus=None):
    """returns stats dict; appends to ctx.broken on disagreement"""
    stats = {"histories": 0, "ops": 0, "op_kinds": {}, "err_kinds": {}, "forms": {}, "max_path_len": 0,
             "tree_sizes": {}, "disagreements": 0, "distinct_states": 0, "angax": {}, "entry_points": {}}
    seen_states = set()
    samples = []
    hists = list(corpus or [])
    for i in range(n_hist):
        eq = ctx.rng.random() < equal_lengths_share
        hists.append(gen_history(ctx.rng, n_ops, equal_lengths=eq))
    # batch all model runs in one driver call
    all_lines, spans = [], []
    for h in hists:
        ls = model_lines(h)
        spans.append((len(all_lines), len(all_lines) + len(ls)))
        all_lines += ls
    ml_all = run_driver(all_lines)
    for h, (a, b) in zip(hists, spans):
        ml = ml_all[a:b]
        rl, errs = real_lines(h)
        stats["histories"] += 1
        stats["ops"] += len(h["ops"])
        stats["tree_sizes"][len(h["shape"])] = stats["tree_sizes"].get(len(h["shape"]), 0) + 1
        for op in h["ops"]:
            stats["op_kinds"][op["op"]] = stats["op_kinds"].get(op["op"], 0) + 1
            if op["addr"] and op["op"] not in ("bad",):
                stats["descendant_ops"] = stats.get("descendant_ops", 0) + 1
                if op.get("descendant"):
                    stats["descendant_ops_uniform_regime"] = stats.get("descendant_ops_uniform_regime", 0) + 1
            if op["op"] == "rot":
                stats["forms"][op.get("form")] = stats["forms"].get(op.get("form"), 0) + 1
            if op["op"] == "rotfrom":
                key = op["kind"] + (":scalar" if op["single"] else ":vector")
                if op["kind"] == "euler":
                    key = f"euler:{op['eshape']}:w{len(op['seq'])}" + (":intrinsic" if op["seq"][:1].isupper() else ":extrinsic")
                stats["entry_points"][key] = stats["entry_points"].get(key, 0) + 1
            if op["op"] == "angax":
                ax = op["axis"]
                key = ("axis-str" if ax in ("x", "y", "z") else "axis-bad-str") if isinstance(ax, str) else ("axis-zero" if not any(ax) else "axis-vec")
                key += ":scalar" if op["angle"][0] == "s" else ":vector"
                key += ":deg" if op["degrees"] else ":rad"
                stats["angax"][key] = stats["angax"].get(key, 0) + 1
        for e in errs:
            key = f"{e[0]}:{e[1]}:{e[2]}"
            stats["err_kinds"][key] = stats["err_kinds"].get(key, 0) + 1
        for line in rl:
            seen_states.add(line)
            for part in line.split(" | "):
                toks = part.split()
                if "P" in toks:
                    stats["max_path_len"] = max(stats["max_path_len"], int(toks[toks.index("P") + 1]))
        diff = next((j for j, (x, y) in enumerate(zip(ml, rl)) if x != y), None)
        if diff is not None:
            stats["disagreements"] += 1
            small = shrink(h)
            j, ma, ra, _ = first_diff(small)
            ctx.broken.append({"kind": "correspondence", "name": "path",
                               "detail": {"history": small, "first_diff_at_line": j, "model": ma, "real": ra}})
            if stats["disagreements"] >= 3:
                break
        elif len(samples) < 2:
            samples.append({"shape": h["shape"], "ops": h["ops"][-4:], "final_state": rl[-1][:400]})
    stats["distinct_states"] = len(seen_states)
    stats["samples"] = samples
    print("path stream op distribution:", json.dumps({"ops": stats["op_kinds"], "rotate forms": stats["forms"],
                                                       "entry points": stats["entry_points"], "rejected": stats["err_kinds"],
                                                       "ops addressed to descendants": stats.get("descendant_ops", 0),
                                                       "of these in the equal-length regime": stats.get("descendant_ops_uniform_regime", 0)}, sort_keys=True))
    return stats


# ------------------------------------------------------------------ C12: the same history at a second length scale
def _real_states(h, dump, root=None):
    """the operation dispatch of `real_lines` with a caller-supplied state dump (no snapping); returns (states, errkinds)"""
    from magpylib._src.exceptions import MagpylibBadUserInput

    root = build_real(h["shape"]) if root is None else root
    out = [("ok", dump(root))]
    errs = []
    for op in h["ops"]:
        obj = node_at(root, op["addr"])
        k = op["op"]
        try:
            if k == "move":
                inp = op["inp"][1] if op["inp"][0] == "s" else np.array(op["inp"][1], dtype=float).reshape(-1, 3)
                obj.move(inp, start=start_arg(op["start"]))
            elif k == "rot":
                call_rotate(obj, op)
            elif k == "angax":
                an = op["anchor"]
                anchor = None if an is None else (0 if an == 0 else an[1])
                g = op["angle"]
                angle = angax_as_given(op, g)
                axis = op["axis"] if isinstance(op["axis"], str) else tuple(op["axis"])
                obj.rotate_from_angax(angle, axis, anchor=anchor, start=start_arg(op["start"]), degrees=op["degrees"])
            elif k == "setpos":
                obj.position = op["val"][0] if op.get("flat") else op["val"]
            elif k == "setori":
                if op.get("none"):
                    obj.orientation = None
                elif op.get("single"):
                    obj.orientation = rot_from(OCTA[op["val"][0]])
                else:
                    obj.orientation = rot_from([OCTA[i] for i in op["val"]])
            elif k == "reset":
                obj.reset_path()
            elif k == "rotfrom":
                call_rotfrom(obj, op)
            elif k == "add":
                obj.add(build_sub(op["sub"]))
            elif k == "remove":
                obj.remove(obj.children[op["j"]])
            elif k == "bad":
                call_bad(obj, op["what"])
            tag = "ok"
        except MagpylibBadUserInput:
            tag = "err"
            errs.append((k, op.get("what"), "BadUserInput"))
        except Exception as e:
            tag = "err"
            errs.append((k, op.get("what"), "Foreign:" + type(e).__name__))
        out.append((tag, dump(root)))
    return out, errs


def scale_history(h, f):
    """every LENGTH of the history times `f` (displacements, anchors, assigned positions, the position paths of added subtrees); rotations,
    angles, axes, `start`, addresses, malformed calls are left as they are.  The initial tree has all positions at the origin."""
    import copy

    def sv(v):
        return [float(c) * f for c in v]

    def sp(p):  # PathIn encoding ["s", vec] / ["v", [vecs]]
        return [p[0], sv(p[1])] if p[0] == "s" else [p[0], [sv(v) for v in p[1]]]

    def sa(a):
        return a if a is None or a == 0 else sp(a)

    def ssub(node):
        node["pos"] = [sv(v) for v in node["pos"]]
        for c in node["kids"]:
            ssub(c)

    g = copy.deepcopy(h)
    for op in g["ops"]:
        k = op["op"]
        if k == "move":
            op["inp"] = sp(op["inp"])
        elif k in ("rot", "angax", "rotfrom"):
            op["anchor"] = sa(op["anchor"])
        elif k == "setpos":
            op["val"] = [sv(v) for v in op["val"]]
        elif k == "add":
            ssub(op["sub"])
    return g


def dump_raw(root):
    """every position path and every orientation quaternion path of the tree as float64 arrays (no snapping, no rounding)"""
    out = []

    def rec(n):
        out.append((np.array(n._position, dtype=float).reshape(-1, 3).copy(), np.array(n._orientation.as_quat(), dtype=float).reshape(-1, 4).copy()))
        for c in getattr(n, "children", []):
            rec(c)

    rec(root)
    return out


def run_scale_stream(ctx, n_hist, n_ops):
    """C12 tie of the pose machinery: every generated history is executed on the REAL objects twice — as generated, and with every
    length multiplied by 2^k (k in -20..20, k != 0) — and after every operation the second state must be the first one with all
    positions multiplied by 2^k BIT FOR BIT and all orientation quaternions identical bit for bit (multiplication by a power of two
    commutes with every IEEE operation the pose code performs on lengths — sums, differences, products with rotation matrix entries —
    as long as nothing over- or underflows, which these magnitudes exclude; an absolute grid or tolerance does not commute).  The
    outcome (accepted / rejected) of every operation must agree as well.  This is what `step_homogeneous` / `history_homogeneous`
    (Props/C12b) state about the model, observed on the code for sigma = multiplication by 2^k."""
    stats = {"histories": 0, "ops": 0, "rows": 0, "states_compared": 0, "nonzero_position_rows": 0, "exponents": {}, "op_kinds": {},
             "max_path_len": 0, "disagreements": 0, "rejected_ops": 0}
    samples = []
    for i in range(n_hist):
        h = gen_history(ctx.rng, n_ops, equal_lengths=ctx.rng.random() < 0.25)
        k = ctx.rng.choice([e for e in range(-20, 21) if e != 0])
        f = 2.0 ** k
        base, errs = _real_states(h, dump_raw)
        scaled, _ = _real_states(scale_history(h, f), dump_raw)
        stats["histories"] += 1
        stats["ops"] += len(h["ops"])
        stats["rejected_ops"] += len(errs)
        stats["exponents"][str(k)] = stats["exponents"].get(str(k), 0) + 1
        for op in h["ops"]:
            stats["op_kinds"][op["op"]] = stats["op_kinds"].get(op["op"], 0) + 1
        bad = None
        for j, ((ta, sa_), (tb, sb_)) in enumerate(zip(base, scaled)):
            stats["states_compared"] += 1
            if ta != tb or len(sa_) != len(sb_):
                bad = (j, "outcome or tree size differs", ta, tb)
                break
            for (pa, qa), (pb, qb) in zip(sa_, sb_):
                stats["rows"] += len(pa)
                stats["nonzero_position_rows"] += int(np.count_nonzero(np.any(pa != 0, axis=1)))
                stats["max_path_len"] = max(stats["max_path_len"], len(pa))
                if pa.shape != pb.shape or (pa * f).tobytes() != pb.tobytes() or qa.tobytes() != qb.tobytes():
                    dev = float(np.max(np.abs(pa * f - pb)) / f) if pa.shape == pb.shape else None
                    bad = (j, "positions are not the scaled positions bit for bit" if pa.shape != pb.shape or (pa * f).tobytes() != pb.tobytes()
                           else "orientation quaternions differ", dev, None)
                    break
            if bad:
                break
        if bad:
            stats["disagreements"] += 1
            j = bad[0]
            detail = {"exponent": k, "state_index": j, "what": bad[1], "deviation_in_base_units": bad[2],
                      "history": {"shape": h["shape"], "ops": h["ops"][:j]}}
            ctx.broken.append({"kind": "correspondence", "name": "path-scale", "detail": detail})
            ctx.failing.append({"key": f"unit-scale:pose-history:2^{k}", "desc": f"a history of pose operations executed with every length multiplied by 2^{k} does not give the "
                                f"scaled state ({bad[1]}; first difference after operation {j}: {h['ops'][j - 1]['op'] if j else 'construction'})", "replay": detail})
            if stats["disagreements"] >= 3:
                break
        elif len(samples) < 2:
            samples.append({"exponent": k, "shape": h["shape"], "ops": h["ops"][-3:],
                            "final_positions_base": [p.tolist() for p, _ in base[-1][1]][:3], "final_positions_scaled": [p.tolist() for p, _ in scaled[-1][1]][:3]})
    stats["samples"] = samples
    print("path-scale stream:", json.dumps({k: v for k, v in stats.items() if k not in ("samples",)}, sort_keys=True))
    return stats


# ------------------------------------------------------------------ C10: the field a collection's own sensor reads, over histories
def spec_window(scalar, N, L, start):
    """Spec/PathSpec.lean `window`: (entries padded in front, new length)"""
    s = (0 if scalar else N) if start is None else (N + start if start < 0 else start)
    b, s0 = max(0, -s), max(0, s)
    return b, max(N + b, s0 + (1 if scalar else L))


def op_index_map(op, N):
    """`HOp.idx` / `HOp.newLen` (Lemmas/HistoryAddr.lean) of an ACCEPTED operation on a collection of common path length N:
    (new length, index map).  Operations addressed to descendants: identity."""
    k = op["op"]
    if op["addr"] or k == "bad":
        return N, (lambda i: i)
    if k == "move":
        sc = op["inp"][0] == "s"
        b, n2 = spec_window(sc, N, 1 if sc else len(op["inp"][1]), op["start"])
        return n2, (lambda i: min(max(i - b, 0), N - 1))
    if k in ("rot", "angax", "rotfrom"):
        if k == "rot":
            rsc, rlen = op["rot"][0] == "s", (0 if op["rot"][0] == "s" else len(op["rot"][1]))
        elif k == "angax":
            rsc, rlen = op["angle"][0] == "s", (0 if op["angle"][0] == "s" else len(op["angle"][1]))
        elif op["kind"] == "euler":
            if op["eshape"] == "num":
                rsc, rlen = True, 0
            elif op["eshape"] == "arr1":
                rsc = len(op["seq"]) != 1
                rlen = 0 if rsc else len(op["data"])
            else:
                rsc, rlen = False, len(op["data"])
        else:
            rsc, rlen = op["single"], (0 if op["single"] else len(op["data"]))
        an = op["anchor"]
        asc = an is None or an == 0 or an[0] == "s"
        alen = 0 if asc else len(an[1])
        b, n2 = spec_window(rsc and asc, N, max(rlen, alen), op["start"])
        return n2, (lambda i: min(max(i - b, 0), N - 1))
    if k in ("setpos", "setori"):
        M = 1 if op.get("none") else len(op["val"])
        return M, (lambda i: i + (N - M) if M <= N else min(i, N - 1))
    if k == "reset":
        return 1, (lambda i: N - 1)
    raise ValueError(k)


def gen_own_sensor_case(rng, n_ops, p_bad=0.06):
    """a collection tree whose leaves are CustomSource objects (field function: an integer affine map of the local observer position)
    and ONE sensor (1..3 pixels, either handedness), every member given the same path length; then operations on the collection itself
    (every kind `gen_op` makes for the root) interleaved with length-preserving operations addressed to descendants"""
    while True:
        shape = gen_shape(rng, 6)
        addrs = addresses(shape)
        leaves = [a for a, k in zip(addrs, shape) if k == 0 and a]
        if len(leaves) >= 2:
            break
    ks = rng.choice(leaves)
    cand = [a for a in leaves if a != ks]
    keep = [a for a in cand if rng.random() < 0.65] or [rng.choice(cand)]  # the other leaves are idle objects (plain sensors): operations
    srcs = [{"addr": a, "A": [[rng.randint(-2, 2) for _ in range(3)] for _ in range(3)], "b": rvec(rng)} for a in keep]  # on them touch nothing tracked
    n = rng.choice([1, 2, 3, 4])
    init = []
    for a in reversed(addrs):
        init.append({"op": "setpos", "addr": a, "val": [rvec(rng) for _ in range(n)], "flat": False})
        init.append({"op": "setori", "addr": a, "val": [rng.randrange(24) for _ in range(n)], "single": False, "none": False})
    ops = []
    inner = [a for a in addrs if a]
    idle = [a for a in leaves if a != ks and a not in keep]
    for _ in range(n_ops):
        if rng.random() < 0.2:
            ops.append(gen_descendant_op(rng, rng.choice(idle if idle and rng.random() < 0.6 else inner)))
        else:
            ops.append(gen_op(rng, [[]], 4, p_bad))
    return {"shape": shape, "init": init, "ops": ops, "sensor": ks, "srcs": srcs, "left": rng.random() < 0.4,
            "pixels": [rvec(rng) for _ in range(rng.choice([1, 1, 2, 3]))]}


def build_own_sensor_real(c):
    import magpylib as magpy

    kinds = {tuple(s["addr"]): s for s in c["srcs"]}
    it = iter(c["shape"])
    made = {}

    def rec(addr):
        k = next(it)
        if k == 0 and tuple(addr) == tuple(c["sensor"]):
            o = magpy.Sensor(pixel=np.array(c["pixels"], dtype=float), handedness="left" if c["left"] else "right")
        elif k == 0 and tuple(addr) in kinds:
            A, b = np.array(kinds[tuple(addr)]["A"], float), np.array(kinds[tuple(addr)]["b"], float)
            o = magpy.misc.CustomSource(field_func=lambda field, observers, A=A, b=b: observers @ A.T + b)
        elif k == 0:
            o = magpy.Sensor()
        else:
            o = magpy.Collection(*[rec(addr + [j]) for j in range(k)])
        made[tuple(addr)] = o
        return o

    root = rec([])
    return root, made[tuple(c["sensor"])]


def own_sensor_read_line(c):
    srcs = " ".join(f"{enc_addr(s['addr'])} {fmt_mat(s['A'])} {fmt_vec(s['b'])}" for s in c["srcs"])
    return (f"path read {len(c['srcs'])} {srcs} {enc_addr(c['sensor'])} {int(c['left'])} {len(c['pixels'])} "
            + " ".join(fmt_vec(v) for v in c["pixels"]))


def run_own_sensor_stream(ctx, n_hist, n_ops):
    """C10 own-sensor row.  After the construction and after every operation (a) the reading of the collection's own sensor computed
    by the REAL `getB(collection, sensor)` is compared EXACTLY with the reading the Lean driver computes from ITS tree state
    (`Node.ownTensor`: Model/Level2 `tensor` on the objects at the same addresses) — the tie of the model the theorems
    `own_sensor_reading_invariant_history` / `history_index_map` are about; (b) on the real values alone: the reading after the
    operation at every path index i equals the reading before it at index `HOp.idx … i`, and the new path length is `HOp.newLen`
    (`op_index_map`, written from the Lean definitions), whenever the operation does not address a source / the sensor or one of
    their ancestors below the collection.  Integer data: positions in Z^3, octahedral rotations, integer affine field functions."""
    import magpylib as magpy

    stats = {"histories": 0, "ops": 0, "readings_compared_with_model": 0, "invariance_rows": 0, "invariance_steps": 0,
             "steps_touching_a_tracked_member": 0, "descendant_ops_not_touching": 0, "rejected_ops": 0, "op_kinds": {},
             "length_changes": 0, "max_path_len": 0, "disagreements": 0, "distinct_readings": 0}
    seen = set()
    cases = [gen_own_sensor_case(ctx.rng, n_ops) for _ in range(n_hist)]
    all_lines, spans = [], []
    for c in cases:
        h = {"shape": c["shape"], "ops": c["init"] + c["ops"]}
        ml = model_lines(h)
        rd = own_sensor_read_line(c)
        n0 = 1 + len(c["init"])
        lines = ml[:n0] + [rd]
        for line in ml[n0:]:
            lines += [line, rd]
        spans.append((len(all_lines), len(all_lines) + len(lines)))
        all_lines += lines
    out_all = run_driver(all_lines)
    tracked_of = lambda c: [tuple(c["sensor"])] + [tuple(s["addr"]) for s in c["srcs"]]
    for c, (a, b) in zip(cases, spans):
        out = out_all[a:b]
        n0 = 1 + len(c["init"])
        model_reads = [out[n0]] + [out[n0 + 2 * j + 2] for j in range(len(c["ops"]))]
        root, sensor = build_own_sensor_real(c)

        def dump(r, sensor=sensor):
            B = np.asarray(magpy.getB(r, sensor, squeeze=False), dtype=float)[0, :, 0]
            q = np.rint(B)
            if np.max(np.abs(B - q)) > 1e-6:
                raise ValueError("reading not on the integer grid")
            return len(r._position), q.astype(int).reshape(B.shape[0], -1, 3)

        h = {"shape": c["shape"], "ops": c["init"] + c["ops"]}
        states, errs = _real_states(h, dump, root=root)
        states = states[len(c["init"]):]  # states[0] = after construction, states[j + 1] = after operation j
        stats["histories"] += 1
        stats["ops"] += len(c["ops"])
        stats["rejected_ops"] += sum(1 for t, _ in states[1:] if t == "err")
        bad = None
        for j, (tag, (N, Bm)) in enumerate(states):
            real_line = f"read {Bm.shape[0]} | " + " | ".join(" ".join(fmt_vec(v) for v in row) for row in Bm)
            stats["readings_compared_with_model"] += 1
            stats["max_path_len"] = max(stats["max_path_len"], N)
            seen.add(real_line)
            if model_reads[j] != real_line:
                bad = (j, "model reading differs from getB", model_reads[j][:300], real_line[:300])
                break
            if j == 0:
                continue
            op = c["ops"][j - 1]
            stats["op_kinds"][op["op"]] = stats["op_kinds"].get(op["op"], 0) + 1
            N0, B0 = states[j - 1][1]
            touched = bool(op["addr"]) and any(t[:len(op["addr"])] == tuple(op["addr"]) for t in tracked_of(c))
            if touched and tag == "ok":
                stats["steps_touching_a_tracked_member"] += 1
                continue
            n2, sig = (N0, (lambda i: i)) if tag == "err" else op_index_map(op, N0)
            if op["addr"] and tag == "ok":
                stats["descendant_ops_not_touching"] += 1
            if n2 != N or Bm.shape[0] != n2:
                bad = (j, f"path length after the operation {N} (reading rows {Bm.shape[0]}), HOp.newLen gives {n2}", None, None)
                break
            stats["length_changes"] += int(n2 != N0)
            stats["invariance_steps"] += 1
            for i in range(n2):
                stats["invariance_rows"] += 1
                if not np.array_equal(Bm[i], B0[sig(i)]):
                    bad = (j, f"reading at index {i} after the operation differs from the reading at index {sig(i)} before it",
                           Bm[i].tolist(), B0[sig(i)].tolist())
                    break
            if bad:
                break
        if bad:
            stats["disagreements"] += 1
            j = bad[0]
            ctx.broken.append({"kind": "correspondence", "name": "path-own-sensor",
                               "detail": {"what": bad[1], "after_operation": j, "a": bad[2], "b": bad[3],
                                          "case": {**c, "ops": c["ops"][:j]}}})
            if stats["disagreements"] >= 3:
                break
    stats["distinct_readings"] = len(seen)
    print("path own-sensor stream:", json.dumps(stats, sort_keys=True))
    return stats
