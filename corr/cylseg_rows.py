"""row generators of the `kern` stream for the CylinderSegment port (Model/CylSeg.lean = translated case functions,
Model/CylSegWrap.lean = hand-written dispatch and wrappers, Model/CylSegSpecial.lean = Float special functions).

kinds
  cylsegcase   determine_cases(r, phi, z, r_i, phi_j, z_k) for one boundary — the id, exactly
  cylsegblock  the 3x3 block (component x face type) the dispatch produces for one boundary: real `case<id>` function
               called with the arguments the source's own `case_args` table selects, against `caseDispatch`; gives the
               per-case-id deviation of the translated expressions + special-function substitutes
  cylsegH      magnet_cylinder_segment_Hfield for one observer (8 boundaries, signed sum, amplitude factor)
  cylseg       BHJM_cylinder_segment_internal (mode `int`: 360-degree rings go to the Cylinder solution) and
               BHJM_cylinder_segment (mode `raw`) for B, H, J, M
  cylsegatan   arctan_k_tan_2(k, phi), phi also at and next to multiples of pi
  cylsegell    scipy ellipkinc / ellipeinc against the Carlson substitutes;  cylsegel3: el3_angle against its port
Observers are stratified coordinate by coordinate: r in {0, r1, r2, inside the bore, in the material, outside, close to a radius},
phi in {phi1, phi2, phi1+pi, phi2-pi, shifted by 2pi, inside the range, outside, close to a face}, z in {z1, z2, between, above,
below, close to a base}; exact hits of the special values select the special case ids.  Everything is drawn from the stream's PRNG.
A real-code call that raises RuntimeError (`cel0` with kc == 0, `el30` FAIL) or returns NaN in every component is the model's
`none`; a call that does not return within 20 s is reported as a disagreement (`hang`).
"""
import contextlib
import signal

import numpy as np

import struct


def bits(x):
    return str(struct.unpack("<Q", struct.pack("<d", float(x)))[0])


def enc(v):
    return " ".join(bits(x) for x in np.ravel(v))


def fewbits(v):
    """v with its mantissa cut to 20 bits (so that 3v, 4v, 5v are exact and (3v, 4v) has norm 5v exactly)"""
    m, e = np.frexp(v)
    return float(np.ldexp(np.floor(m * 2**20) / 2**20, e))

TWO_PI = 2 * np.pi


class Hang(Exception):
    pass


@contextlib.contextmanager
def alarm(sec):
    def h(signum, frame):
        raise Hang()

    try:
        old = signal.signal(signal.SIGALRM, h)
    except ValueError:  # not in the main thread: no watchdog possible
        yield
        return
    signal.setitimer(signal.ITIMER_REAL, sec)
    try:
        yield
    finally:
        signal.setitimer(signal.ITIMER_REAL, 0)
        signal.signal(signal.SIGALRM, old)


_tables = None


def tables():
    """case id -> (real case function, names of its arguments in `allargs`), from the source's own tables"""
    global _tables
    if _tables is None:
        import os
        import sys

        here = os.path.join(os.path.dirname(os.path.abspath(__file__)), "..", "translate")
        if here not in sys.path:
            sys.path.insert(0, here)
        import cylseg2lean
        from magpylib._src.fields import field_BH_cylinder_segment as mod

        ids, fk, al, ca = cylseg2lean.source_tables(mod.__file__)
        _tables = {i: (getattr(mod, f), [al[k] for k in a]) for i, f, a in zip(ids, fk, ca)}
    return _tables


def core_geometry(rng, nps):
    r1 = 0.0 if rng.random() < 0.35 else float(nps.uniform(0.1, 0.8))
    r2 = 1.0 if rng.random() < 0.5 else float(r1 + nps.uniform(0.2, 1.5))
    if r2 <= r1 + 0.05:
        r2 = r1 + 0.5
    phi1 = float(nps.uniform(-TWO_PI, np.pi))
    phi2 = float(phi1 + nps.uniform(0.2, TWO_PI - 0.2))
    h = float(nps.uniform(0.2, 3))
    return r1, r2, phi1, phi2, -h / 2, h / 2


def core_observer(rng, nps, g):
    r1, r2, phi1, phi2, z1, z2 = g
    rs = rng.choice(["zero", "r1", "r2", "inner", "between", "between", "outer", "near"])
    if rs == "inner" and r1 == 0.0:
        rs = "between"
    pm = rng.choice([-1, 1])
    r = {"zero": 0.0, "r1": r1, "r2": r2, "inner": r1 * nps.uniform(0.1, 0.9) if r1 else 0.0,
         "between": r1 + (r2 - r1) * nps.uniform(0.05, 0.95), "outer": r2 * nps.uniform(1.1, 4),
         "near": rng.choice([r1 or r2, r2]) * (1 + pm * 10 ** nps.uniform(-6, -3))}[rs]
    ps = rng.choice(["phi1", "phi2", "phi1+pi", "phi2-pi", "shift2pi", "between", "between", "outside", "near"])
    phi = {"phi1": phi1, "phi2": phi2, "phi1+pi": phi1 + np.pi, "phi2-pi": phi2 - np.pi,
           "shift2pi": rng.choice([phi1 + TWO_PI, phi2 - TWO_PI]), "between": phi1 + (phi2 - phi1) * nps.uniform(0.05, 0.95),
           "outside": phi2 + (TWO_PI - (phi2 - phi1)) * nps.uniform(0.05, 0.95),
           "near": rng.choice([phi1, phi2]) + pm * 10 ** nps.uniform(-6, -3)}[ps]
    zs = rng.choice(["z1", "z2", "between", "between", "above", "below", "near"])
    z = {"z1": z1, "z2": z2, "between": z1 + (z2 - z1) * nps.uniform(0.05, 0.95), "above": z2 + nps.uniform(0.05, 3),
         "below": z1 - nps.uniform(0.05, 3), "near": rng.choice([z1, z2]) + pm * 10 ** nps.uniform(-6, -3)}[zs]
    return float(r), float(phi), float(z), f"r:{rs} phi:{ps} z:{zs}"


def magnetization(rng, nps):
    M = float(10 ** nps.uniform(2, 6))
    phiM = float(nps.uniform(-np.pi, np.pi))
    thM = float(rng.choice([nps.uniform(0, np.pi), nps.uniform(0, np.pi), 0.0, np.pi / 2, np.pi]))
    return M, phiM, thM


def row_case(rng, nps):
    from magpylib._src.fields.field_BH_cylinder_segment import determine_cases

    g = core_geometry(rng, nps)
    r, phi, z, stratum = core_observer(rng, nps, g)
    ri, pj, zk = rng.choice(g[0:2]), rng.choice(g[2:4]), rng.choice(g[4:6])
    if rng.random() < 0.1:  # multiples of pi / 2pi further out
        phi = pj + rng.choice([-3, -2, 2, 3, 4]) * np.pi
    with np.errstate(all="ignore"):
        cid = int(determine_cases(*(np.array([v]) for v in (r, phi, z, ri, pj, zk)))[0])
    return (f"kern cylsegcase {enc([r, phi, z, ri, pj, zk])}", ("mask", str(cid), None),
            {"kind": "cylsegcase", "stratum": stratum, "id": cid, "args": [r, phi, z, ri, pj, zk]})


def row_block(rng, nps):
    from magpylib._src.fields.field_BH_cylinder_segment import determine_cases

    g = core_geometry(rng, nps)
    r, phi, z, stratum = core_observer(rng, nps, g)
    ri, pj, zk = rng.choice(g[0:2]), rng.choice(g[2:4]), rng.choice(g[4:6])
    _, phiM, thM = magnetization(rng, nps)
    vals = {"r": r, "r_i": ri, "r_bar_i": r - ri, "phi_bar_j": phi - pj, "phi_bar_M": phiM - phi, "phi_bar_Mj": phiM - pj,
            "theta_M": thM, "z_bar_k": z - zk, "phi_j": pj}
    line = f"kern cylsegblock {enc([r, phi, z, ri, pj, zk, phiM, thM])}"
    meta = {"kind": "cylsegblock", "stratum": stratum, "args": [r, phi, z, ri, pj, zk, phiM, thM]}
    try:
        with np.errstate(all="ignore"), alarm(20):
            cid = int(determine_cases(*(np.array([v]) for v in (r, phi, z, ri, pj, zk)))[0])
            meta["ids"] = [cid]
            if cid not in tables():
                return line, ("block", (cid, None), None), meta
            fn, names = tables()[cid]
            blk = np.asarray(fn(*[np.array([vals[k]]) for k in names]), dtype=float)[0]
    except Hang:
        return line, ("hang", None, None), meta
    except (RuntimeError, ValueError) as ex:  # cel0 kc == 0 / el30 FAIL; el30 `int(nan)` (log of a negative x in its `bk == False` branch)
        meta["raised"] = type(ex).__name__
        blk = np.full((3, 3), np.nan)
    return line, ("block", (cid, blk), None), meta


def row_H(rng, nps):
    from magpylib._src.fields.field_BH_cylinder_segment import determine_cases, magnet_cylinder_segment_Hfield

    g = core_geometry(rng, nps)
    r, phi, z, stratum = core_observer(rng, nps, g)
    M, phiM, thM = magnetization(rng, nps)
    line = f"kern cylsegH {enc([r, phi, z])} {enc(g)} {enc([M, phiM, thM])}"
    meta = {"kind": "cylsegH", "stratum": stratum, "obs": [r, phi, z], "dim": list(g), "mag": [M, phiM, thM]}
    try:
        with np.errstate(all="ignore"), alarm(20):
            r8 = np.repeat([r], 8), np.repeat([phi], 8), np.repeat([z], 8)
            ids = determine_cases(*r8, np.repeat(g[0:2], 4), np.repeat(np.tile(g[2:4], 2), 2), np.tile(g[4:6], 4))
            meta["ids"] = sorted({int(i) for i in ids})
            H = magnet_cylinder_segment_Hfield(observers=np.array([[r, phi, z]]), dimensions=np.array([g]),
                                               magnetizations=np.array([[M, phiM, thM]]))[0]
    except Hang:
        return line, ("hang", None, None), meta
    except (RuntimeError, ValueError) as ex:
        meta["raised"] = type(ex).__name__
        H = np.full(3, np.nan)
    return line, ("vec", np.asarray(H, dtype=float), M / (4 * np.pi)), meta


def on_circle(rng, nps, rad):
    """a point with sqrt(x^2 + y^2) == rad exactly (3-4-5 triple or an axis), rad with few mantissa bits"""
    c = rng.randrange(3)
    if c == 0:
        return rng.choice([(rad, 0.0), (-rad, 0.0), (0.0, rad), (0.0, -rad)])
    k = rad / 5.0
    a, b = rng.choice([(3.0, 4.0), (4.0, 3.0)])
    return (rng.choice([-1, 1]) * a * k, rng.choice([-1, 1]) * b * k)


def row_wrapper(rng, nps, mu_0, in_out=None):
    from magpylib._src.fields.field_BH_cylinder_segment import BHJM_cylinder_segment, BHJM_cylinder_segment_internal

    sc = 10.0 ** nps.uniform(-3, 3)
    k = fewbits(nps.uniform(0.05, 0.2) * sc)
    r2 = 5.0 * k  # (3k, 4k) has norm r2 exactly
    r1 = rng.choice([0.0, 0.0, 5.0 * fewbits(k * nps.uniform(0.1, 0.9))])
    if r1 >= r2:
        r1 = 0.0
    h = float(nps.uniform(0.2, 3) * r2)
    rk = rng.choice(["generic", "generic", "generic", "ring", "ring", "beyond+", "beyond-", "quadrant", "over360"])
    if rk == "generic":
        p1 = float(nps.uniform(-360, 300))
        p2 = float(p1 + nps.uniform(10, min(359, 360 - p1) if p1 > 1 else 359))
    elif rk == "ring":
        p1 = float(rng.choice([0.0, -180.0, 90.0, float(np.floor(nps.uniform(-360, 0)))]))
        p2 = p1 + 360.0
    elif rk == "beyond+":
        p1 = float(nps.uniform(300, 1000))
        p2 = float(p1 + nps.uniform(10, 350))
    elif rk == "beyond-":
        p2 = float(nps.uniform(-1000, -300))
        p1 = float(p2 - nps.uniform(10, 350))
    elif rk == "over360":
        p1 = float(nps.uniform(-200, 0))
        p2 = float(p1 + nps.uniform(361, 500))
    else:
        p1 = float(rng.choice([-180.0, -90.0, -45.0, 0.0, 45.0, 90.0]))
        p2 = p1 + float(rng.choice([45.0, 90.0, 135.0, 180.0, 270.0]))
    mid = np.deg2rad(p1 + (p2 - p1) * nps.uniform(0.05, 0.95))
    out_ang = np.deg2rad(p2 + (360 - min(p2 - p1, 359)) * nps.uniform(0.05, 0.95))
    os_ = rng.choice(["inside", "inside", "bore", "outer", "above", "outside_phi", "far", "surf_z", "surf_r2", "surf_r1", "surf_phi",
                      "axis", "edge_plane", "generic", "apex_end", "apex_in", "vertex_shell", "edge_shell"])
    zin = h / 2 * nps.uniform(-0.95, 0.95)
    rin = r1 + (r2 - r1) * nps.uniform(0.05, 0.95)

    def polar(rr, a):
        return rr * np.cos(a), rr * np.sin(a)

    if os_ == "inside":
        x = (*polar(rin, mid), zin)
    elif os_ == "bore":
        x = (*polar(r1 * nps.uniform(0.05, 0.9) if r1 else r2 * 1e-3, mid), zin)
    elif os_ == "outer":
        x = (*polar(r2 * nps.uniform(1.05, 3), mid), zin)
    elif os_ == "above":
        x = (*polar(rin, mid), rng.choice([-1, 1]) * h / 2 * nps.uniform(1.05, 3))
    elif os_ == "outside_phi":
        x = (*polar(rin, out_ang), zin)
    elif os_ == "far":
        x = tuple(nps.uniform(-1, 1, 3) * max(r2, h) * 10 ** nps.uniform(0.5, 2))
    elif os_ == "surf_z":
        x = (*polar(rng.choice([rin, r2 * nps.uniform(1.05, 2)]), mid), rng.choice([-1, 1]) * h / 2)
    elif os_ == "surf_r2":
        x = (*on_circle(rng, nps, r2), rng.choice([zin, h * nps.uniform(0.6, 2)]))
    elif os_ == "surf_r1":
        x = (*(on_circle(rng, nps, r1) if r1 else (0.0, 0.0)), zin)
    elif os_ == "surf_phi":  # on a section plane: exact for the quadrant angles
        a = rng.choice([p1, p2])
        ar = np.deg2rad(a)
        rr = rng.choice([rin, r2 * nps.uniform(1.05, 2)])
        exact = {0.0: (rr, 0.0), 90.0: (0.0, rr), 180.0: (-rr, 0.0), -180.0: (-rr, 0.0), -90.0: (0.0, -rr), 270.0: (0.0, -rr),
                 45.0: (rr, rr), -45.0: (rr, -rr), 135.0: (-rr, rr), 225.0: (-rr, -rr), -135.0: (-rr, -rr), 360.0: (rr, 0.0)}
        x = (*(exact[a] if a in exact else polar(rr, ar)), zin)
    elif os_ == "axis":
        x = (0.0, 0.0, rng.choice([zin, h * nps.uniform(0.6, 2), h / 2]))
    elif os_ == "apex_end":  # end points of the apex line of a segment without bore (also when azimuth 0 is not in the range)
        r1 = 0.0
        x = (0.0, 0.0, rng.choice([-1, 1]) * h / 2)
    elif os_ == "apex_in":  # interior points of the apex line
        r1 = 0.0
        x = (0.0, 0.0, zin)
    elif os_ == "vertex_shell":  # 5e-13 (in units of r2) outside a vertex: inside `close`, outside the former 1e-14 slabs
        e = 5e-13 * r2 * rng.choice([1.0, 1.0, -1.0])
        rv = r2 if (not r1 or rng.random() < 0.6) else r1
        x = (*polar(rv + e, np.deg2rad(rng.choice([p1, p2]))), rng.choice([-1, 1]) * (h / 2 + e))
    elif os_ == "edge_shell":  # the same next to an edge (two coordinates on the boundary, the third strictly inside)
        e = 5e-13 * r2
        kind = rng.choice(["rz", "rphi", "phiz"])
        if kind == "rz":
            x = (*polar(r2 + e, mid), rng.choice([-1, 1]) * (h / 2 + e))
        elif kind == "rphi":
            x = (*polar(r2 + e, np.deg2rad(rng.choice([p1, p2]))), zin)
        else:
            x = (*polar(rin, np.deg2rad(rng.choice([p1, p2]))), rng.choice([-1, 1]) * (h / 2 + e))
    elif os_ == "edge_plane":  # base plane and a radius at once
        x = (*on_circle(rng, nps, rng.choice([r2, r1 or r2])), rng.choice([-1, 1]) * h / 2)
    else:
        x = (*(nps.uniform(-2, 2, 2) * r2), nps.uniform(-1.5, 1.5) * h)
    x = np.asarray(x, dtype=float)
    pk = rng.choice(["generic", "generic", "generic", "ax", "tv", "x", "zero"])
    pol = nps.uniform(-1, 1, 3)
    if pk == "ax":
        pol[:2] = 0.0
    elif pk == "tv":
        pol[2] = 0.0
    elif pk == "x":
        pol[1:] = 0.0
    elif pk == "zero":
        pol[:] = 0.0
    f = rng.choice("BHJM")
    mode = "raw" if (rk not in ("ring", "over360") and rng.random() < 0.3) else "int"
    if in_out:  # through getBH_level1 with the keyword in_out: the class's function is the internal wrapper
        mode = "int"
    dim = np.array([[r1, r2, h, p1, p2]])
    line = (f"kern l1 {({'bogus': 'other'}).get(in_out, in_out)} " if in_out else "kern ") + f"cylseg {mode} {f} {enc(x)} {enc(dim)} {enc(pol)}"
    meta = {"kind": "cylseg", "mode": mode, "field": f, "stratum": f"range:{rk} obs:{os_} pol:{pk}", "x": x.tolist(), "dim": dim[0].tolist(),
            "pol": pol.tolist(), **({"l1": in_out} if in_out else {})}
    try:
        with np.errstate(all="ignore"), alarm(30):
            if in_out:
                from corr.kern_family import level1_call
                v = level1_call(BHJM_cylinder_segment_internal, f, x, in_out, polarization=pol[None], dimension=dim)
            elif mode == "int":
                v = BHJM_cylinder_segment_internal(field=f, observers=x[None], polarization=pol[None], dimension=dim)[0]
            else:
                v = BHJM_cylinder_segment(field=f, observers=x[None], dimension=dim, polarization=pol[None])[0]
    except Hang:
        return line, ("hang", None, None), meta
    except (RuntimeError, ValueError) as ex:
        meta["raised"] = type(ex).__name__
        v = np.full(3, np.nan)
    return line, ("vec", np.asarray(v, dtype=float), np.linalg.norm(pol) * (1 if f in "BJ" else 1 / mu_0) + 1e-300), meta


def row_ell(rng, nps):
    from scipy.special import ellipeinc, ellipkinc

    phi = float(nps.uniform(-7, 7) if rng.random() < 0.6 else nps.uniform(-1.6, 1.6))
    m = float(-(10 ** nps.uniform(-8, 8)) if rng.random() < 0.8 else nps.uniform(0, 0.999))
    return (f"kern cylsegell {bits(phi)} {bits(m)}", ("vec", np.array([ellipkinc(phi, m), ellipeinc(phi, m)]), 1e-300),
            {"kind": "cylsegell", "phi": phi, "m": m})


def row_el3(rng, nps):
    from magpylib._src.fields.special_el3 import el3_angle

    phi = float(nps.uniform(-7, 7) if rng.random() < 0.6 else nps.uniform(-1.6, 1.6))
    m = float(-(10 ** nps.uniform(-6, 6)) if rng.random() < 0.8 else nps.uniform(0, 0.999))
    nn = float(rng.choice([nps.uniform(-5, 0.999), -(10 ** nps.uniform(-3, 4)), 1 - 10 ** nps.uniform(-8, 0), nps.uniform(1.0, 5)]))
    meta = {"kind": "cylsegel3", "phi": phi, "n": nn, "m": m}
    try:
        with np.errstate(all="ignore"), alarm(20):
            v = float(el3_angle(np.array([phi]), np.array([nn]), np.array([m]))[0])
    except Hang:
        return f"kern cylsegel3 {bits(phi)} {bits(nn)} {bits(m)}", ("hang", None, None), meta
    except (RuntimeError, ValueError):
        v = float("nan")
    return f"kern cylsegel3 {bits(phi)} {bits(nn)} {bits(m)}", ("vec", np.array([v]), 1e-300), meta


def row_atan(rng, nps):
    from magpylib._src.fields.field_BH_cylinder_segment import arctan_k_tan_2

    k = float(10 ** nps.uniform(-3, 3))
    phi = float(rng.choice([nps.uniform(-20, 20), nps.uniform(-20, 20), rng.randrange(-7, 8) * np.pi, rng.randrange(-7, 8) * np.pi + 10 ** nps.uniform(-12, -3)]))
    with np.errstate(all="ignore"):
        v = float(arctan_k_tan_2(np.array([k]), np.array([phi]))[0])
    return f"kern cylsegatan {bits(k)} {bits(phi)}", ("vec", np.array([v]), 1e-300), {"kind": "cylsegatan", "k": k, "phi": phi}


KINDS = {"cylsegatan": row_atan, "cylsegcase": row_case, "cylsegblock": row_block, "cylsegH": row_H, "cylsegell": row_ell, "cylsegel3": row_el3}
