"""correspondence stream `trimesh` (C06, C02, C13): the row-grouping loop of BHJM_magnet_trimesh (in_out="auto") against
Model/TrimeshBatch.lean.  Batches of rows (mesh, observer, polarization) are built from a small pool of closed meshes —
boxes of different sizes (equal face counts, concentric: equal vertex sums), a box differing in one dimension only, a
tetrahedron (different face count -> ragged batch) — in arrangements chosen to fool a grouping shortcut: the same mesh
re-appearing after a different one (A B A, A B A B), single-row groups at either end, all rows equal, all rows different.
The real function is called once for the whole batch with field "J" (its output is then exactly the polarization or 0);
the model gets the mesh ids and the truth table inside[mesh j][row i] obtained from the real mask_inside_trimesh one row
at a time.  Exact comparison."""
import numpy as np

from vlib.driver import run_driver

CUBE12 = np.array([[0, 1, 3], [0, 3, 2], [4, 6, 7], [4, 7, 5], [0, 4, 5], [0, 5, 1], [2, 3, 7], [2, 7, 6], [0, 2, 6], [0, 6, 4], [1, 5, 7], [1, 7, 3]])
TETRA4 = np.array([[0, 2, 1], [0, 1, 3], [1, 2, 3], [0, 3, 2]])


def box(d):
    v = np.array([[x, y, z] for x in (-1, 1) for y in (-1, 1) for z in (-1, 1)]) * np.asarray(d, float) / 2
    return v[CUBE12]


def tetra(s):
    v = np.array([[0, 0, 0], [1, 0, 0], [0, 1, 0], [0, 0, 1]], float) * s - s / 4
    return v[TETRA4]


def gen_case(rng):
    dA = [rng.choice([0.5, 0.75, 1.0]) for _ in range(3)]
    dB = [rng.choice([1.5, 2.0, 2.5]) for _ in range(3)]
    dC = list(dA)
    dC[rng.randrange(3)] *= 3.0
    pool = [box(dA), box(dB), box(dC)]
    ragged = rng.random() < 0.3
    if ragged:
        pool.append(tetra(rng.choice([1.0, 2.0])))
    K = len(pool)
    pattern = rng.choice(["aba", "abab", "aab", "abb", "same", "distinct", "random", "single"])
    ids = {"aba": [0, 1, 0], "abab": [0, 1, 0, 1], "aab": [0, 0, 1], "abb": [0, 1, 1], "same": [rng.randrange(K)] * rng.choice([1, 2, 4]),
           "distinct": list(range(K)), "single": [rng.randrange(K)]}.get(pattern) or [rng.randrange(K) for _ in range(rng.choice([2, 3, 5, 8]))]
    if pattern in ("aba", "abab", "aab", "abb") and rng.random() < 0.5:
        perm = list(range(K))
        rng.shuffle(perm)
        ids = [perm[i] for i in ids]
    if ragged and 3 not in ids and rng.random() < 0.7:
        ids.insert(rng.randrange(len(ids) + 1), 3)
    n = len(ids)
    obs = []
    for i in ids:
        # an observer inside one body of the pool and outside another, or outside all
        ext = np.abs(pool[rng.randrange(K)].reshape(-1, 3)).max(axis=0)
        obs.append(np.array([rng.choice([-0.8, -0.45, 0.1, 0.3, 0.85, 1.4]) for _ in range(3)]) * ext)
    pols = [rng.randint(1, 9) * (1 if rng.random() < 0.8 else -1) for _ in range(n)]
    return pool, ids, np.array(obs), pols, pattern


def run_stream(ctx, n_cases):
    from magpylib._src.fields.field_BH_triangularmesh import BHJM_magnet_trimesh, mask_inside_trimesh

    rng = ctx.rng
    cases = [gen_case(rng) for _ in range(n_cases)]
    lines = []
    for pool, ids, obs, pols, _ in cases:
        n, K = len(ids), len(pool)
        table = [[int(bool(mask_inside_trimesh(obs[i][None].copy(), pool[j].copy())[0])) for i in range(n)] for j in range(K)]
        rows = " ".join(f"{ids[i]} 0 {pols[i]}" for i in range(n))
        lines.append(f"trimesh addinside {n} {K} {rows} " + " ".join(str(b) for row in table for b in row))
    out = run_driver(lines)
    stats = {"cases": n_cases, "rows": 0, "patterns": {}, "inside_rows": 0, "ragged": 0, "disagreements": 0}
    samples = []
    for (pool, ids, obs, pols, pattern), o, ln in zip(cases, out, lines):
        n = len(ids)
        same_shape = len({pool[i].shape for i in ids}) == 1
        if same_shape:
            mesh = np.array([pool[i] for i in ids], dtype=float)
        else:
            mesh = np.empty(n, dtype=object)
            for k, i in enumerate(ids):
                mesh[k] = pool[i].copy()
            stats["ragged"] += 1
        pol = np.array([[p, 2 * p, 3 * p] for p in pols], dtype=float)
        J = BHJM_magnet_trimesh("J", obs.copy(), mesh, pol.copy())
        real = []
        ok = True
        for k in range(n):
            if np.array_equal(J[k], pol[k]):
                real.append(pols[k])
            elif np.all(J[k] == 0):
                real.append(0)
            else:
                real.append("?")
                ok = False
        want = "addinside " + " ".join(map(str, real))
        stats["rows"] += n
        stats["patterns"][pattern] = stats["patterns"].get(pattern, 0) + 1
        stats["inside_rows"] += sum(1 for r in real if r not in (0, "?"))
        if not ok or o.strip() != want.strip():
            stats["disagreements"] += 1
            if stats["disagreements"] <= 3:
                ctx.broken.append({"kind": "correspondence", "name": "trimesh",
                                   "detail": {"pattern": pattern, "mesh_ids": ids, "observers": obs.tolist(), "model": o, "real": want,
                                              "pool_dims": [np.ptp(m.reshape(-1, 3), axis=0).tolist() for m in pool]}})
        elif len(samples) < 2:
            samples.append({"pattern": pattern, "mesh_ids": ids, "result": want})
    stats["samples"] = samples
    return stats


def run_batch_stream(ctx, n_cases):
    """the whole BHJM_magnet_trimesh in IEEE double (Model/TrimeshSum.lean): batches with equal and with different face counts,
    fields B/H/J/M, generic observers (distinct, off the surfaces), near and far bodies in one call; rel. 1e-7 of the
    polarization scale (triangle sheets cancel near edge extensions)"""
    from magpylib import mu_0
    from magpylib._src.fields.field_BH_triangularmesh import BHJM_magnet_trimesh, mask_inside_trimesh

    from corr.kern_family import enc, unbits

    rng = ctx.rng
    lines, expect = [], []
    stats = {"batches": n_cases, "rows": 0, "ragged": 0, "disagreements": 0, "fields": {}}
    for _ in range(n_cases):
        nps = np.random.default_rng(rng.randrange(2**31))
        pool, ids, _, _, pattern = gen_case(rng)
        n, K = len(ids), len(pool)
        far = rng.random() < 0.3  # one body far away from the others' observers
        obs = []
        for k, i in enumerate(ids):
            ext = np.abs(pool[rng.randrange(K)].reshape(-1, 3)).max(axis=0)
            o = nps.uniform(-1.6, 1.6, 3) * ext
            if far and k == n - 1:
                o = o + nps.uniform(200, 2000, 3)
            obs.append(o)
        obs = np.array(obs)
        pol = nps.uniform(-1, 1, (n, 3))
        f = rng.choice("BBHHJM")
        same_shape = len({pool[i].shape for i in ids}) == 1
        if same_shape:
            mesh = np.array([pool[i] for i in ids], dtype=float)
        else:
            mesh = np.empty(n, dtype=object)
            for k, i in enumerate(ids):
                mesh[k] = pool[i].copy()
            stats["ragged"] += 1
        real = np.asarray(BHJM_magnet_trimesh(f, obs.copy(), mesh, pol.copy()), dtype=float)
        table = [[int(bool(mask_inside_trimesh(obs[i][None].copy(), pool[j].copy())[0])) for i in range(n)] for j in range(K)]
        rows = " ".join(f"{ids[k]} {len(pool[ids[k]])} {enc(pool[ids[k]])} {enc(obs[k])} {enc(pol[k])}" for k in range(n))
        lines.append(f"trimesh batch {f} {n} {K} {rows} " + " ".join(str(b) for row in table for b in row))
        expect.append((real, f, pattern, ids))
        stats["rows"] += n
        stats["fields"][f] = stats["fields"].get(f, 0) + 1
    out = run_driver(lines)
    for o, (real, f, pattern, ids) in zip(out, expect):
        try:
            got = np.array([unbits(t) for t in o.split()]).reshape(-1, 3)
        except Exception:  # noqa: BLE001
            got = None
        scale = 1.0 if f in "BJ" else 1.0 / mu_0
        ok = got is not None and got.shape == real.shape and bool(np.all(np.abs(got - real) <= 1e-7 * np.maximum(np.maximum(np.abs(got), np.abs(real)).max(axis=1, keepdims=True), 1e-12 * scale)))
        if not ok:
            stats["disagreements"] += 1
            if stats["disagreements"] <= 3:
                ctx.broken.append({"kind": "correspondence", "name": "trimesh-batch", "detail": {"field": f, "pattern": pattern, "mesh_ids": ids, "model": str(got), "real": str(real)}})
    return stats
