"""correspondence stream `trimesh` (C06, C02, C13): the row-grouping loop of BHJM_magnet_trimesh (in_out="auto") against
Model/TrimeshBatch.lean.  Batches of rows (mesh, observer, polarization) are built from a small pool of closed meshes —
boxes of different sizes (equal face counts, concentric: equal vertex sums), a box differing in one dimension only, a
tetrahedron (different face count -> ragged batch) — in arrangements chosen to fool a grouping shortcut: the same mesh
re-appearing after a different one (A B A, A B A B), single-row groups at either end, all rows equal, all rows different.
The real function is called once for the whole batch with field "J" (its output is then exactly the polarization or 0);
the model gets the mesh ids and the truth table inside[mesh j][row i] obtained from the real mask_inside_trimesh one row
at a time.  Exact comparison."""
import numpy as np

from vlib.driver import run_driver

CUBE12 = np.array([[0, 1, 3], [0, 3, 2], [4, 6, 7], [4, 7, 5], [0, 4, 5], [0, 5, 1], [2, 3, 7], [2, 7, 6], [0, 2, 6], [0, 6, 4], [1, 5, 7], [1, 7, 3]])
TETRA4 = np.array([[0, 2, 1], [0, 1, 3], [1, 2, 3], [0, 3, 2]])


def box(d):
    v = np.array([[x, y, z] for x in (-1, 1) for y in (-1, 1) for z in (-1, 1)]) * np.asarray(d, float) / 2
    return v[CUBE12]


def tetra(s):
    v = np.array([[0, 0, 0], [1, 0, 0], [0, 1, 0], [0, 0, 1]], float) * s - s / 4
    return v[TETRA4]


def gen_case(rng):
    dA = [rng.choice([0.5, 0.75, 1.0]) for _ in range(3)]
    dB = [rng.choice([1.5, 2.0, 2.5]) for _ in range(3)]
    dC = list(dA)
    dC[rng.randrange(3)] *= 3.0
    pool = [box(dA), box(dB), box(dC)]
    ragged = rng.random() < 0.3
    if ragged:
        pool.append(tetra(rng.choice([1.0, 2.0])))
    K = len(pool)
    pattern = rng.choice(["aba", "abab", "aab", "abb", "same", "distinct", "random", "single"])
    ids = {"aba": [0, 1, 0], "abab": [0, 1, 0, 1], "aab": [0, 0, 1], "abb": [0, 1, 1], "same": [rng.randrange(K)] * rng.choice([1, 2, 4]),
           "distinct": list(range(K)), "single": [rng.randrange(K)]}.get(pattern) or [rng.randrange(K) for _ in range(rng.choice([2, 3, 5, 8]))]
    if pattern in ("aba", "abab", "aab", "abb") and rng.random() < 0.5:
        perm = list(range(K))
        rng.shuffle(perm)
        ids = [perm[i] for i in ids]
    if ragged and 3 not in ids and rng.random() < 0.7:
        ids.insert(rng.randrange(len(ids) + 1), 3)
    n = len(ids)
    obs = []
    for i in ids:
        # an observer inside one body of the pool and outside another, or outside all
        ext = np.abs(pool[rng.randrange(K)].reshape(-1, 3)).max(axis=0)
        obs.append(np.array([rng.choice([-0.8, -0.45, 0.1, 0.3, 0.85, 1.4]) for _ in range(3)]) * ext)
    pols = [rng.randint(1, 9) * (1 if rng.random() < 0.8 else -1) for _ in range(n)]
    return pool, ids, np.array(obs), pols, pattern


def run_stream(ctx, n_cases):
    from magpylib._src.fields.field_BH_triangularmesh import BHJM_magnet_trimesh, mask_inside_trimesh

    rng = ctx.rng
    cases = [gen_case(rng) for _ in range(n_cases)]
    lines = []
    for pool, ids, obs, pols, _ in cases:
        n, K = len(ids), len(pool)
        table = [[int(bool(mask_inside_trimesh(obs[i][None].copy(), pool[j].copy())[0])) for i in range(n)] for j in range(K)]
        rows = " ".join(f"{ids[i]} 0 {pols[i]}" for i in range(n))
        lines.append(f"trimesh addinside {n} {K} {rows} " + " ".join(str(b) for row in table for b in row))
    out = run_driver(lines)
    stats = {"cases": n_cases, "rows": 0, "patterns": {}, "inside_rows": 0, "ragged": 0, "disagreements": 0}
    samples = []
    for (pool, ids, obs, pols, pattern), o, ln in zip(cases, out, lines):
        n = len(ids)
        same_shape = len({pool[i].shape for i in ids}) == 1
        if same_shape:
            mesh = np.array([pool[i] for i in ids], dtype=float)
        else:
            mesh = np.empty(n, dtype=object)
            for k, i in enumerate(ids):
                mesh[k] = pool[i].copy()
            stats["ragged"] += 1
        pol = np.array([[p, 2 * p, 3 * p] for p in pols], dtype=float)
        J = BHJM_magnet_trimesh("J", obs.copy(), mesh, pol.copy())
        real = []
        ok = True
        for k in range(n):
            if np.array_equal(J[k], pol[k]):
                real.append(pols[k])
            elif np.all(J[k] == 0):
                real.append(0)
            else:
                real.append("?")
                ok = False
        want = "addinside " + " ".join(map(str, real))
        stats["rows"] += n
        stats["patterns"][pattern] = stats["patterns"].get(pattern, 0) + 1
        stats["inside_rows"] += sum(1 for r in real if r not in (0, "?"))
        if not ok or o.strip() != want.strip():
            stats["disagreements"] += 1
            if stats["disagreements"] <= 3:
                ctx.broken.append({"kind": "correspondence", "name": "trimesh",
                                   "detail": {"pattern": pattern, "mesh_ids": ids, "observers": obs.tolist(), "model": o, "real": want,
                                              "pool_dims": [np.ptp(m.reshape(-1, 3), axis=0).tolist() for m in pool]}})
        elif len(samples) < 2:
            samples.append({"pattern": pattern, "mesh_ids": ids, "result": want})
    stats["samples"] = samples
    return stats


def run_batch_stream(ctx, n_cases, with_in_out=False):
    """the whole BHJM_magnet_trimesh in IEEE double (Model/TrimeshSum.lean): batches with equal and with different face counts,
    fields B/H/J/M, generic observers (distinct, off the surfaces), near and far bodies in one call; rel. 1e-7 of the
    polarization scale (triangle sheets cancel near edge extensions).  `with_in_out` (C02): every batch is evaluated through
    `getBH_level1(field_func=BHJM_magnet_trimesh, in_out=io, …)` (sources at the origin, unit orientation) with io in 'auto' /
    'inside' / 'outside' / a misspelt value, against `Kern.trimeshL1` (Model/InOut.lean)"""
    from magpylib import mu_0
    from magpylib._src.fields.field_BH_triangularmesh import BHJM_magnet_trimesh, mask_inside_trimesh

    from corr.kern_family import enc, unbits

    rng = ctx.rng
    lines, expect = [], []
    stats = {"batches": n_cases, "rows": 0, "ragged": 0, "disagreements": 0, "fields": {}}
    if with_in_out:
        stats["in_out"] = {}
    for _ in range(n_cases):
        nps = np.random.default_rng(rng.randrange(2**31))
        pool, ids, _, _, pattern = gen_case(rng)
        n, K = len(ids), len(pool)
        far = rng.random() < 0.3  # one body far away from the others' observers
        obs = []
        for k, i in enumerate(ids):
            ext = np.abs(pool[rng.randrange(K)].reshape(-1, 3)).max(axis=0)
            o = nps.uniform(-1.6, 1.6, 3) * ext
            if far and k == n - 1:
                o = o + nps.uniform(200, 2000, 3)
            obs.append(o)
        obs = np.array(obs)
        pol = nps.uniform(-1, 1, (n, 3))
        f = rng.choice("BBHHJM")
        same_shape = len({pool[i].shape for i in ids}) == 1
        if same_shape:
            mesh = np.array([pool[i] for i in ids], dtype=float)
        else:
            mesh = np.empty(n, dtype=object)
            for k, i in enumerate(ids):
                mesh[k] = pool[i].copy()
            stats["ragged"] += 1
        io = rng.choice(["auto", "inside", "outside", "bogus", "inside", "outside"]) if with_in_out else None
        if io:
            from magpylib._src.fields.field_wrap_BH import getBH_level1
            from scipy.spatial.transform import Rotation

            stats["in_out"][io] = stats["in_out"].get(io, 0) + 1
            real = np.asarray(getBH_level1(field_func=BHJM_magnet_trimesh, field=f, position=np.zeros((n, 3)), orientation=Rotation.identity(n),
                                           observers=obs.copy(), in_out=io, mesh=mesh, polarization=pol.copy()), dtype=float)
        else:
            real = np.asarray(BHJM_magnet_trimesh(f, obs.copy(), mesh, pol.copy()), dtype=float)
        table = [[int(bool(mask_inside_trimesh(obs[i][None].copy(), pool[j].copy())[0])) for i in range(n)] for j in range(K)]
        rows = " ".join(f"{ids[k]} {len(pool[ids[k]])} {enc(pool[ids[k]])} {enc(obs[k])} {enc(pol[k])}" for k in range(n))
        head = f"trimesh batchio {'other' if io == 'bogus' else io}" if io else "trimesh batch"
        lines.append(f"{head} {f} {n} {K} {rows} " + " ".join(str(b) for row in table for b in row))
        expect.append((real, f, pattern, ids))
        stats["rows"] += n
        stats["fields"][f] = stats["fields"].get(f, 0) + 1
    out = run_driver(lines)
    for o, (real, f, pattern, ids) in zip(out, expect):
        try:
            got = np.array([unbits(t) for t in o.split()]).reshape(-1, 3)
        except Exception:  # noqa: BLE001
            got = None
        scale = 1.0 if f in "BJ" else 1.0 / mu_0
        ok = got is not None and got.shape == real.shape and bool(np.all(np.abs(got - real) <= 1e-7 * np.maximum(np.maximum(np.abs(got), np.abs(real)).max(axis=1, keepdims=True), 1e-12 * scale)))
        if not ok:
            stats["disagreements"] += 1
            if stats["disagreements"] <= 3:
                ctx.broken.append({"kind": "correspondence", "name": "trimesh-batch", "detail": {"field": f, "pattern": pattern, "mesh_ids": ids, "model": str(got), "real": str(real)}})
    return stats


# --------------------------------------------------------------------------------------------------------------------
# stream `trimesh-inside` (C12, C02, C16): the ray-casting inside test itself, Model/TrimeshInside.lean in IEEE double
# --------------------------------------------------------------------------------------------------------------------
LPOLY = np.array([[0, 0], [2, 0], [2, 1], [1, 1], [1, 2], [0, 2]], float)


def l_body():
    """L-shaped prism (non-convex, 20 faces): the L polygon fanned from its corner (0,0), extruded along z"""
    n = len(LPOLY)
    v = np.array([[x, y, z] for z in (0.0, 1.0) for x, y in LPOLY])
    tris = [[0, k + 1, k] for k in range(1, n - 1)] + [[n, n + k, n + k + 1] for k in range(1, n - 1)]
    for k in range(n):
        k2 = (k + 1) % n
        tris += [[k, k2, n + k2], [k, n + k2, n + k]]
    return v[np.array(tris)]


def hull_body(nps, npts):
    import scipy.spatial

    pts = nps.uniform(-1, 1, (npts, 3))
    return pts[scipy.spatial.ConvexHull(pts).simplices]


def needle_prism(rng, nps):
    """prism over a convex polygon two of whose neighbouring corners are only 10^-4 .. 10^-2 apart (the body of repo fix ed093b8): the
    wall between them consists of two SLIVER facets, the fans of the caps contain needle facets; outward wound"""
    m = rng.choice([4, 5, 6])
    ang = (np.arange(m) + nps.uniform(0.1, 0.9, m)) * (2 * np.pi - 0.3) / m  # neighbours at least 0.2 rad apart, also across 2 pi
    gap = 10.0 ** float(nps.uniform(-4, -2))
    k = rng.randrange(len(ang))
    ang = np.sort(np.concatenate([ang, [ang[k] + gap]]))
    n = len(ang)
    poly = np.stack([np.cos(ang), np.sin(ang)], axis=1)
    h = rng.choice([0.5, 1.0, 2.0])
    v = np.array([[x, y, z] for z in (0.0, h) for x, y in poly])
    a = rng.randrange(n)  # apex of the two cap fans
    tris = [[a, (a + j + 1) % n, (a + j) % n] for j in range(1, n - 1)] + [[n + a, n + (a + j) % n, n + (a + j + 1) % n] for j in range(1, n - 1)]
    for j in range(n):
        j2 = (j + 1) % n
        tris += [[j, j2, n + j2], [j, n + j2, n + j]]
    return v[np.array(tris)]


def facet_aspect(f):
    """longest edge over smallest height of a facet (needles and slivers alike); inf for zero area"""
    e = [np.linalg.norm(f[k] - f[(k + 1) % 3]) for k in range(3)]
    ar = np.linalg.norm(np.cross(f[1] - f[0], f[2] - f[0]))
    with np.errstate(all="ignore"):
        return float(max(e) ** 2 / ar) if ar > 0 else float("inf")


def random_rotation(nps):
    q = nps.normal(size=4)
    q /= np.linalg.norm(q)
    w, x, y, z = q
    return np.array([[1 - 2 * (y * y + z * z), 2 * (x * y - z * w), 2 * (x * z + y * w)],
                     [2 * (x * y + z * w), 1 - 2 * (x * x + z * z), 2 * (y * z - x * w)],
                     [2 * (x * z - y * w), 2 * (y * z + x * w), 1 - 2 * (x * x + y * y)]])


def gen_inside_mesh(rng, nps):
    """one closed body (faces array (m,3,3)) at a length scale 1e-9 .. 1e6, axis-aligned or rotated, shifted; `degen` bodies carry
    extra zero-area faces (two equal corners / three collinear corners: zero normal, NaN projections), `point` bodies have all
    corners at one position (mesh size 0: the branch without division), `slab` bodies are boxes 10^-7.5..10^-3.5 thin, `prism`
    bodies are prisms with two base corners 10^-4..10^-2 apart (sliver walls, needle cap facets)"""
    kind = rng.choice(["box", "box", "slab", "tetra", "tetra", "hull", "hull", "hull", "lbody", "lbody", "degen", "point", "prism", "prism"])
    if kind == "point" and rng.random() < 0.7:
        kind = "box"
    if kind == "box":
        faces = box([rng.choice([0.5, 1.0, 1.5, 2.0, 3.0]) for _ in range(3)])
    elif kind == "slab":  # thickness around the 1e-5 displacement of is_facet_inwards' check point and the 1e-7 touch tolerance
        d = [1.0, rng.choice([0.5, 1.0, 2.0]), 10.0 ** float(nps.uniform(-7.5, -3.5))]
        rng.shuffle(d)
        faces = box(d)
    elif kind == "tetra":
        faces = nps.uniform(-1, 1, (4, 3))[TETRA4] if rng.random() < 0.7 else tetra(1.0)
    elif kind == "hull":
        faces = hull_body(nps, rng.choice([5, 6, 8, 12]))
    elif kind == "lbody":
        faces = l_body()
    elif kind == "prism":
        faces = needle_prism(rng, nps)
    elif kind == "degen":
        faces = box([1.0, 1.5, 2.0]) if rng.random() < 0.5 else tetra(1.0)
        extra = []
        for _ in range(rng.choice([1, 2, 2, 3])):
            f = faces[rng.randrange(len(faces))]
            if rng.random() < 0.5:
                extra.append([f[0], f[0], f[1]])  # two equal corners
            else:
                extra.append([f[0], 0.5 * (f[0] + f[1]), f[1]])  # collinear corners
        faces = np.concatenate([faces, np.array(extra)])
    else:
        faces = np.tile(nps.uniform(-1, 1, 3), (4, 3, 1))
    rotated = kind in ("box", "lbody", "prism") and rng.random() < 0.4
    if rotated:
        faces = faces @ random_rotation(nps).T
    sc = 10.0 ** rng.choice([-9, -6, -3, -1, 0, 0, 1, 3, 6]) * (1.0 if rng.random() < 0.5 else float(nps.uniform(0.3, 3.0)))
    shift = rng.choice([0.0, 0.0, 1.0, 2.5, -7.0]) * np.array([rng.choice([0, 1, -1]) for _ in range(3)], float)
    faces = (np.asarray(faces, float) + shift) * sc
    if rng.random() < 0.3:  # face order and winding are irrelevant for the ray test: shuffle them
        faces = faces[nps.permutation(len(faces))]
        flip = nps.random(len(faces)) < 0.5
        faces[flip] = faces[flip][:, [0, 2, 1]]
    return kind + ("-rot" if rotated else ""), np.ascontiguousarray(faces), sc


def gen_inside_observers(rng, nps, faces, k):
    """k observers for one body, stratified; returns list of (category, point)"""
    verts = faces.reshape(-1, 3)
    lo, hi = verts.min(axis=0), verts.max(axis=0)
    size = float((hi - lo).max())
    cen = verts.mean(axis=0)
    out = []

    def face_point(kind):
        f = faces[rng.randrange(len(faces))]
        if kind == "vertex":
            return f[rng.randrange(3)].copy(), f
        if kind == "edge":
            i = rng.randrange(3)
            t = rng.choice([0.5, 0.25, float(nps.uniform(0, 1))])
            return f[i] + t * (f[(i + 1) % 3] - f[i]), f
        w = nps.dirichlet([1, 1, 1]) if rng.random() < 0.6 else np.array(rng.choice([[0.5, 0.25, 0.25], [0.25, 0.25, 0.5], [1 / 3, 1 / 3, 1 / 3]]))
        return w @ f, f

    for _ in range(k):
        c = rng.choice(["inside", "outside", "bbox", "face", "edge", "vertex", "nearvertex", "lattice", "offsurf", "offsurf", "centre", "touchband", "touchband"])
        if c == "inside":  # convex combination of a face point and the vertex mean (inside for the convex bodies)
            p, _ = face_point("face")
            p = cen + nps.uniform(0, 0.98) * (p - cen)
        elif c == "outside":
            d = nps.normal(size=3)
            p = cen + d / np.linalg.norm(d) * size * 10 ** nps.uniform(0.3, 3)
        elif c == "bbox":
            p = lo + nps.uniform(-0.02, 1.02, 3) * (hi - lo)
        elif c in ("face", "edge", "vertex"):
            p, _ = face_point(c)
        elif c == "nearvertex":  # around the 1e-8 distance (norm square 1e-16) at which the reference point is switched
            p, _ = face_point("vertex")
            d = nps.normal(size=3)
            p = p + d / np.linalg.norm(d) * size * 10 ** nps.uniform(-9.5, -6.5)
        elif c == "lattice":  # regular lattice aligned with the bounding box (box faces, L-body planes)
            p = lo + np.array([rng.randrange(-1, 6) for _ in range(3)]) / 4.0 * (hi - lo)
        elif c == "touchband":
            # around the touch tolerance of lines_end_in_trimesh: 10^-8 .. 10^-6 sizes off a facet, foot point at a distance of
            # 0.02 .. 1 facet sizes from the facet's reference corner (the criterion is the cosine of the angle seen from that corner,
            # so the band's width in length units depends on where over the facet the point sits)
            f = faces[rng.randrange(len(faces))]
            nrm = np.cross(f[1] - f[0], f[2] - f[0])
            nn = np.linalg.norm(nrm)
            w = nps.dirichlet([1, 1, 1])
            t = 10 ** nps.uniform(-1.7, 0)
            p = f[2] + t * (w @ f - f[2])
            if nn > 0:
                p = p + rng.choice([-1, 1]) * 10 ** nps.uniform(-8, -6) * size * nrm / nn
        elif c == "offsurf":
            p, f = face_point(rng.choice(["face", "face", "edge", "vertex"]))
            nrm = np.cross(f[1] - f[0], f[2] - f[0])
            nn = np.linalg.norm(nrm)
            if nn > 0:
                mag = rng.choice([1e-12, 1e-12, 1e-7, 1e-8, 1e-6, 10 ** nps.uniform(-14, -4)])
                p = p + rng.choice([-1, 1]) * mag * size * nrm / nn
        else:
            p = cen.copy()
        out.append((c, np.asarray(p, float)))
    return out


def inside_margins(x, faces):
    """relative distance of every decisive quantity of mask_inside_trimesh from its threshold, for one observer: the smallest
    one tells whether a Boolean disagreement sits on a knife edge (then only a different summation order could explain it)"""
    verts = faces.reshape(-1, 3)
    lo, hi = verts.min(axis=0), verts.max(axis=0)
    size = float((hi - lo).max())
    eps = 1e-12 * size
    m = [abs(x - (hi + eps)) / max(size, 1e-300), abs(x - (lo - eps)) / max(size, 1e-300)]
    if size > 0:
        start = (lo - size * np.array([12.0012345, 5.9923456, 6.9932109])) / size
        f = faces / size
        l1 = x / size
        ref = np.where((np.sum((l1 - f[:, 2]) ** 2, axis=1) < 1e-16)[:, None], f[:, 1], f[:, 2])
        nrm = np.cross(f[:, 0] - f[:, 2], f[:, 1] - f[:, 2])
        with np.errstate(all="ignore"):
            for l in (start, l1):
                a = l - ref
                terms = np.abs(a * nrm).sum(axis=1)
                m.append(np.abs((a * nrm).sum(axis=1)) / np.maximum(terms, 1e-300))  # sign of proj
            proj1 = (l1 - ref) * nrm
            proj1 = proj1.sum(axis=1) / np.sqrt(np.sum((l1 - ref) ** 2, axis=1) * np.sum(nrm**2, axis=1))
            m.append(np.abs(np.abs(proj1) - 1e-7) / 1e-7)
            m.append(np.abs(np.sum((l1 - f[:, 2]) ** 2, axis=1) - 1e-16) / 1e-16)
            d = l1 - start
            for i, j in ((0, 1), (1, 2), (2, 0)):
                cr = np.cross(f[:, i] - start, f[:, j] - start)
                ar = (cr * d).sum(axis=1)
                m.append(np.abs(ar) / np.maximum(np.abs(cr * d).sum(axis=1), 1e-300))  # sign of the area
                m.append(np.abs(np.abs(ar) - 1e-12) / 1e-12)
    return float(np.nanmin(np.concatenate([np.ravel(v) for v in m])))


def run_inside_stream(ctx, n_cases):
    """`mask_inside_trimesh(points[None], faces)` (bounding-box pre-filter, start point outside, division by the mesh size,
    plane-crossing / touch / pass-through tests, parity) against Model/TrimeshInside.lean evaluated in IEEE double by the driver:
    boxes, tetrahedra, convex hulls, an L-shaped body, bodies with extra zero-area faces, bodies collapsed to a point; axis-aligned
    and rotated, at sizes 1e-9..1e6; observers inside / far outside / in the bounding box / on faces, edges, vertices / on a lattice
    aligned with the bounding box / 1e-14..1e-4 sizes off the surface.  Exact Boolean comparison, NO exclusions: the functions
    contain no reduction whose order numpy is free to choose (min/max are order-independent, `v_norm2` etc. add three terms
    explicitly).  Also compared exactly: `mask_inside_enclosing_box`; `lines_end_in_trimesh` for lines between observers and for
    lines laid through an edge point / a corner of the body (pass-through-boundary test); the start point and the test line the real
    `mask_inside_trimesh` hands to `lines_end_in_trimesh` (recorded by wrapping that function; bit patterns); `is_facet_inwards`
    for two facets per body in either winding (there `np.linalg.norm` / `mean` may round differently: a disagreement is excluded iff a decisive
    quantity lies within 1e-13 relative of its threshold — counted); and the real function on all observers of a body at once
    against its one-observer values (the model is a map over observers)."""
    import magpylib._src.fields.field_BH_triangularmesh as mod

    from corr.kern_family import enc

    rng = ctx.rng
    per_mesh = 12
    lines, expect = [], []
    stats = {"rows": 0, "meshes": 0, "kinds": {}, "categories": {}, "inside_true": 0, "box_true": 0, "lines_rows": 0, "lines_true": 0,
             "inwards_rows": 0, "inwards_true": 0, "inwards_needle_rows": 0, "inwards_needle_kinds": {}, "inwards_needle_aspect": {},
             "inwards_needle_rotation_dependent": 0, "start_rows": 0, "scales": {}, "disagreements": 0, "knife_edge_excluded": 0,
             "batch_vs_single_disagreements": 0}
    recorded = []
    real_lines_end = mod.lines_end_in_trimesh

    def recorder(lns, fcs):
        recorded.append(np.array(lns, dtype=float, copy=True))
        return real_lines_end(lns, fcs)

    # fixed first body: the unit tetrahedron of Lemmas/TrimeshInside.lean (`unitTetra`) with the three observers evaluated there
    # in exact arithmetic (theorems unitTetra_quarter_inside, unitTetra_outside_in_box, unitTetra_edge_ray_outside — the last one is
    # the witness of Props/C02 `trimesh_ray_test_misses_interior_point`: strictly inside, yet the real code answers "outside")
    ut = np.array([[[0, 0, 0], [0, 1, 0], [1, 0, 0]], [[0, 0, 0], [1, 0, 0], [0, 0, 1]], [[1, 0, 0], [0, 1, 0], [0, 0, 1]], [[0, 0, 0], [0, 0, 1], [0, 1, 0]]], float)
    ut_obs = [("inside", np.array([0.25, 0.25, 0.25])), ("bbox", np.array([0.6, 0.6, 0.6])), ("edge-ray", np.array([0.120012345, 0.059923456, 0.574932109]))]
    ut_obs += [("lattice", np.array([i, j, k]) / 4.0) for i in (0, 1, 2) for j in (0, 1, 2) for k in (1, 3, 4)][: per_mesh - 3]
    with np.errstate(all="ignore"):
        stats["exact_evaluations_reproduce"] = [bool(mod.mask_inside_trimesh(p[None].copy(), ut.copy())[0]) for _, p in ut_obs[:3]] == [True, False, False]
    first = True
    while stats["rows"] < n_cases:
        nps = np.random.default_rng(rng.randrange(2**31))
        kind, faces, sc = gen_inside_mesh(rng, nps)
        obs = gen_inside_observers(rng, nps, faces, per_mesh)
        if first:
            kind, faces, sc, obs, first = "unit-tetra", ut, 1.0, ut_obs, False
        fenc = f"{len(faces)} {enc(faces)}"
        stats["meshes"] += 1
        stats["kinds"][kind] = stats["kinds"].get(kind, 0) + 1
        dec = f"1e{int(np.floor(np.log10(sc) + 0.5)):+d}"
        stats["scales"][dec] = stats["scales"].get(dec, 0) + 1
        singles = []
        with np.errstate(all="ignore"):
            for cat, p in obs:
                real = bool(mod.mask_inside_trimesh(p[None].copy(), faces.copy())[0])
                realbox = bool(mod.mask_inside_enclosing_box(p[None].copy(), faces.reshape(-1, 3).copy())[0])
                singles.append(real)
                lines.append(f"trimesh inside {fenc} {enc(p)}")
                expect.append(("inside", real, kind, cat, faces, p))
                lines.append(f"trimesh box {fenc} {enc(p)}")
                expect.append(("box", realbox, kind, cat, faces, p))
                stats["rows"] += 1
                stats["categories"][cat] = stats["categories"].get(cat, 0) + 1
                stats["inside_true"] += real
                stats["box_true"] += realbox
            allp = np.array([p for _, p in obs])
            # the batch call, with the real lines_end_in_trimesh wrapped so that the test lines it receives are seen
            del recorded[:]
            mod.lines_end_in_trimesh = recorder
            try:
                batch = [bool(b) for b in mod.mask_inside_trimesh(allp.copy(), faces.copy())]
            finally:
                mod.lines_end_in_trimesh = real_lines_end
        if batch != singles:
            stats["batch_vs_single_disagreements"] += 1
            if stats["batch_vs_single_disagreements"] <= 2:
                ctx.broken.append({"kind": "correspondence", "name": "trimesh-inside", "detail": {"what": "real mask_inside_trimesh on a batch differs from one observer at a time",
                                   "kind": kind, "faces": faces.tolist(), "points": allp.tolist(), "batch": batch, "single": singles}})
        if len(recorded) == 1 and len(recorded[0]) > 0:
            tl = recorded[0]
            lines.append(f"trimesh start {fenc}")
            expect.append(("start", enc(tl[0, 0]), kind, "start", faces, tl[0, 0]))
            stats["start_rows"] += 1
            inbox = [p for (_, p), b in zip(obs, [bool(b) for b in mod.mask_inside_enclosing_box(allp, faces.reshape(-1, 3))]) if b]
            if len(inbox) != len(tl) or any(enc(a) != enc(b) for a, b in zip(inbox, tl[:, 1])) or any(enc(r) != enc(tl[0, 0]) for r in tl[:, 0]):
                stats["disagreements"] += 1
                ctx.broken.append({"kind": "correspondence", "name": "trimesh-inside", "detail": {"what": "test lines handed to lines_end_in_trimesh are not (start, point in box)", "kind": kind}})
        # lines_end_in_trimesh directly: between two observers; through an edge point; through a corner
        verts = faces.reshape(-1, 3)
        f = faces[rng.randrange(len(faces))]
        pe = f[0] + rng.choice([0.5, 0.25, float(nps.uniform(0, 1))]) * (f[1] - f[0])
        pv = f[2]
        size = float(np.ptp(verts, axis=0).max())
        far = verts.mean(axis=0) + nps.normal(size=3) * (3 * size + (size == 0))
        for l0, l1 in ((obs[0][1], obs[1][1]), (pe + (pe - far), far), (far, pe + (pe - far)), (pv + 2 * (pv - far), far), (far, obs[2][1])):
            ln = np.array([[l0, l1]])
            with np.errstate(all="ignore"):
                rl = bool(mod.lines_end_in_trimesh(ln.copy(), faces.copy())[0])
            lines.append(f"trimesh lines {fenc} {enc(l0)} {enc(l1)}")
            expect.append(("lines", rl, kind, "line", faces, l1))
            stats["lines_rows"] += 1
            stats["lines_true"] += rl
        # is_facet_inwards for two facets, each in the given or the opposite winding (slabs: the large facets, whose check point
        # lands inside, beyond the other side, or within the touch tolerance of it, depending on the thickness)
        areas = np.linalg.norm(np.cross(faces[:, 1] - faces[:, 0], faces[:, 2] - faces[:, 0]), axis=1)
        cand = [i for i in range(len(faces)) if areas[i] >= 0.5 * areas.max()] if kind == "slab" else list(range(len(faces)))
        picks = [faces[rng.choice(cand)].copy() for _ in range(2)]
        if kind == "slab" and len(cand) < len(faces):
            # a SLIVER side facet of the slab, its corners rotated so that the short edge comes first (the edge the
            # displacement of the check point was measured by before repo fix ed093b8)
            sl = faces[rng.choice([i for i in range(len(faces)) if i not in cand])].copy()
            k0 = int(np.argmin([np.linalg.norm(sl[k] - sl[(k + 1) % 3]) for k in range(3)]))
            picks.append(sl[[k0, (k0 + 1) % 3, (k0 + 2) % 3]])
            stats["inwards_sliver_rows"] = stats.get("inwards_sliver_rows", 0) + 1
        # the NEEDLE / SLIVER facet of the body, whatever its kind: the facet of positive area with the largest aspect ratio (longest
        # edge over smallest height), its corners rotated so that each of its three edges comes first once — the displacement of the
        # check point must not depend on which edge that is (before repo fix ed093b8 it was measured by the first edge alone)
        asp = [facet_aspect(f) for f in faces]
        fin = [i for i in range(len(faces)) if np.isfinite(asp[i])]
        n_regular = len(picks)
        if fin:
            i0 = max(fin, key=lambda i: asp[i])
            for k0 in range(3):
                picks.append(faces[i0][[k0, (k0 + 1) % 3, (k0 + 2) % 3]].copy())
            dec = "inf" if not np.isfinite(asp[i0]) else f"1e{int(np.floor(np.log10(max(asp[i0], 1.0)))):+d}"
            stats["inwards_needle_rows"] += 3
            stats["inwards_needle_kinds"][kind] = stats["inwards_needle_kinds"].get(kind, 0) + 3
            stats["inwards_needle_aspect"][dec] = stats["inwards_needle_aspect"].get(dec, 0) + 3
        needle_verdicts = []
        for ip, f in enumerate(picks):
            if ip >= n_regular:
                # the three rotations of the needle facet share one winding (so that their verdicts can be compared)
                if ip == n_regular:
                    needle_flip = rng.random() < 0.5
                if needle_flip:
                    f = f[[0, 2, 1]]
            elif rng.random() < 0.5:
                f = f[[0, 2, 1]]
            with np.errstate(all="ignore"):
                ri = bool(mod.is_facet_inwards(f.copy(), faces.copy()))
                o = np.cross(f[0] - f[1], f[1] - f[2])
                chk = f.mean(axis=0) + o / np.linalg.norm(o) * 1e-5 * max(np.linalg.norm(f[0] - f[1]), np.linalg.norm(f[1] - f[2]), np.linalg.norm(f[2] - f[0]))
            lines.append(f"trimesh inwards {enc(f)} {fenc}")
            expect.append(("inwards", ri, kind, "facet", faces, chk))
            stats["inwards_rows"] += 1
            stats["inwards_true"] += ri
            if ip >= n_regular:
                needle_verdicts.append(ri)
        if len(set(needle_verdicts)) > 1:
            # real code only: the verdict of one facet changed with the edge it is listed from (what ed093b8 repaired; can still
            # happen when the check point sits on a knife edge of the ray test: counted, not a disagreement of the model)
            stats["inwards_needle_rotation_dependent"] += 1
    out = run_driver(lines)
    samples = []
    for o, (what, real, kind, cat, faces, p) in zip(out, expect):
        want = real if what == "start" else ("true" if real else "false")
        if o.strip() == want:
            if what == "inside" and len(samples) < 2 and real:
                samples.append({"kind": kind, "category": cat, "point": p.tolist(), "inside": real})
            continue
        margin = None
        if what == "inwards":
            with np.errstate(all="ignore"):
                margin = inside_margins(p, faces)
            if not margin >= 1e-13:
                stats["knife_edge_excluded"] += 1
                continue
        stats["disagreements"] += 1
        if stats["disagreements"] <= 3:
            ctx.broken.append({"kind": "correspondence", "name": "trimesh-inside", "detail": {"function": what, "kind": kind, "category": cat, "model": o, "real": want,
                               "min_relative_margin": margin, "faces": faces.tolist(), "point": p.tolist()}})
    stats["samples"] = samples
    return stats
