"""correspondence stream `iface` (C07, also C04/C06): the input formatting in front of getBH_level2 and the method
wrappers — magpylib.getB/getH(sources, observers, …), src.getB(*obs), sens.getB(*srcs), coll.getB(*inputs), and the
formatting functions themselves (format_src_inputs, check_format_input_observers, check_duplicates) — against
Model/Iface.lean.  Worlds: 0–3 CustomSources with integer affine field functions (as in the `level2` stream), 0–3
sensors (pixel None / (3,) / (2,3) / (2,2,3) / …), 0–3 collections nested at random over them; inputs are random
nestings of objects, position arrays (list / tuple / ndarray) and junk, well-formed and malformed.  Compared: the
error kind, or shape + exact integer data."""
import contextlib
import io

import numpy as np

from corr.level2_family import ID, gen_path, enc_path, rvec
from vlib.driver import run_driver
from vlib.octa import OCTA, fmt_mat, fmt_vec, rot_from

PIXELS = [None, (), (2,), (2, 2), (1,), (3,), (1, 2)]


class Junk:
    """an object of a foreign type"""


def gen_sensor(rng):
    s = gen_path(rng)
    sh = rng.choice(PIXELS[:4] * 3 + PIXELS[4:])
    if sh is None:
        s["pixel"], s["shape"] = None, [1]
    else:
        n = int(np.prod(sh)) if sh else 1
        s["pixel"] = np.array([rvec(rng) for _ in range(n)]).reshape(tuple(sh) + (3,)).tolist()
        s["shape"] = list(sh) if sh else [1]
    s["left"] = rng.random() < 0.3
    return s


def gen_world(rng):
    nf = rng.choice([1, 2, 3])
    fs = [{"A": [[rng.randint(-2, 2) for _ in range(3)] for _ in range(3)], "b": rvec(rng)} for _ in range(nf)]
    objs = []
    leaves = ["S"] * rng.choice([0, 1, 1, 2, 2, 3]) + ["K"] * rng.choice([0, 1, 1, 2, 2, 3, 4])
    rng.shuffle(leaves)
    for t in leaves:
        if t == "S":
            objs.append({"t": "S", "key": rng.randrange(nf), **gen_path(rng)})
        else:
            objs.append({"t": "K", **gen_sensor(rng)})
    if rng.random() < 0.65:  # same pixel shape for all sensors
        ks = [o for o in objs if o["t"] == "K"]
        for o in ks[1:]:
            o["pixel"], o["shape"] = ks[0]["pixel"], ks[0]["shape"]
    free = list(range(len(objs)))
    for _ in range(rng.choice([0, 1, 1, 2, 2, 3])):
        k = min(len(free), rng.choice([0, 1, 2, 2, 3]))
        ch = rng.sample(free, k)
        for c in ch:
            free.remove(c)
        objs.append({"t": "C", "children": ch})
        free.append(len(objs) - 1)
    return {"fs": fs, "objs": objs}


def all_of(w, i, t):
    """ids of type `t` below object `i`, depth first"""
    o = w["objs"][i]
    if o["t"] == "C":
        return [j for c in o["children"] for j in all_of(w, c, t)]
    return [i] if o["t"] == t else []


def ids_of(w, t):
    return [i for i, o in enumerate(w["objs"]) if o["t"] == t]


def gen_pos(rng, shape=None):
    if shape is None:
        shape = rng.choice([(), (), (2,), (2,), (3,), (1,), (2, 2), (2, 2), (1, 2), (2, 3)])
    n = int(np.prod(shape)) if shape else 1
    return {"k": "P", "shape": list(shape), "data": [rvec(rng) for _ in range(n)],
            "as": rng.choice(["list", "tuple", "ndarray"])}


def gen_obs_item(rng, w, bad=0.04):
    r = rng.random()
    K, C, S = ids_of(w, "K"), ids_of(w, "C"), ids_of(w, "S")
    if r < bad:
        return rng.choice([{"k": "J"}, {"k": "L", "items": [], "as": "list"}, {"k": "P", "shape": [0], "data": [], "as": "ndarray"},
                           {"k": "P", "shape": [2, 0], "data": [], "as": "ndarray"}] + ([{"k": "O", "id": rng.choice(S)}] if S else []))
    if r < bad + 0.03:  # nested list
        return {"k": "L", "items": [gen_obs_item(rng, w) for _ in range(rng.choice([1, 2]))], "as": rng.choice(["list", "tuple"])}
    if K and r < 0.45:
        return {"k": "O", "id": rng.choice(K)}
    Cg = [i for i in C if all_of(w, i, "K")] if rng.random() < 0.85 else C  # mostly collections that hold sensors
    if Cg and r < 0.65:
        return {"k": "O", "id": rng.choice(Cg)}
    if K and rng.random() < 0.6:  # positions of the same shape as a sensor's pixel
        sh = w["objs"][rng.choice(K)]["shape"]
        return gen_pos(rng, () if sh == [1] and rng.random() < 0.5 else tuple(sh))
    return gen_pos(rng)


def gen_obs(rng, w):
    r = rng.random()
    if r < 0.45:
        return gen_obs_item(rng, w)
    n = rng.choice([0, 1, 1, 2, 2, 2, 3]) if r < 0.5 else rng.choice([1, 2, 2, 3])
    items = [gen_obs_item(rng, w) for _ in range(n)]
    if items and rng.random() < 0.25:  # several position arrays of one shape: one numeric array for numpy
        sh = rng.choice([(), (2,), (2, 2)])
        items = [gen_pos(rng, sh) for _ in items]
    return {"k": "L", "items": items, "as": rng.choice(["list", "tuple"])}


def gen_src_item(rng, w, bad=0.04):
    r = rng.random()
    K, C, S = ids_of(w, "K"), ids_of(w, "C"), ids_of(w, "S")
    if r < bad:
        return rng.choice([{"k": "J"}, {"k": "L", "items": [], "as": "list"}, gen_pos(rng)] + ([{"k": "O", "id": rng.choice(K)}] if K else []))
    if r < bad + 0.03:
        return {"k": "L", "items": [gen_src_item(rng, w) for _ in range(rng.choice([1, 2]))], "as": rng.choice(["list", "tuple"])}
    Cg = [i for i in C if all_of(w, i, "S")] if rng.random() < 0.85 else C  # mostly collections that hold sources
    if Cg and r < 0.4:
        return {"k": "O", "id": rng.choice(Cg)}
    if S:
        return {"k": "O", "id": rng.choice(S)}
    if C:
        return {"k": "O", "id": rng.choice(C)}
    return {"k": "J"}


def gen_src(rng, w):
    r = rng.random()
    if r < 0.4:
        return gen_src_item(rng, w)
    n = rng.choice([0, 1, 2, 3]) if r < 0.45 else rng.choice([1, 2, 2, 3])
    return {"k": "L", "items": [gen_src_item(rng, w) for _ in range(n)], "as": rng.choice(["list", "tuple"])}


def gen_flags(rng):
    agg = rng.choice(["none"] * 5 + ["sum", "min", "max", "min", "max"] + (["bad"] if rng.random() < 0.3 else ["sum"]))
    return {"sumup": rng.random() < 0.3, "squeeze": rng.random() < 0.5, "agg": agg, "outok": rng.random() > 0.04,
            "field": rng.choice(["B", "H"])}


def gen_case(rng):
    w = gen_world(rng)
    S, K, C = ids_of(w, "S"), ids_of(w, "K"), ids_of(w, "C")
    forms = ["top"] * 3 + (["src"] * 2 if S else []) + (["sens"] * 2 if K else []) + (["coll"] * 3 if C else []) + ["fmtsrc", "fmtobs"]
    form = rng.choice(forms)
    c = {"form": form, "world": w, **gen_flags(rng)}
    if form == "top":
        c["src"], c["obs"] = gen_src(rng, w), gen_obs(rng, w)
    elif form == "src":
        c["self"] = rng.choice(S)
        c["inputs"] = [gen_obs_item(rng, w) for _ in range(rng.choice([0, 1, 1, 1, 2, 2, 3]))]
        if rng.random() < 0.3 and c["inputs"]:  # one list argument
            c["inputs"] = [{"k": "L", "items": c["inputs"], "as": "list"}]
    elif form == "sens":
        c["self"] = rng.choice(K)
        c["inputs"] = [gen_src_item(rng, w) for _ in range(rng.choice([0, 1, 1, 1, 2, 2, 3]))]
        if rng.random() < 0.3 and c["inputs"]:
            c["inputs"] = [{"k": "L", "items": c["inputs"], "as": "list"}]
    elif form == "coll":
        c["self"] = rng.choice(C)
        n = rng.choice([0, 0, 1, 1, 1, 2, 2, 3])
        has_s, has_k = bool(all_of(w, c["self"], "S")), bool(all_of(w, c["self"], "K"))
        gen = gen_src_item if rng.random() < 0.5 else gen_obs_item
        if rng.random() < 0.8:  # inputs of the role the collection's content asks for
            gen = gen_src_item if not has_s else gen_obs_item
            if has_s and has_k:
                n = 0
            elif n == 0:
                n = 1
        c["inputs"] = [gen(rng, w) for _ in range(n)]
        if rng.random() < 0.25 and c["inputs"]:
            c["inputs"] = [{"k": "L", "items": c["inputs"], "as": "list"}]
    elif form == "fmtsrc":
        c["src"] = gen_src(rng, w)
    elif form == "fmtobs":
        c["obs"] = gen_obs(rng, w)
        if c["agg"] == "bad":
            c["agg"] = "none"
    return c


# ---------------------------------------------------------------- model lines
def enc_inp(x):
    if x["k"] == "J":
        return "J"
    if x["k"] == "O":
        return f"O {x['id']}"
    if x["k"] == "P":
        sh = x["shape"]
        return f"P {len(sh)} {' '.join(map(str, sh))} {len(x['data'])} " + " ".join(fmt_vec(v) for v in x["data"])
    return f"L {len(x['items'])} " + " ".join(enc_inp(i) for i in x["items"])


def flat_pixels(s):
    if s["pixel"] is None:
        return [[0, 0, 0]]
    return np.array(s["pixel"]).reshape(-1, 3).tolist()


def enc_world(w):
    fs = " ".join(fmt_mat(f["A"]) + " " + fmt_vec(f["b"]) for f in w["fs"])
    out = []
    for o in w["objs"]:
        if o["t"] == "S":
            out.append(f"S {o['key']} {enc_path(o)}")
        elif o["t"] == "K":
            px = flat_pixels(o)
            out.append(f"K {enc_path(o)} {int(o['left'])} {len(o['shape'])} {' '.join(map(str, o['shape']))} "
                       f"{len(px)} {' '.join(fmt_vec(v) for v in px)}")
        else:
            out.append(f"C {len(o['children'])} " + " ".join(map(str, o["children"])))
    return f"F {len(w['fs'])} {fs} W {len(w['objs'])} " + " ".join(out)


def model_line(c):
    w = enc_world(c["world"])
    f = c["form"]
    if f == "top":
        return f"iface top {int(c['sumup'])} {int(c['squeeze'])} {c['agg']} {int(c['outok'])} {w} {enc_inp(c['src'])} {enc_inp(c['obs'])}"
    if f == "src":
        return f"iface src {c['self']} {int(c['squeeze'])} {c['agg']} {int(c['outok'])} {w} {len(c['inputs'])} " + " ".join(map(enc_inp, c["inputs"]))
    if f == "sens":
        return (f"iface sens {c['self']} {int(c['sumup'])} {int(c['squeeze'])} {c['agg']} {int(c['outok'])} {w} {len(c['inputs'])} "
                + " ".join(map(enc_inp, c["inputs"])))
    if f == "coll":
        return f"iface coll {c['self']} {int(c['squeeze'])} {c['agg']} {int(c['outok'])} {w} {len(c['inputs'])} " + " ".join(map(enc_inp, c["inputs"]))
    if f == "fmtsrc":
        return f"iface fmtsrc {w} {enc_inp(c['src'])}"
    if f == "fmtobs":
        return f"iface fmtobs {c['agg']} {w} {enc_inp(c['obs'])}"
    raise ValueError(f)


# ---------------------------------------------------------------- real code
def build_world(w):
    import magpylib as magpy

    funcs = []
    for f in w["fs"]:
        A, b = np.array(f["A"], float), np.array(f["b"], float)

        def ff(field, observers, A=A, b=b):
            return observers @ A.T + b

        funcs.append(ff)
    objs = []
    for o in w["objs"]:
        if o["t"] == "S":
            objs.append(magpy.misc.CustomSource(field_func=funcs[o["key"]], position=o["pos"],
                                                orientation=rot_from([OCTA[i] for i in o["ori"]])))
        elif o["t"] == "K":
            objs.append(magpy.Sensor(position=o["pos"], orientation=rot_from([OCTA[i] for i in o["ori"]]), pixel=o["pixel"],
                                     handedness="left" if o["left"] else "right"))
        else:
            objs.append(magpy.Collection(*[objs[i] for i in o["children"]]))
    return objs


def build_inp(x, objs):
    if x["k"] == "J":
        return Junk()
    if x["k"] == "O":
        return objs[x["id"]]
    if x["k"] == "P":
        a = np.array(x["data"], dtype=float).reshape(tuple(x["shape"]) + (3,))
        if x["as"] == "ndarray":
            return a
        if x["as"] == "tuple":
            return tuple(a.tolist())
        return a.tolist()
    items = [build_inp(i, objs) for i in x["items"]]
    return tuple(items) if x["as"] == "tuple" else items


def canon_B(B):
    B = np.asarray(B)
    r = np.rint(B)
    if B.size and np.max(np.abs(B - r)) > 1e-6:
        return "UNSNAPPABLE"
    return "ok shape " + " ".join(map(str, B.shape)) + " | " + " ".join(fmt_vec(v) for v in r.reshape(-1, 3))


def real_line(c):
    import magpylib as magpy
    from magpylib._src.exceptions import MagpylibBadUserInput, MagpylibMissingInput
    from magpylib._src.input_checks import check_format_input_observers
    from magpylib._src.utility import format_src_inputs

    objs = build_world(c["world"])
    idmap = {id(o): i for i, o in enumerate(objs)}
    f = c["form"]
    kw = {"squeeze": c["squeeze"], "pixel_agg": {"none": None, "bad": "no_such_reduction"}.get(c["agg"], c["agg"]),
          "output": "ndarray" if c["outok"] else "table"}
    name = "get" + c["field"]
    prefix = ""
    try:
        if f == "top":
            return canon_B(getattr(magpy, name)(build_inp(c["src"], objs), build_inp(c["obs"], objs), sumup=c["sumup"], **kw))
        if f == "src":
            return canon_B(getattr(objs[c["self"]], name)(*[build_inp(i, objs) for i in c["inputs"]], **kw))
        if f == "sens":
            return canon_B(getattr(objs[c["self"]], name)(*[build_inp(i, objs) for i in c["inputs"]], sumup=c["sumup"], **kw))
        if f == "coll":
            col = objs[c["self"]]
            has_s, has_k = bool(col.sources_all), bool(col.sensors_all)
            prefix = ("both" if has_s and has_k else "noSources" if not has_s else "noSensors") + " "
            return prefix + canon_B(getattr(col, name)(*[build_inp(i, objs) for i in c["inputs"]], **kw))
        if f == "fmtsrc":
            sources, src_list = format_src_inputs(build_inp(c["src"], objs))
            return ("ok S " + " ".join(str(idmap[id(o)]) for o in sources) + " | L " + " ".join(str(idmap[id(o)]) for o in src_list)
                    + f" | {len(sources)} {len(src_list)}")
        if f == "fmtobs":
            sensors, shapes = check_format_input_observers(build_inp(c["obs"], objs), kw["pixel_agg"])
            return ("ok K " + " ".join(f"u{idmap[id(o)]}" if id(o) in idmap else "f" for o in sensors) + " | "
                    + " ; ".join(" ".join(map(str, sh[:-1])) for sh in shapes))
    except MagpylibBadUserInput:
        return prefix + "err BadUserInput"
    except MagpylibMissingInput:
        return prefix + "err MissingInput"
    except AttributeError:
        return prefix + "err AttributeError"
    except ValueError:
        return prefix + "err ValueError"
    except Exception as e:  # any other exception type is itself a disagreement with the model
        return prefix + f"EXC {type(e).__name__}: {str(e)[:120]}"
    raise ValueError(f)


def dups_case(rng):
    n = rng.choice([0, 1, 2, 3, 4, 5, 6])
    return [rng.randrange(4) for _ in range(n)]


def real_dups(ids):
    import magpylib as magpy
    from magpylib._src.utility import check_duplicates

    pool = [magpy.Sensor() if i % 2 else magpy.misc.CustomSource() for i in range(4)]
    buf = io.StringIO()
    with contextlib.redirect_stdout(buf):
        new = check_duplicates([pool[i] for i in ids])
    back = {id(o): i for i, o in enumerate(pool)}
    return "ok " + " ".join(str(back[id(o)]) for o in new) + f" | {int('Eliminating duplicates' in buf.getvalue())}"


def obs_kind(x):
    if x["k"] == "P":
        return "positions" + str(tuple(x["shape"]) + (3,)).replace(" ", "")
    if x["k"] == "O":
        return "object"
    if x["k"] == "J":
        return "junk"
    ks = {i["k"] for i in x["items"]}
    return "list[" + "+".join(sorted(ks)) + "]"


def run_stream(ctx, n_cases):
    stats = {"cases": 0, "forms": {}, "results": {}, "coll_branches": {}, "observer_inputs": {}, "pixel_agg": {}, "out_shapes": 0,
             "disagreements": 0, "distinct_outputs": 0, "duplicate_sources_listed": 0, "numeric_list_of_arrays": 0,
             "check_duplicates_rows": 0, "check_duplicates_warned": 0,
             # c03post: order-sensitive rows (see corr/level2_family.py): accepted calls with min / max whose world holds a rotated
             # or left-handed sensor with >= 2 distinct pixels; worlds with a multi-step path shorter than the longest one
             "nonlinear_agg_world_has_rotated_or_left_multipixel_sensor": 0, "ok_calls_world_has_short_multi_step_path": 0}
    cases = [gen_case(ctx.rng) for _ in range(n_cases)]
    ml = run_driver([model_line(c) for c in cases])
    seen, shapes, samples = set(), set(), []
    for c, m in zip(cases, ml):
        with contextlib.redirect_stdout(io.StringIO()):
            r = real_line(c)
        f = c["form"]
        stats["cases"] += 1
        stats["forms"][f] = stats["forms"].get(f, 0) + 1
        body = r.split(" ", 1)[1] if f == "coll" and " " in r else r
        key = f + ":" + ("ok" if body.startswith("ok") else " ".join(body.split(" ")[:2]))
        stats["results"][key] = stats["results"].get(key, 0) + 1
        if f == "coll":
            b = r.split(" ")[0]
            stats["coll_branches"][b] = stats["coll_branches"].get(b, 0) + 1
        if "obs" in c:
            k = obs_kind(c["obs"])
            stats["observer_inputs"][k] = stats["observer_inputs"].get(k, 0) + 1
            stats["numeric_list_of_arrays"] += c["obs"]["k"] == "L" and len(c["obs"]["items"]) > 1 and all(i["k"] == "P" for i in c["obs"]["items"]) and "ok" in r
        if "src" in c and c["src"]["k"] == "L":
            ids = [i["id"] for i in c["src"]["items"] if i["k"] == "O"]
            stats["duplicate_sources_listed"] += len(ids) != len(set(ids))
        stats["pixel_agg"][c["agg"]] = stats["pixel_agg"].get(c["agg"], 0) + 1
        if "ok shape" in r and "world" in c:
            objs = [o for o in c["world"]["objs"] if o["t"] in "SK"]
            ks = [o for o in objs if o["t"] == "K"]
            sens = any((o["left"] or any(q != ID for q in o["ori"])) and o["pixel"] is not None
                       and len({tuple(v) for v in np.array(o["pixel"]).reshape(-1, 3).tolist()}) >= 2 for o in ks)
            stats["nonlinear_agg_world_has_rotated_or_left_multipixel_sensor"] += c["agg"] in ("min", "max") and sens
            M = max((len(o["pos"]) for o in objs), default=1)
            stats["ok_calls_world_has_short_multi_step_path"] += any(
                2 <= len(o["pos"]) < M and any((o["pos"][m % len(o["pos"])], o["ori"][m % len(o["pos"])]) != (o["pos"][-1], o["ori"][-1])
                                               for m in range(len(o["pos"]), M)) for o in objs)
        if "ok shape" in r:
            shapes.add(r.split("|")[0])
        seen.add(r)
        if r != m:
            stats["disagreements"] += 1
            ctx.broken.append({"kind": "correspondence", "name": "iface", "detail": {"case": c, "line": model_line(c)[:1500], "model": m[:600], "real": r[:600]}})
            if stats["disagreements"] >= 3:
                break
        elif len(samples) < 2 and len(r) < 300:
            samples.append({"case": c, "output": r})
    # check_duplicates on real objects
    dl = [dups_case(ctx.rng) for _ in range(max(20, n_cases // 10))]
    dm = run_driver([f"iface dups {len(ids)} " + " ".join(map(str, ids)) for ids in dl])
    for ids, m in zip(dl, dm):
        r = real_dups(ids)
        stats["check_duplicates_rows"] += 1
        stats["check_duplicates_warned"] += r.endswith("| 1")
        if r != m:
            stats["disagreements"] += 1
            ctx.broken.append({"kind": "correspondence", "name": "iface", "detail": {"check_duplicates": ids, "model": m, "real": r}})
    stats["out_shapes"] = len(shapes)
    stats["distinct_outputs"] = len(seen)
    stats["samples"] = samples
    return stats
