"""correspondence stream `callargs` (C17): Model/CallArgs.lean against the real code — `check_format_pixel_agg` on every name of the
installed numpy and the later `axis=` use inside getBH_level2; `validate_field_func` and the `field_func` setter / constructor argument;
`TriangularMesh._validate_mode_arg` and what the check methods then do on an open mesh; the unvalidated `in_out` keyword on a Tetrahedron and
on the TriangularMesh of the same four points; `sumup` / `squeeze` by truth value; the `style` argument (setter, constructor, first access of
`.style`); `check_dimensions` / `check_excitations` (objects constructed without dimension / excitation, then getB).
Driver commands of the `valid` family; only kinds are compared (ok / the library's error / the foreign exception class), never messages."""
import os
import re
import warnings

import numpy as np

from vlib.core import LEAN
from vlib.driver import run_driver

from .valid_family import FL, I, L, NAN, STRINGS, anyval, enc, leaf, nums, show, to_py

FF_EXC = {"ValueError": ValueError, "RuntimeError": RuntimeError, "ZeroDivisionError": ZeroDivisionError, "KeyError": KeyError}


def np_table():
    """(name, kind, exc, axis-tuple, axis-int) rows of the regenerated Gen/NpNames.lean"""
    txt = open(os.path.join(LEAN, "MagpyVerif", "Gen", "NpNames.lean")).read()
    return [(m[1], m[2], m[3], m[4] == "true", m[5] == "true") for m in re.finditer(r'^  \("([^"]*)", "([^"]*)", "([^"]*)", (true|false), (true|false)\)', txt, re.M)]


# ---------------------------------------------------------------- field_func values
def ff_enc(t):
    if t[0] in ("N", "NC", "OP"):
        return t[0]
    out = lambda o: o if isinstance(o, str) else " ".join(["A", str(len(o))] + [str(x) for x in o])
    return " ".join(["F", str(len(t[1]))] + list(t[1]) + [out(t[2]), out(t[3])])


def ff_py(t, rng):
    if t[0] == "N":
        return None
    if t[0] == "NC":
        return rng.choice([5, "abc", [1, 2], 2.5, {"a": 1}])
    if t[0] == "OP":
        return rng.choice([dict, int, np.sum])
    args, outs = t[1], {"B": t[2], "H": t[3]}

    def impl(field):
        o = outs.get(field, "N")
        if o == "N":
            return None
        if o == "X":
            return rng.choice([[[1, 2, 3], [4, 5, 6]], 1.0, "x", (1, 2, 3)])
        if isinstance(o, str) and o.startswith("R:"):
            raise FF_EXC[o[2:]]("from the user's function")
        return np.zeros(tuple(o))
    params = ", ".join(a if i < 2 else f"{a}=None" for i, a in enumerate(args))
    ns = {"impl": impl}
    exec(f"def ff({params}):\n    return impl({args[0] if args else repr('B')})\n", ns)  # pylint: disable=exec-used
    return ns["ff"]


def ff_show(t):
    return {"N": "None", "NC": "<not callable>", "OP": "<callable without readable signature>"}.get(t[0]) or f"def ff({', '.join(t[1])}) -> B: {t[2]}, H: {t[3]}"


def ff_gen(rng):
    r = rng.random()
    if r < 0.08:
        return ("N",)
    if r < 0.16:
        return ("NC",)
    if r < 0.22:
        return ("OP",)
    args = rng.choice([["field", "observers"], ["field", "observers"], ["field", "observers", "extra"], ["observers", "field"], ["field"], [], ["f", "o"],
                       ["field", "obs"], ["Field", "observers"], ["self", "field", "observers"]])
    out = lambda: rng.choice(["N", [2, 3], [2, 3], [2, 3], [3, 2], [2], [2, 3, 1], [6], [], [1, 3], "X", "R:" + rng.choice(sorted(FF_EXC))])
    return ("F", args, out(), out())


# ---------------------------------------------------------------- style values
def style_enc(t):
    return {"N": "N", "X": "X"}.get(t[0]) or (f"D {t[1] or '-'}" if t[0] == "D" else f"SO {int(t[1])}")


DICT_DEFECTS = {None: [{"color": "red"}, {"label": "x"}, {}, {"opacity": 0.5}, {"label": 5}],
                "AttributeError": [{"colr": "red"}, {"label": "a", "bogus": 1}, {"arrows": {"x": {"colr": 1}}}],
                "AssertionError": [{"opacity": 5}, {"size": -1}, {"description": {"show": 3}}],
                "ValueError": [{"color": "notacolor"}, {"color": 5}]}


def style_py(t, rng, magpy):
    if t[0] == "N":
        return None
    if t[0] == "X":
        return rng.choice([5, 2.5, True])
    if t[0] == "D":
        return dict(rng.choice(DICT_DEFECTS[t[1]]))
    return magpy.Sensor().style if t[1] else rng.choice([magpy.magnet.Cuboid, magpy.misc.Dipole, magpy.current.Circle])().style


def style_gen(rng):
    return rng.choice([("N",), ("D", None), ("D", None), ("D", "AttributeError"), ("D", "AssertionError"), ("D", "ValueError"), ("SO", 1), ("SO", 0), ("X",)])


KW_DEFECTS = {None: [{"style_label": "x"}, {"style_pixel_size": 2}], "AttributeError": [{"style_colr": 1}],
              "AssertionError": [{"style_size": -1}], "ValueError": [{"style_color": "notacolor"}]}

# ---------------------------------------------------------------- source classes for check_dimensions / check_excitations
TET = [(0, 0, 0), (1, 0, 0), (0, 1, 0), (0, 0, 1)]
FACES = [(0, 2, 1), (0, 1, 3), (0, 3, 2), (1, 2, 3)]
SRC_KW = {"Cuboid": ({"dimension": (1, 2, 3)}, {"polarization": (1, 2, 3)}), "Cylinder": ({"dimension": (1, 2)}, {"polarization": (1, 2, 3)}),
          "CylinderSegment": ({"dimension": (1, 2, 1, 0, 90)}, {"magnetization": (1e5, 0, 0)}), "Sphere": ({"diameter": 1}, {"polarization": (1, 2, 3)}),
          "Tetrahedron": ({"vertices": TET}, {"polarization": (1, 2, 3)}), "Triangle": ({"vertices": TET[:3]}, {"magnetization": (1e5, 0, 0)}),
          "TriangularMesh": ({"vertices": TET, "faces": FACES}, {"polarization": (1, 2, 3)}), "Circle": ({"diameter": 1}, {"current": 1}),
          "Polyline": ({"vertices": TET[:2]}, {"current": 1}), "Dipole": ({}, {"moment": (1, 2, 3)}), "CustomSource": ({}, {})}


COLL_ATTRS = ("children", "sources", "sensors", "collections")
JUNK = ["one-junk-entry", "junk-last", "junk-first", "bare-int", "none", "string", "self", "ancestor", "duplicate", "nested-junk", "object", "dict",
        "steal-then-junk", "sub-then-self", "valid", "valid-empty", "valid-steal", "wrong-type-only", "bare-object", "bare-self", "wrapped-twice", "nested-valid",
        "current-children", "two-lists", "deep-junk", "tuple-of-one-list"]


def collset_world(magpy):
    """a populated forest: p ⊃ c ⊃ {s1, s2, x1, x2, sub ⊃ {s3, x3}}, another collection o ⊃ {s4, x4}, loose objects"""
    mk_s = lambda: magpy.magnet.Cuboid(dimension=(1, 1, 1), polarization=(0, 0, 1))
    w = {"s1": mk_s(), "s2": magpy.misc.Dipole(moment=(1, 2, 3)), "s3": mk_s(), "s4": mk_s(), "s5": mk_s(),
         "x1": magpy.Sensor(), "x2": magpy.Sensor(), "x3": magpy.Sensor(), "x4": magpy.Sensor(), "x5": magpy.Sensor()}
    w["sub"] = magpy.Collection(w["s3"], w["x3"])
    w["c"] = magpy.Collection(w["s1"], w["x1"], w["sub"], w["s2"], w["x2"])
    w["p"] = magpy.Collection(w["c"])
    w["o"] = magpy.Collection(w["s4"], w["x4"])
    w["k"] = magpy.Collection()
    return w


def collset_state(w):
    """children ids, typed views and parents of everything in the world"""
    st = {}
    for name, o in w.items():
        st[name] = (id(o._parent),)  # pylint: disable=protected-access
        if hasattr(o, "_children"):
            st[name] += tuple(tuple(id(x) for x in getattr(o, a_)) for a_ in ("_children", "_sources", "_sensors", "_collections"))
            st[name] += (tuple(id(x) for x in o.children_all),)
    return st


# names of the world's objects, their identity number in the model and their kind seen from the collection `c`
COLL_IDS = {"s5": (0, "s"), "x5": (1, "e"), "k": (2, "c"), "s4": (3, "s"), "x4": (4, "e"), "o": (5, "c"), "sub": (6, "c"), "c": (7, "A"), "p": (8, "A"),
            "s1": (9, "s"), "x1": (10, "e"), "s3": (11, "s")}


def O(name):
    return ("O", name)


def J():
    return ("J",)


def collset_tree(junk, attr):
    """the assigned value as a tree: ("O", object name) | ("J",) | ("L", [trees])"""
    good = {"children": [O("s5"), O("x5"), O("k")], "sources": [O("s5")], "sensors": [O("x5")], "collections": [O("k")]}[attr]
    Lt = lambda xs: ("L", list(xs))
    return {"one-junk-entry": Lt([J()]), "junk-last": Lt(good + [J()]), "junk-first": Lt([J()] + good), "bare-int": J(), "none": J(), "string": J(),
            "self": Lt(good + [O("c")]), "ancestor": Lt(good + [O("p")]), "duplicate": Lt(good + good[:1]), "nested-junk": Lt([Lt(good), Lt([good[0], J()])]), "object": J(),
            "dict": J(), "steal-then-junk": Lt([O("s4"), O("x4"), O("o"), J()]), "sub-then-self": Lt([O("sub"), O("c")]), "valid": Lt(good),
            "valid-empty": Lt([]), "valid-steal": Lt([O("s4"), O("x4")]) if attr == "children" else Lt(good),
            "wrong-type-only": Lt({"children": good, "sources": [O("x5")], "sensors": [O("s5")], "collections": [O("s5"), O("x5")]}[attr]),
            "bare-object": good[0], "bare-self": O("c"), "wrapped-twice": Lt([Lt(good)]), "nested-valid": Lt([Lt(good[:1]), Lt([O("o"), O("sub")])]),
            "current-children": Lt([O("sub"), O("s1"), O("x1")]), "two-lists": Lt([Lt(good), Lt([O("o")])]), "deep-junk": Lt([Lt([Lt([O("k"), J()])])]),
            "tuple-of-one-list": Lt([Lt([])])}[junk]


BARE_JUNK = {"bare-int": 5, "none": None, "string": "abc", "object": object(), "dict": {"a": 1}}


def coll_py(t, w, rng, bare=None):
    if t[0] == "O":
        return w[t[1]]
    if t[0] == "J":
        return bare if bare is not None else rng.choice([1, "abc", None, 2.5, object(), {"a": 1}, len])
    xs = [coll_py(x, w, rng) for x in t[1]]
    return tuple(xs) if rng.random() < 0.3 else xs


def coll_enc(t):
    if t[0] == "O":
        i, k = COLL_IDS[t[1]]
        return f"O {i} {k}"
    if t[0] == "J":
        return "J"
    return " ".join([f"L {len(t[1])}"] + [coll_enc(x) for x in t[1]])


def coll_show(t):
    return t[1] if t[0] == "O" else "<junk>" if t[0] == "J" else "[" + ", ".join(coll_show(x) for x in t[1]) + "]"


def collset_value(junk, attr, w, rng):
    return coll_py(collset_tree(junk, attr), w, rng, BARE_JUNK.get(junk))


def collval_real(case, rng, magpy):
    """assign the tree to c.children / c.collections: error kind, or the identity numbers of the resulting children / sub-collections;
    a refused assignment must also leave the whole forest as it was"""
    _, attr, tree = case
    w = collset_world(magpy)
    before = collset_state(w)
    ids = {id(o): COLL_IDS[n][0] for n, o in w.items() if n in COLL_IDS}
    try:
        setattr(w["c"], attr, coll_py(tree, w, rng))
    except Exception as e:  # pylint: disable=broad-except
        return kind(e) + ("" if collset_state(w) == before else " (state differs after the refused assignment)")
    return " ".join(["ok"] + [str(ids.get(id(o), "?")) for o in getattr(w["c"], attr)])


def coll_tree_gen(rng, depth=2):
    r = rng.random()
    if depth == 0 or r < 0.45:
        return J() if rng.random() < 0.15 else O(rng.choice(sorted(COLL_IDS)))
    return ("L", [coll_tree_gen(rng, depth - 1) for _ in range(rng.choice([0, 1, 1, 2, 2, 3, 4]))])


def collset_real(case, rng, magpy):
    """assign to one of the four collection setters of the populated collection `c`; a refused assignment must leave the whole world as it was"""
    _, attr, junk = case
    w = collset_world(magpy)
    before = collset_state(w)
    val = collset_value(junk, attr, w, rng)
    try:
        setattr(w["c"], attr, val)
    except Exception as e:  # pylint: disable=broad-except
        k = kind(e)
        same = collset_state(w) == before
        # the KIND of the error is not this row's subject (`c.children = 5` raises a foreign TypeError from `self.add(*5)`: reported, listed in the
        # oracle's observed-not-recorded entries); the row is about the state after ANY refusal
        return ("all-or-nothing" if same else "may-change (state differs after the refused assignment)") + (" " + k if k != "err bad" else "")
    return "all-or-nothing"                    # accepted


def kind(e):
    from magpylib._src.exceptions import MagpylibBadUserInput, MagpylibMissingInput

    if isinstance(e, MagpylibBadUserInput):
        return "err bad"
    if isinstance(e, MagpylibMissingInput):
        return "err missing"
    return f"err foreign:{type(e).__name__}"


def run_real(case, rng, world):
    """canonical line the driver must print for this case"""
    magpy, ic = world["magpy"], world["ic"]
    cmd = case[0]
    try:
        if cmd == "pixelagg":
            res = ic.check_format_pixel_agg(to_py(case[1], rng))
            return "ok none" if res is None else f"ok text {case[1][1]}"
        if cmd == "pixelagguse":
            name, same = case[1], case[2]
            sens = [magpy.Sensor(pixel=np.arange(24).reshape(2, 4, 3) / 7.0), magpy.Sensor(pixel=np.arange(24).reshape(2, 4, 3) / 5.0, position=(1, 2, 3))] if same \
                else [magpy.Sensor(pixel=np.arange(24).reshape(2, 4, 3) / 7.0), magpy.Sensor(pixel=np.arange(9).reshape(3, 3) / 5.0)]
            try:
                B = magpy.getB([world["cub"], world["cub2"]], sens, pixel_agg=name)
                return "ok" if isinstance(B, np.ndarray) and B.shape == (2, 2, 3) else "err later"
            except Exception:  # pylint: disable=broad-except
                return "err later"
        if cmd == "fieldfunc":
            ic.validate_field_func(ff_py(case[1], rng))
            return "ok"
        if cmd == "setfieldfunc":
            editable, old, val = case[1], ff_py(case[2], rng), ff_py(case[3], rng)
            src = magpy.misc.CustomSource(field_func=old) if editable else world["cub"].copy()
            before = src.field_func
            try:
                if editable and case[4]:          # through the constructor instead of the setter
                    src = magpy.misc.CustomSource(field_func=val)
                else:
                    src.field_func = val
            except Exception as e:  # pylint: disable=broad-except
                return kind(e) + (" kept" if src.field_func is before else " changed")
            return "ok assigned" if src.field_func is val else "ok not-assigned"
        if cmd == "mode":
            val = to_py(case[1], rng)
            TM = magpy.magnet.TriangularMesh
            res = TM._validate_mode_arg(val)  # pylint: disable=protected-access
            shown = f"ok text {res}" if isinstance(res, str) else f"ok scalar {int(np.reshape(res, -1)[0].real)}"
            kw = {"check_open": "skip", "check_disconnected": "skip", "check_selfintersecting": "skip", "reorient_faces": "skip"}
            kw["check_open"] = val
            with warnings.catch_warnings(record=True) as w:
                warnings.simplefilter("always")
                try:
                    t = TM(vertices=TET, faces=FACES[:3], polarization=(0, 0, 1), **kw)
                    eff = "skip" if t.status_open is None else ("warn" if any("Open mesh" in str(x.message) for x in w) else "ignore")
                except ValueError as e:
                    if "Open mesh" not in str(e):
                        raise
                    eff = "raise"
            return f"{shown} -> {eff}"
        if cmd == "inout":
            val = to_py(case[2], rng)
            src = world["tetra"] if case[1] == "tetra" else world["mesh"]
            J = src.getJ([(0.1, 0.1, 0.1), (5, 5, 5)], in_out=val)
            pat = (bool(np.any(J[0] != 0)), bool(np.any(J[1] != 0)))
            return "ok " + {(True, False): "auto", (True, True): "inside", (False, False): "outside"}[pat]
        if cmd == "truth":
            val = to_py(case[1], rng)
            a = magpy.getB([world["cub"], world["cub2"]], (2, 2, 2), sumup=val).shape
            b = magpy.getB([world["cub"], world["cub2"]], (2, 2, 2), squeeze=val).shape
            ta, tb = {(3,): True, (2, 3): False}[a], {(2, 3): True, (2, 1, 1, 1, 3): False}[b]
            if ta != tb:
                return f"ok sumup-{ta}-squeeze-{tb}"
            return "ok true" if ta else "ok false"
        if cmd == "stylesetter":
            s = magpy.Sensor()
            s.style = style_py(case[1], rng, magpy)
            return "ok"
        if cmd == "stylector":
            a, has_kw, kw_names, kw_defect = case[1:5]
            kw = {}
            if has_kw:
                kw = dict(rng.choice(KW_DEFECTS[kw_defect])) if kw_names else {"stile_label": "x"}
            try:
                s = magpy.Sensor(style=style_py(a, rng, magpy), **kw)
            except Exception as e:  # pylint: disable=broad-except
                return "ctor-" + kind(e)
            try:
                s.style  # pylint: disable=pointless-statement
            except Exception as e:  # pylint: disable=broad-except
                return "late-" + kind(e)
            return "ok"
        if cmd == "collset":
            return collset_real(case, rng, magpy)
        if cmd == "collval":
            return collval_real(case, rng, magpy)
        if cmd == "missing":
            cls, dim_none, exc_none = case[1:4]
            ctor = getattr(magpy.magnet, cls, None) or getattr(magpy.current, cls, None) or getattr(magpy.misc, cls)
            dkw, ekw = SRC_KW[cls]
            src = ctor(**({} if dim_none else dkw), **({} if exc_none else ekw))
            results = set()
            for call in (src.getB, src.getH, lambda o: magpy.getB(src, o), lambda o: magpy.getB([world["cub"], src], o)):
                try:
                    call((1.5, 2.5, 3.5))
                    results.add("ok")
                except Exception as e:  # pylint: disable=broad-except
                    results.add(kind(e))
            return results.pop() if len(results) == 1 else "mixed " + " ".join(sorted(results))
        raise ValueError(cmd)
    except Exception as e:  # pylint: disable=broad-except
        return kind(e)


def line(case):
    cmd = case[0]
    if cmd in ("pixelagg", "mode", "truth"):
        return f"valid {cmd} {enc(case[1])}"
    if cmd == "pixelagguse":
        return f"valid pixelagguse {case[1]} {int(case[2])}"
    if cmd == "fieldfunc":
        return f"valid fieldfunc {ff_enc(case[1])}"
    if cmd == "setfieldfunc":
        return f"valid setfieldfunc {int(case[1])} {ff_enc(case[2])} {ff_enc(case[3])}"
    if cmd == "inout":
        return f"valid inout {case[1]} {enc(case[2])}"
    if cmd == "stylesetter":
        return f"valid stylesetter {style_enc(case[1])}"
    if cmd == "stylector":
        return f"valid stylector {style_enc(case[1])} {int(case[2])} {int(case[3])} {case[4] or '-'}"
    if cmd == "collset":
        return f"valid setterform BaseCollection {case[1]}"
    if cmd == "collval":
        return f"valid collval {case[1]} {coll_enc(case[2])}"
    if cmd == "missing":
        return f"valid missing {case[1]} {int(case[2])} {int(case[3])}"
    raise ValueError(cmd)


def describe(case):
    if case[0] == "collval":
        return f"c.{case[1]} = {coll_show(case[2])}"
    out = []
    for x in case[1:]:
        if isinstance(x, tuple) and x and x[0] in ("N", "NC", "OP", "F") and case[0] in ("fieldfunc", "setfieldfunc"):
            out.append(ff_show(x))
        elif isinstance(x, tuple) and x and isinstance(x[0], str) and x[0] in ("N", "T", "F", "I", "FL", "NAN", "BT", "BF", "C", "O", "S", "L", "A", "R") \
                and case[0] not in ("stylesetter", "stylector"):
            out.append(show(x))
        else:
            out.append(repr(x))
    return f"{case[0]}({', '.join(out)})"


def run_stream(ctx, n):
    import magpylib as magpy
    from magpylib._src import input_checks as ic

    rng = ctx.rng
    world = {"magpy": magpy, "ic": ic, "cub": magpy.magnet.Cuboid(dimension=(1, 1, 1), polarization=(0, 0, 1)),
             "cub2": magpy.magnet.Cuboid(dimension=(1, 2, 1), polarization=(0, 1, 1), position=(3, 0, 0)),
             "tetra": magpy.magnet.Tetrahedron(vertices=TET, polarization=(0, 0, 1)),
             "mesh": magpy.magnet.TriangularMesh(vertices=TET, faces=FACES, polarization=(0, 0, 1))}
    table = np_table()
    if len(table) < 300:
        raise RuntimeError("Gen/NpNames.lean has no table")
    cases = []
    # pixel_agg: every name of the installed numpy that the generator probed, plus names numpy does not have and values that are not strings
    cases += [("pixelagg", ("S", nm)) for nm, kd, *_ in table if kd != "unprobed"]
    cases += [("pixelagg", v) for v in [("N",), ("S", "bogus"), ("S", ""), ("S", "Mean"), ("S", "mean_"), ("S", "np.mean"), I(1), FL(0), ("T",), L(("S", "mean")), ("O",), NAN,
                                        ("A", [1], [1]), ("C",)]]
    cases += [("pixelagguse", nm, same) for nm, kd, *_ in table if kd == "number" for same in (True, False)]
    # field_func
    good = ("F", ["field", "observers"], [2, 3], [2, 3])
    cases += [("fieldfunc", t) for t in [("N",), ("NC",), ("OP",), good, ("F", ["field", "observers"], "N", "N"), ("F", ["field", "observers"], "N", [2, 3]),
                                         ("F", ["field", "observers"], [3, 2], [2, 3]), ("F", ["field", "observers"], [2, 3], [3, 2]), ("F", ["field", "observers"], "X", [2, 3]),
                                         ("F", ["field", "observers"], [2, 3], "X"), ("F", ["field", "observers"], "R:ValueError", [2, 3]), ("F", ["field", "observers"], [2, 3], "R:KeyError"),
                                         ("F", ["field", "observers"], [6], "R:KeyError"), ("F", ["observers", "field"], [2, 3], [2, 3]), ("F", ["field"], [2, 3], [2, 3]), ("F", [], [2, 3], [2, 3]),
                                         ("F", ["field", "observers", "extra"], [2, 3], [2, 3]), ("F", ["self", "field", "observers"], [2, 3], [2, 3]), ("F", ["field", "obs"], "R:ValueError", "N")]]
    for ed in (True, False):
        for old in (("N",), good):
            for val in (("N",), ("NC",), good, ("F", ["field", "observers"], [2, 2], "N"), ("F", ["f", "o"], [2, 3], [2, 3]), ("F", ["field", "observers"], "R:RuntimeError", "N")):
                cases.append(("setfieldfunc", ed, old, val, False))
                if ed:
                    cases.append(("setfieldfunc", ed, ("N",), val, True))
    # mode arguments
    MODES = [("T",), ("F",), ("BT",), ("BF",), I(1), I(0), I(2), I(-1), FL(1), FL(0), FL(2), ("N",), NAN, ("C",), ("O",), ("A", [], [1]), ("A", [1], [0]), ("A", [1, 1], [1]), ("A", [1], [3]),
             ("A", [2], [1, 1]), ("A", [0], []), ("L", []), L(("S", "warn")), L(("T",)), nums(1)] + [("S", x) for x in ("warn", "raise", "ignore", "skip", "Warn", "skip_", "", "true", "True", "error")]
    cases += [("mode", v) for v in MODES]
    # in_out
    IO = [("S", x) for x in ("auto", "inside", "outside", "bogus", "Inside", "INSIDE", "out", "", "auto_", "in")] + \
         [("N",), ("T",), ("F",), I(0), I(1), FL(1), NAN, ("C",), ("O",), ("L", []), L(("S", "inside")), L(("S", "auto")), ("A", [], [1]), ("A", [1], [0]), ("A", [2], [1, 2]), ("A", [0], []), ("BT",)]
    cases += [("inout", w, v) for w in ("tetra", "trimesh") for v in IO]
    # sumup / squeeze
    TR = [("T",), ("F",), ("BT",), ("BF",), I(0), I(1), I(-2), FL(0), FL(3), NAN, ("N",), ("C",), ("O",), ("S", ""), ("S", "no"), ("S", "False"), ("L", []), nums(0), L(("L", [])),
          ("A", [], [0]), ("A", [], [2]), ("A", [1], [0]), ("A", [1, 1], [5]), ("A", [2], [0, 0]), ("A", [0], []), ("A", [0, 3], []), ("R", 1, 1), ("R", 2, 1)]
    cases += [("truth", v) for v in TR]
    # style argument
    STY = [("N",), ("D", None), ("D", "AttributeError"), ("D", "AssertionError"), ("D", "ValueError"), ("SO", 1), ("SO", 0), ("X",)]
    cases += [("stylesetter", a) for a in STY for _ in range(2)]
    cases += [("stylector", a, False, True, None) for a in STY]
    cases += [("stylector", a, True, nm, d) for a in STY for nm in (True, False) for d in ((None, "AttributeError", "AssertionError", "ValueError") if nm else (None,))
              if not (a[0] == "D" and a[1] and d)]
    # check_dimensions / check_excitations
    cases += [("missing", c, dn, en) for c in SRC_KW for dn in (False, True) for en in (False, True)
              if not (c == "CustomSource" and (dn or en)) and not (c == "Dipole" and dn)]
    # junk assigned to the four collection setters of a populated collection: the whole forest before / after
    cases += [("collset", at, j) for at in COLL_ATTRS for j in JUNK]
    # the same values through the model of the children / collections setters (repo fix 045b334): error kind or the resulting identities
    cases += [("collval", at, collset_tree(j, at)) for at in ("children", "collections") for j in JUNK]
    n_fixed = len(cases)
    for _ in range(n):
        r = rng.random()
        if r < 0.2:
            cases.append(("fieldfunc", ff_gen(rng)))
        elif r < 0.3:
            cases.append(("setfieldfunc", rng.random() < 0.8, rng.choice([("N",), good]), ff_gen(rng), rng.random() < 0.3))
        elif r < 0.45:
            cases.append(("mode", rng.choice(MODES) if rng.random() < 0.5 else anyval(rng, 1)))
        elif r < 0.6:
            cases.append(("inout", rng.choice(["tetra", "trimesh"]), rng.choice(IO) if rng.random() < 0.5 else rng.choice([leaf(rng, 0.3), ("S", rng.choice(STRINGS)), anyval(rng, 1)])))
        elif r < 0.72:
            cases.append(("truth", rng.choice(TR) if rng.random() < 0.4 else anyval(rng, 2)))
        elif r < 0.8:
            cases.append(("pixelagg", rng.choice([("S", rng.choice(table)[0] + rng.choice(["", "", "x", "_"])), leaf(rng, 0.3), ("S", rng.choice(STRINGS)), anyval(rng, 1)])))
        elif r < 0.9:
            a = style_gen(rng)
            has_kw = rng.random() < 0.5
            nm = rng.random() < 0.8
            d = rng.choice([None, None, "AttributeError", "AssertionError", "ValueError"]) if (has_kw and nm and not (a[0] == "D" and a[1])) else None
            cases.append(("stylector", a, has_kw, nm, d) if rng.random() < 0.6 else ("stylesetter", a))
        elif r < 0.92:
            cases.append(("collset", rng.choice(COLL_ATTRS), rng.choice(JUNK)))
        elif r < 0.97:
            cases.append(("collval", rng.choice(["children", "collections"]), coll_tree_gen(rng)))
        else:
            c = rng.choice(sorted(SRC_KW))
            dn, en = rng.random() < 0.4, rng.random() < 0.4
            if c == "CustomSource":
                dn = en = False
            if c == "Dipole":
                dn = False
            cases.append(("missing", c, dn, en))
    # `unprobed` names are never called on the real side either; a pixel_agg case that hits one is dropped
    unprobed = {nm for nm, kd, *_ in table if kd == "unprobed"}
    cases = [c for c in cases if not (c[0] == "pixelagg" and c[1][0] == "S" and c[1][1] in unprobed)]
    out = run_driver([line(c) for c in cases])
    stats = {"cases": len(cases), "fixed_cases": n_fixed, "random_cases": n, "numpy_names": len(table), "disagreements": 0, "per_command": {}, "accepted_undocumented": {}}
    seen = set()
    with warnings.catch_warnings():
        warnings.simplefilter("ignore")
        devnull = open(os.devnull, "w")
        import contextlib
        for i, c in enumerate(cases):
            with contextlib.redirect_stdout(devnull):
                real = run_real(c, rng, world)
            model = " ".join(out[i].split())
            if c[0] == "collset":
                stats["collset_refused"] = stats.get("collset_refused", 0) + (1 if c[2] not in ("valid", "valid-empty", "valid-steal", "wrong-type-only") else 0)
                model = model.split()[0]
                if real.startswith("all-or-nothing err foreign"):
                    fk = stats.setdefault("collset_foreign_refusals", {})
                    fk[f"{c[1]}={c[2]}: {real.split()[-1]}"] = fk.get(f"{c[1]}={c[2]}: {real.split()[-1]}", 0) + 1
                    real = "all-or-nothing"
            pc = stats["per_command"].setdefault(c[0], {"ok": 0, "bad": 0, "missing": 0, "foreign": 0, "late": 0})
            pc["ok" if real.startswith(("ok", "all-or-nothing")) else "bad" if real.startswith("err bad") else "missing" if real == "err missing" else "late" if real.startswith(("late", "err later")) else "foreign"] += 1
            seen.add((c[0], model, line(c)))
            if real != model:
                stats["disagreements"] += 1
                if stats["disagreements"] <= 3:
                    ctx.broken.append({"kind": "correspondence", "name": "callargs", "detail": {"case": describe(c), "driver_line": line(c), "model": model, "real": real}})
    stats["distinct"] = len(seen)
    stats["samples"] = [{"case": describe(cases[j]), "result": out[j]} for j in (0, n_fixed // 2, len(cases) - 1)]
    return stats
