"""correspondence stream `kern`: the Lean ports (Model/Kernels.lean, evaluated in IEEE double by the
driver) of BHJM_dipole, BHJM_magnet_sphere, current_polyline_Hfield and the Cuboid mask dispatch
against the real functions, row by row.  Floats travel as 64-bit patterns; values are compared
with |a-b| <= 1e-10*max(|a|,|b|,scale) (operation order differs slightly; 1e-6 for the triangle
sheets, whose closed form cancels near edge extensions), masks exactly.  Also: BHJM_triangle,
BHJM_magnet_tetrahedron (chirality fix, inside test, four sheets), BHJM_circle with the Bulirsch cel
iteration (special cases on the axis / on the wire / zero diameter).  Kind `cel0`: the scalar complete
elliptic integral `cel0(kc, p, c, s)` of special_cel.py (both prologue cases p > 0 / p <= 0, the
`kc == 0` RuntimeError as `none`) against the port `Kern.cel0`, relative 1e-12.  Kind `celiter`: `cel_iter`
(scalar pre-loop for fewer than 15 entries, then `cel_iterv` on the whole batch) on batches of 1..20 rows
against `Kern.celIterDispatch`, relative 1e-12.  Kind `celbatch`: a whole batch of 1..40 entries (sizes straddling the `n < 10`
switch of `cel`; repeated entries; moduli from 1e-150 to 1e150, exactly +-1, inside and just outside the band | 1 - |kc| | <= 1e-6 in which
`cel0` returns without a pass) through the real `celv` (mode v) / the dispatcher `cel` (mode d; below 10 entries also `kc == 0`:
RuntimeError = `none`; `celv` is never called with `kc == 0`, it would not return) against `Kern.celv` / `Kern.celDispatch` (Model/Celv.lean),
relative 1e-15 (measured: bit-identical).  On the real code the same rows also check what Props/C06 proves of the model: every entry of
`celv(batch)` is bit-identical to `celv` of the one-entry batch (`celv_rowwise`), and to `cel0` of the entry whenever `cel0` makes at least one
pass (`celv_eq_cel0_partial`); the entries where `cel0` and `celv` differ (all inside the band) are counted with their largest relative difference.
Kind `el3batch`: batches of 1..40 entries (x, kc, p) through the real dispatcher `el3` (scalar `el30` below 10 entries, the masked array
routine `el3v` from 10 on) against the port of `el30` applied entry by entry (the model of `el3` on a batch; the loop skeleton of `el3v` is proved row-wise,
Props/C06 `el3v_loop_rowwise_partial`), relative 1e-12 (largest seen 4e-15: `h - r - r` vs `h - 2*r` and the like); where `el30` raises ValueError (x < 0 in the
logarithmic branch, known finding el3-nan-to-int) the array routine's NaN is the reference.  On the real code also: `el3v(batch)[i]` bit-identical to `el3v([batch[i]])`.
Kind `cylbatch`: `BHJM_magnet_cylinder` on a whole batch of 1..40 rows (the row counts of its two sub-batches — rows with axial polarization, and
rows with transversal polarization at r/r0 >= 0.05 — straddle the `n < 10` switch of `cel` separately; one cylinder for all rows or one per row;
observers from the strata of the `cylinder` kind plus observers 1e-9..1e-6 radii from the axis and 1e3..1e5 radii away, where a modulus of a `cel`
call lies in the band | 1 - |kc| | <= 1e-6; rows on r = r0, on the axis, repeated rows, permuted rows) against `Kern.bhjmCylinderBatch (celDispatch 200)`
(Model/CylinderBatch.lean), relative 1e-14 of max(|value|, polarization scale) for batches with axial polarization only (largest seen 8e-16; the two paths of `cel` differ by up to 7e-13 there, so a wrong path would show), 1e-10 otherwise (largest seen 3e-12: scipy's ellipk / ellipe against their
cel0 forms, as in the `cylinder` kind).  On the real code the same rows also check what Props/C06 `cylinder_batch_rowwise_off_band` proves of the model: a row of the batch result is
bit-identical to the call with that row alone unless one of the row's `cel` moduli lies in the band; the rows that differ (all in the band) are counted with
their largest relative difference.
Kind `cylinder`: `BHJM_magnet_cylinder` (one row: `cel` takes its
cel0 path) against `Kern.bhjmCylinder` (Model/Cylinder.lean: axial Derby kernel, diametral kernel with the Taylor
branch r/r0 < 0.05 and the general branch, scipy's ellipk/ellipe modelled through cel0 — the modelling assumption this
kind validates), observers stratified: far, inside, near and exactly on the axis, around r/r0 = 0.05, exactly on the hull
(also with interior/exterior z and on the edge), exactly on the bases, within 1e-16..1e-3 (relative) of the surfaces on
either side; polarization axial-only / transversal-only / mixed / zero; fields B/H/J/M; sizes 1e-3..1e3; tolerance
1e-9 of max(|value|, polarization scale) (largest deviation seen in 1e5 rows: 3e-12).  Kind `cylmask`: the inside mask (J of a probe polarization != 0) and the
on-edge mask (B of the probe polarization == 0 exactly) against `Kern.cylMasks`, exactly.
Kinds `cylsegcase`, `cylsegblock`, `cylsegH`, `cylseg`, `cylsegell`, `cylsegel3` (list CYLSEG_KINDS, generators in corr/cylseg_rows.py): the
CylinderSegment port — translated case functions and dispatch (Model/CylSeg.lean), hand-written boundary sum and wrappers
(Model/CylSegWrap.lean), Carlson substitutes for scipy's ellipkinc/ellipeinc and the port of el3_angle (Model/CylSegSpecial.lean).
Tolerances from measured deviations (40 000 wrapper rows, 20 000 block rows, 6 000 H rows): case id exact; 3x3 blocks 1e-10 of the block's largest
entry (largest seen 1.3e-12); `cylsegH` 1e-9 of max(|value|, M/4pi) (largest seen 1.5e-11, case ids 213/215/233/235); wrapper rows 1e-10 of the
polarization scale (largest seen 3e-13) except observers in the bore at 1e-3 outer radii from the axis of a segment without bore: 1e-8 (largest seen
5.8e-10 — cancellation in the real formulas amplifies the last-digit differences of the elliptic integrals); ellipkinc/ellipeinc 1e-13 (2.3e-15), el3_angle 1e-10 (3e-16).
Kind `exccancel` (C05 / C02, corr/exccancel_rows.py; not in the default cycle, run with only=["exccancel"]): for every wrapper kind in turn (dipole, dipole at its own position = the `r == 0` row against Kern.bhjmDipoleAtPosition, sphere, cuboid, triangle, tetra, trimesh row, circle, polyline segment
wrapper, cylinder, cylseg) ONE real call on a batch of six rows with common geometry and observer: excitation p, -p, p*0.0 (signed zeros), q, a*p + b*q, p + (-p);
p, q with no / one / two / all components exactly 0, q cancelling the transversal or the axial part of p; every row against the port on that row alone
(tolerances of the base kinds; `poly seg` = Kern.bhjmSegment, `trimesh batch` = Kern.bhjmTrimesh).  Statistics `exccancel`: rows per wrapper and per pattern, and on the
real results the linearity / antisymmetry residuals and whether F(0) is exactly 0.
Kinds `l1cuboid`, `l1sphere`, `l1cylinder`, `l1tetra`, `l1cylseg` (C02, keyword `in_out`): the same inputs, but the real function is reached the way
getBH_level2 reaches it — through `getBH_level1(field_func=…, in_out=io, position=0, orientation=identity, …)` with io in 'auto' / 'inside' /
'outside' / a misspelt value — against `Kern.cuboidL1 … cylSegL1` (Model/InOut.lean: level1's keyword filter over the regenerated table of
signatures, `point_inside` with its in_out branches); same tolerances as the base kinds.""" 
import struct

import numpy as np

from vlib.driver import run_driver

from . import cylseg_rows
from . import exccancel_rows

CYLSEG_KINDS = ["cylsegcase", "cylsegblock", "cylsegH", "cylseg", "cylsegH", "cylseg", "cylsegblock", "cylseg", "cylsegell", "cylsegel3", "cylsegatan"]


def bits(x):
    return str(struct.unpack("<Q", struct.pack("<d", float(x)))[0])


def unbits(s):
    return struct.unpack("<d", struct.pack("<Q", int(s)))[0]


def enc(v):
    return " ".join(bits(x) for x in np.ravel(v))


IO_TOK = {"auto": "auto", "inside": "inside", "outside": "outside", "bogus": "other"}


def level1_call(func, f, x, io, **kw):
    """one row through getBH_level1 (source at the origin, unit orientation) with the keyword in_out"""
    from magpylib._src.fields.field_wrap_BH import getBH_level1
    from scipy.spatial.transform import Rotation

    return getBH_level1(field_func=func, field=f, position=np.zeros((1, 3)), orientation=Rotation.identity(1), observers=x[None], in_out=io, **kw)[0]


def stratified_point(rng, nps, size):
    """observer relative to a body of half-size `size`: far, near, inside, on a face/edge/corner (exact)"""
    k = rng.random()
    if k < 0.3:
        return nps.uniform(-1, 1, 3) * size * 10 ** nps.uniform(0, 2)
    if k < 0.55:
        return nps.uniform(-0.9, 0.9, 3) * size
    if k < 0.8:
        p = nps.uniform(-1.5, 1.5, 3) * size
        for ax in rng.sample(range(3), rng.choice([1, 2, 3])):
            p[ax] = rng.choice([-1, 1]) * size[ax] if np.ndim(size) else rng.choice([-1, 1]) * size
        return p
    return nps.uniform(-3, 3, 3) * size


def cylinder_case(rng, nps, sc):
    """diameter, height, observer and the name of the stratum the observer was drawn from"""
    # a radius with few mantissa bits, so that (3k, 4k) has norm 5k = r0 exactly
    m, e = np.frexp(nps.uniform(0.05, 0.2) * sc)
    k = float(np.ldexp(np.floor(m * 2**20) / 2**20, e))
    r0 = 5.0 * k
    d = 2.0 * r0
    h = float(nps.uniform(0.1, 3) * d)
    z0 = h / 2
    ph = nps.uniform(0, 2 * np.pi)
    sgn = rng.choice([-1.0, 1.0])

    def on_hull_xy():
        c = rng.randrange(3)
        if c == 0:
            return rng.choice([(r0, 0.0), (-r0, 0.0), (0.0, r0), (0.0, -r0)])
        a, b = rng.choice([(3.0, 4.0), (4.0, 3.0)])
        return (rng.choice([-1, 1]) * a * k, rng.choice([-1, 1]) * b * k)

    stratum = rng.choice(["far", "inside", "axis_near", "axis_exact", "r005", "hull_exact", "hull_edge_exact", "base_exact",
                          "close_hull", "close_base", "close_edge", "generic"])
    if stratum == "far":
        x = nps.uniform(-1, 1, 3) * max(r0, z0) * 10 ** nps.uniform(0.3, 2)
    elif stratum == "inside":
        rr = r0 * nps.uniform(0.06, 0.95)
        x = np.array([rr * np.cos(ph), rr * np.sin(ph), z0 * nps.uniform(-0.95, 0.95)])
    elif stratum == "axis_near":
        rr = r0 * 10 ** nps.uniform(-9, -1.31)
        x = np.array([rr * np.cos(ph), rr * np.sin(ph), z0 * nps.uniform(-2.5, 2.5)])
    elif stratum == "axis_exact":
        x = np.array([0.0, 0.0, rng.choice([z0 * nps.uniform(-2.5, 2.5), sgn * z0, 0.0])])
    elif stratum == "r005":
        rr = r0 * 0.05 * (1 + rng.choice([-1, 1]) * 10 ** nps.uniform(-16, -2))
        x = np.array([rr * np.cos(ph), rr * np.sin(ph), z0 * nps.uniform(-2.5, 2.5)])
    elif stratum == "hull_exact":
        x = np.array([*on_hull_xy(), z0 * nps.uniform(-2.5, 2.5)])
    elif stratum == "hull_edge_exact":
        x = np.array([*on_hull_xy(), sgn * z0])
    elif stratum == "base_exact":
        rr = r0 * rng.choice([nps.uniform(0.06, 0.99), nps.uniform(1.01, 3), 10 ** nps.uniform(-6, -1.5)])
        x = np.array([rr * np.cos(ph), rr * np.sin(ph), sgn * z0])
    elif stratum == "close_hull":
        rr = r0 * (1 + rng.choice([-1, 1]) * 10 ** nps.uniform(-16, -3))
        x = np.array([rr * np.cos(ph), rr * np.sin(ph), z0 * rng.choice([nps.uniform(-0.95, 0.95), nps.uniform(1.05, 2.5) * sgn])])
    elif stratum == "close_base":
        rr = r0 * rng.choice([nps.uniform(0.06, 0.95), nps.uniform(1.05, 3)])
        x = np.array([rr * np.cos(ph), rr * np.sin(ph), sgn * z0 * (1 + rng.choice([-1, 1]) * 10 ** nps.uniform(-16, -3))])
    elif stratum == "close_edge":
        xy = on_hull_xy() if rng.random() < 0.5 else None
        rr = r0 * (1 + rng.choice([-1, 1]) * 10 ** nps.uniform(-16, -3))
        zz = sgn * z0 * (1 + rng.choice([-1, 0, 1]) * 10 ** nps.uniform(-16, -3))
        x = np.array([*(xy if xy else (rr * np.cos(ph), rr * np.sin(ph))), zz])
    else:
        x = np.array([*(nps.uniform(-2, 2, 2) * r0), nps.uniform(-2, 2) * z0])
    return d, h, np.asarray(x, dtype=float), stratum


def run_stream(ctx, n, only=None, with_in_out=False):
    from magpylib import mu_0
    from magpylib._src.fields.field_BH_cuboid import BHJM_magnet_cuboid
    from magpylib._src.fields.field_BH_cylinder import BHJM_magnet_cylinder
    from magpylib._src.fields.field_BH_dipole import BHJM_dipole
    from magpylib._src.fields.field_BH_polyline import current_polyline_Hfield
    from magpylib._src.fields.field_BH_sphere import BHJM_magnet_sphere
    from magpylib._src.fields.field_BH_circle import BHJM_circle
    from magpylib._src.fields.field_BH_tetrahedron import BHJM_magnet_tetrahedron
    from magpylib._src.fields.field_BH_triangle import BHJM_triangle
    from magpylib._src.fields.special_cel import cel, cel0, cel_iter, celv

    rng = ctx.rng
    lines, expect, meta = [], [], []
    exc_i = None
    exc_stats = {"batches": 0, "rows": 0, "rows_excitation_exactly_zero": 0, "rows_p_and_minus_p": 0, "by_wrapper": {}, "by_pattern": {},
                 "real_max_linearity_residual": {}, "real_max_antisymmetry_residual": {}, "real_zero_rows_not_exactly_zero": 0}
    for i in range(n):
        nps = np.random.default_rng(rng.randrange(2**31))
        kinds = only or (["dipole", "sphere", "segment", "cuboidmask", "cuboid", "triangle", "tetra", "circle", "tetrainside", "cel0", "celiter", "cylinder", "cylmask", "cylinder", "celbatch", "el3batch", "cylbatch"]  # (kind `exccancel` only on request, only=["exccancel"]: the default cycle and its random sequence are unchanged) cylinder twice: twelve observer strata x six polarization kinds
                         + (["l1cuboid", "l1tetra", "l1sphere", "l1cylinder", "l1tetra", "l1cylseg"] if with_in_out else []))  # C02: the keyword in_out through getBH_level1
        kind = kinds[i % len(kinds)]
        sc = 10.0 ** nps.uniform(-3, 3)
        io = None
        if kind.startswith("l1"):  # the same row through getBH_level1 with the keyword in_out
            io = rng.choice(["auto", "inside", "outside", "bogus", "inside", "outside"])
            kind = kind[2:]
        pre = f"kern l1 {IO_TOK[io]} " if io else "kern "
        if kind.startswith("cylseg"):
            ln, ex, m = cylseg_rows.row_wrapper(rng, nps, mu_0, in_out=io) if kind == "cylseg" else cylseg_rows.KINDS[kind](rng, nps)
            lines.append(ln)
            expect.append(ex)
            meta.append(m)
            continue
        if kind == "exccancel":  # one batch of six rows per wrapper kind: p, -p, signed zeros, q, a p + b q, +0 (corr/exccancel_rows.py)
            exc_i = rng.randrange(len(exccancel_rows.WRAPPERS)) if exc_i is None else exc_i + 1
            wrapper = exccancel_rows.WRAPPERS[exc_i % len(exccancel_rows.WRAPPERS)]
            rows_, res_ = exccancel_rows.case(rng, nps, wrapper, mu_0, bits, enc, stratified_point, cylinder_case)
            for ln, ex, m in rows_:
                lines.append(ln)
                expect.append(ex)
                meta.append(m)
            if rows_:
                exc_stats["batches"] += 1
                exc_stats["by_wrapper"][wrapper] = exc_stats["by_wrapper"].get(wrapper, 0) + 6
                how = rows_[0][2]["how"]
                for key in ("p:" + how["p"], "q:" + how["q"], "rel:" + how["rel"]):
                    exc_stats["by_pattern"][key] = exc_stats["by_pattern"].get(key, 0) + 1
                exc_stats["rows"] += 6
                exc_stats["rows_excitation_exactly_zero"] += 2
                exc_stats["rows_p_and_minus_p"] += 2
                rs = exccancel_rows.residuals(*res_)
                if rs:
                    exc_stats["real_max_linearity_residual"][wrapper] = max(exc_stats["real_max_linearity_residual"].get(wrapper, 0.0), rs[0])
                    exc_stats["real_max_antisymmetry_residual"][wrapper] = max(exc_stats["real_max_antisymmetry_residual"].get(wrapper, 0.0), rs[1])
                    exc_stats["real_zero_rows_not_exactly_zero"] += not rs[2]
            continue
        f = rng.choice("BHJM")
        if kind == "dipole":
            m, x = nps.uniform(-1, 1, 3) * sc**3, nps.uniform(-2, 2, 3) * sc
            r = BHJM_dipole(f, x[None], m[None])[0]
            lines.append(f"kern dipole {f} {enc(m)} {enc(x)}")
            scale = mu_0 * np.linalg.norm(m) / np.linalg.norm(x) ** 3 * (1 if f == "B" else 1 / mu_0)
        elif kind == "sphere":
            d, pol = nps.uniform(0.5, 2) * sc, nps.uniform(-1, 1, 3)
            x = stratified_point(rng, nps, d / 2)
            if rng.random() < 0.15:
                x = x / np.linalg.norm(x) * d / 2  # on the surface up to rounding
            r = (level1_call(BHJM_magnet_sphere, f, x, io, diameter=np.array([d]), polarization=pol[None]) if io
                 else BHJM_magnet_sphere(f, x[None], np.array([d]), pol[None])[0])
            lines.append(pre + f"sphere {f} {bits(d)} {enc(pol)} {enc(x)}")
            scale = np.linalg.norm(pol) * (1 if f in "BJ" else 1 / mu_0)
        elif kind == "segment":
            p1, p2 = nps.uniform(-1, 1, 3) * sc, nps.uniform(-1, 1, 3) * sc
            k = rng.random()
            t = nps.uniform(-2, 3)
            off = nps.uniform(-1, 1, 3) * sc * 10 ** nps.uniform(-3, 1)
            po = p1 + t * (p2 - p1) + off  # beyond either end or between, at any distance from the line
            cur = nps.uniform(-3, 3)
            r = current_polyline_Hfield(po[None], p1[None], p2[None], np.array([cur]))[0]
            lines.append(f"kern segment {bits(cur)} {enc(p1)} {enc(p2)} {enc(po)}")
            scale = abs(cur) / (4 * np.pi * max(np.linalg.norm(off), 1e-300))
            f = "H"
        elif kind == "triangle":
            v = nps.uniform(-1, 1, (3, 3)) * sc
            pol = nps.uniform(-1, 1, 3)
            k = rng.random()
            tri_stratum = "generic" if k < 0.4 else "above-below" if k < 0.7 else "near-extension" if k < 0.8 else "near-edge-line" if k < 0.9 else "on-edge-line" if k < 0.96 else "zero-area"
            if k < 0.4:  # generic observer at any distance
                x = v.mean(axis=0) + nps.uniform(-1, 1, 3) * sc * 10 ** nps.uniform(-1.5, 1.5)
            elif k < 0.7:  # above / below the sheet, footpoint inside or outside the triangle
                w = nps.uniform(-0.5, 1.5, 3)
                w /= w.sum() if abs(w.sum()) > 0.2 else 1.0
                nn = np.cross(v[1] - v[0], v[2] - v[0])
                x = w @ v + nn / np.linalg.norm(nn) * sc * 10 ** nps.uniform(-2, 0.5) * rng.choice([-1, 1])
            elif k < 0.8:  # near the extension of an edge, off the edge itself
                e = rng.randrange(3)
                t = rng.choice([nps.uniform(1.2, 3), nps.uniform(-2, -0.2)])
                x = v[e] + t * (v[(e + 1) % 3] - v[e]) + nps.uniform(-1, 1, 3) * sc * 10 ** nps.uniform(-3.5, -1.5)
            elif k < 0.9:  # the three sub-branches of the repaired edge integral close to the edge line: beyond the end, behind the
                # start, alongside the edge; at distances 1e-12..1e-4 edge lengths from the line (the former `ind <= 1e-12 l` cone
                # included) and 1e-9..1 edge lengths from the nearer vertex
                e = rng.randrange(3)
                d = 10 ** nps.uniform(-9, 0)
                t = rng.choice([1 + d, -d, d, 1 - d, nps.uniform(0.05, 0.95)])
                x = v[e] + t * (v[(e + 1) % 3] - v[e]) + nps.uniform(-1, 1, 3) * sc * 10 ** nps.uniform(-12, -4)
            elif k < 0.96:  # axis-aligned triangle, observer exactly on an edge line: on the edge (on-edge branch: rho2 == 0 alongside),
                # on either extension (general formula at rho2 == 0) or at a vertex (non-finite in both)
                a, b = (float(q) for q in nps.integers(1, 6, 2))
                v = np.array([[0, 0, 0], [a, 0, 0], [0, b, 0]]) * sc
                t = float(rng.choice([0.25, 0.5, 0.75, 1.5, 3.0, -0.5, -2.0, 0.0, 1.0]))
                x = v[0] + t * (v[rng.choice([1, 2])] - v[0])
            else:  # triangle without area (zero-area mask): collinear or coinciding vertices
                v[2] = v[0] + float(rng.choice([2.0, 0.5, -1.0, 0.0, 1.0])) * (v[1] - v[0])
                if rng.random() < 0.3:
                    v[1] = v[0]
                    v[2] = v[0] if rng.random() < 0.5 else v[2]
                x = v.mean(axis=0) + nps.uniform(-1, 1, 3) * sc
                if np.linalg.norm(np.cross(v[1] - v[0], v[2] - v[0])) != 0:  # rounding made it a sliver: use exactly representable multiples
                    v = np.array([[0, 0, 0], [1, 2, -1], [2, 4, -2]]) * sc
            r = BHJM_triangle(f, x[None], v[None].copy(), pol[None])[0]
            lines.append(f"kern triangle {f} {enc(v)} {enc(pol)} {enc(x)}")
            scale = np.linalg.norm(pol) * (1 if f in "BJ" else 1 / mu_0) + 1e-300
        elif kind in ("tetra", "tetrainside"):
            while True:
                v = nps.uniform(-1, 1, (4, 3)) * sc
                vol = abs(np.linalg.det(v[1:] - v[0])) / sc**3
                if vol > 0.05:
                    break
            pol = nps.uniform(-1, 1, 3)
            w = nps.dirichlet([1, 1, 1, 1]) if rng.random() < 0.5 else nps.uniform(-0.6, 1.2, 4)
            w = w / w.sum() if abs(w.sum()) > 0.2 else np.array([0.25] * 4)
            if min(abs(w).min(), abs(w - 1).min()) < 1e-3:  # keep clear of the faces: the inside test is a float comparison
                w = np.array([0.1, 0.2, 0.3, 0.4])
            x = w @ v
            if kind == "tetrainside":
                inside = bool(np.any(BHJM_magnet_tetrahedron("J", x[None], v[None].copy(), np.array([[0.3, 0.5, 0.7]]))[0] != 0))
                lines.append(f"kern tetrainside {enc(v)} {enc(x)}")
                expect.append(("mask", str(inside).lower(), None))
                meta.append({"kind": kind, "v": v.tolist(), "x": x.tolist()})
                continue
            r = (level1_call(BHJM_magnet_tetrahedron, f, x, io, vertices=v[None].copy(), polarization=pol[None]) if io
                 else BHJM_magnet_tetrahedron(f, x[None], v[None].copy(), pol[None])[0])
            lines.append(pre + f"tetra {f} {enc(v)} {enc(pol)} {enc(x)}")
            scale = np.linalg.norm(pol) * (1 if f in "BJ" else 1 / mu_0) + 1e-300
        elif kind == "circle":
            d = nps.uniform(0.5, 2) * sc * rng.choice([1, 1, 1, -1])
            cur = nps.uniform(-3, 3)
            k = rng.random()
            r0 = abs(d) / 2
            if k < 0.15:  # on the axis (exactly)
                x = np.array([0.0, 0.0, nps.uniform(-3, 3) * r0])
            elif k < 0.25:  # in the plane of the loop
                x = np.array([*(nps.uniform(-3, 3, 2) * r0), 0.0])
            elif k < 0.45:  # close to the wire
                ph = nps.uniform(0, 2 * np.pi)
                rr = r0 * (1 + rng.choice([-1, 1]) * 10 ** nps.uniform(-6, -1))
                x = np.array([rr * np.cos(ph), rr * np.sin(ph), r0 * rng.choice([-1, 1]) * 10 ** nps.uniform(-6, -1)])
            else:
                x = nps.uniform(-1, 1, 3) * r0 * 10 ** nps.uniform(-2, 2)
            r = BHJM_circle(f, x[None], np.array([d]), np.array([cur]))[0]
            lines.append(f"kern circle {f} {bits(d)} {bits(cur)} {enc(x)}")
            scale = abs(cur) / (2 * r0) * (mu_0 if f == "B" else 1) * 1e-3 + 1e-300
        elif kind == "cel0":
            # kc in +-[1e-6, 1e3] (log-uniform), p of both signs, c, s in [-3, 3]; now and then p == 0 exactly
            # (falls into the `else` prologue), p == 1, |kc| == 1 (loop exits at once) and kc == 0 (raises)
            kc = np.float64(rng.choice([-1, 1]) * 10.0 ** nps.uniform(-6, 3))
            pa = np.float64(rng.choice([-1, 1, 1]) * 10.0 ** nps.uniform(-4, 3))
            c, s = (np.float64(t) for t in nps.uniform(-3, 3, 2))
            k = rng.random()
            if k < 0.05:
                pa = np.float64(0.0)
            elif k < 0.1:
                pa = np.float64(1.0)
            elif k < 0.15:
                kc = np.float64(rng.choice([-1.0, 1.0]))
            elif k < 0.2:
                kc = np.float64(rng.choice([0.0, -0.0]))
            lines.append(f"kern cel0 {bits(kc)} {bits(pa)} {bits(c)} {bits(s)}")
            meta.append({"kind": kind, "kc": float(kc), "p": float(pa), "c": float(c), "s": float(s)})
            try:
                with np.errstate(all="ignore"):
                    r = np.array([float(cel0(kc, pa, c, s))])
            except RuntimeError:
                expect.append(("mask", "none", None))
                continue
            expect.append(("vec", r, 1e-300))
            continue
        elif kind == "celiter":
            # batches of 1..20 rows (the scalar pre-loop runs below 15): rows as the Circle kernel builds them
            # (qc = kk = q, p = em = 1 + q, g = 1) with q over nine decades, or arbitrary positive loop variables
            nrow = rng.choice([1, 2, 3, 7, 14, 15, 16, 20])
            circ = rng.random() < 0.5
            q = 10.0 ** nps.uniform(-6, 3, nrow)
            cc, ss = nps.uniform(-3, 3, nrow), nps.uniform(-3, 3, nrow)
            if circ:
                rows = np.stack([q, 1 + q, np.ones(nrow), cc, ss, 1 + q, q], axis=1)
            else:
                rows = np.stack([q, 10.0 ** nps.uniform(-2, 2, nrow), 10.0 ** nps.uniform(-3, 3, nrow), cc, ss,
                                 10.0 ** nps.uniform(-3, 3, nrow), 10.0 ** nps.uniform(-6, 6, nrow)], axis=1)
            with np.errstate(all="ignore"):
                r = np.asarray(cel_iter(*(rows[:, j].copy() for j in range(7))), dtype=float)
            lines.append(f"kern celiter {nrow} {enc(rows)}")
            expect.append(("vec", r, 1e-300))
            meta.append({"kind": kind, "rows": nrow, "circle_like": circ, "line": lines[-1][:80]})
            continue
        elif kind == "celbatch":
            nrow = rng.choice([1, 2, 5, 8, 9, 10, 11, 12, 20, 33, 40, rng.randrange(1, 41)])
            mode = rng.choice("vd")
            kc = nps.choice([-1.0, 1.0], nrow) * 10.0 ** nps.uniform(-6, 3, nrow)
            for j in range(nrow):
                k = rng.random()
                sg = rng.choice([-1.0, 1.0])
                if k < 0.15:  # inside the band: cel0 returns without a pass, celv after one
                    kc[j] = sg * (1 + rng.choice([-1, 1]) * 10.0 ** nps.uniform(-12, -6.01))
                elif k < 0.2:
                    kc[j] = sg
                elif k < 0.3:  # just outside the band
                    kc[j] = sg * (1 + rng.choice([-1, 1]) * 10.0 ** nps.uniform(-5.99, -5))
                elif k < 0.4:  # many / few passes
                    kc[j] = sg * 10.0 ** (rng.choice([-1, 1]) * nps.uniform(6, 150))
            pa = nps.choice([-1.0, 1.0, 1.0], nrow) * 10.0 ** nps.uniform(-4, 3, nrow)
            for j in range(nrow):
                k = rng.random()
                if k < 0.05:
                    pa[j] = 0.0
                elif k < 0.1:
                    pa[j] = 1.0
            c, s_ = nps.uniform(-3, 3, nrow), nps.uniform(-3, 3, nrow)
            rows = np.stack([kc, pa, c, s_], axis=1)
            if nrow > 1 and rng.random() < 0.5:  # repeated entries
                for _ in range(rng.randrange(1, 4)):
                    rows[rng.randrange(nrow)] = rows[rng.randrange(nrow)]
            if rng.random() < 0.3:
                rows = rows[nps.permutation(nrow)]
            if mode == "d" and nrow < 10 and rng.random() < 0.25:
                rows[rng.randrange(nrow), 0] = rng.choice([0.0, -0.0])  # cel0 raises; celv is never called with kc == 0 (endless loop)
            lines.append(f"kern celbatch {mode} {nrow} {enc(rows)}")
            m = {"kind": kind, "rows": nrow, "mode": mode, "line": lines[-1][:80]}
            meta.append(m)
            cols = [rows[:, j].copy() for j in range(4)]
            try:
                with np.errstate(all="ignore"):
                    r = np.asarray((celv if mode == "v" else cel)(*(q.copy() for q in cols)), dtype=float)
            except RuntimeError:
                expect.append(("mask", "none", None))
                continue
            if not np.any(rows[:, 0] == 0):
                # the same statements on the real code: entry of the batch == one-entry batch (bit for bit); == cel0 off the band
                with np.errstate(all="ignore"):
                    full = np.asarray(celv(*(q.copy() for q in cols)), dtype=float)
                    alone = np.array([celv(*(q[j:j + 1].copy() for q in cols))[0] for j in range(nrow)])
                    scal = np.array([float(cel0(*rows[j])) for j in range(nrow)])
                same = lambda a, b: (a == b) | (np.isnan(a) & np.isnan(b))
                band = ~(np.abs(1.0 - np.abs(rows[:, 0])) > 1.0 * 0.000001)  # cel0's first test `abs(g - k) > g * errtol` (g = 1) is false: no pass
                dif = ~same(full, scal)
                with np.errstate(all="ignore"):
                    rd = np.where(dif, np.abs(full - scal) / np.maximum(np.abs(full), np.abs(scal)), 0.0)
                m["alone_ne_batch"] = int(np.sum(~same(full, alone)))
                m["cel0_ne_celv_off_band"] = int(np.sum(dif & ~band))
                m["cel0_ne_celv_in_band"] = int(np.sum(dif & band))
                m["band_entries"] = int(np.sum(band))
                m["max_reldiff_cel0_celv"] = float(np.nanmax(rd)) if nrow else 0.0
            expect.append(("vec", r, 1e-300))
            continue
        elif kind == "el3batch":
            from magpylib._src.fields.special_el3 import el3, el3v
            nrow = rng.choice([1, 2, 5, 9, 10, 11, 20, 40, rng.randrange(1, 41)])
            if rng.random() < 0.5:  # arguments as el3_angle builds them for the CylinderSegment: x = tan(phi), kc = sqrt(1 - m) >= 0, p = 1 - n
                x = np.tan(nps.uniform(-np.pi / 2, np.pi / 2, nrow))
                mm = np.where(nps.random(nrow) < 0.7, -10.0 ** nps.uniform(-3, 3, nrow), nps.uniform(0, 1, nrow))
                kc = np.sqrt(1 - mm)
                pa = 1 - np.where(nps.random(nrow) < 0.5, nps.uniform(-5, 1, nrow), nps.uniform(0, 1, nrow))
            else:
                x = nps.choice([-1.0, 1.0], nrow) * 10.0 ** nps.uniform(-3, 3, nrow)
                kc = nps.choice([-1.0, 1.0], nrow) * 10.0 ** nps.uniform(-4, 2, nrow)
                pa = nps.choice([-1.0, 1.0, 1.0], nrow) * 10.0 ** nps.uniform(-4, 3, nrow)
            for arr in (x, kc, pa):
                if rng.random() < 0.15:
                    arr[rng.randrange(nrow)] = 0.0
            rows = np.stack([x, kc, pa], axis=1)
            if nrow > 1 and rng.random() < 0.4:
                rows[rng.randrange(nrow)] = rows[rng.randrange(nrow)]
            cols = [rows[:, j].copy() for j in range(3)]
            m = {"kind": kind, "rows": nrow, "line": f"kern el3batch {nrow} ..."}
            import warnings
            with np.errstate(all="ignore"), warnings.catch_warnings():
                warnings.simplefilter("ignore")
                try:
                    full = np.asarray(el3v(*(q.copy() for q in cols)), dtype=float)
                    alone = np.array([el3v(*(q[j:j + 1].copy() for q in cols))[0] for j in range(nrow)])
                except RuntimeError:  # 1 + p*x*x == 0 in some entry: both routines raise for the whole call
                    continue
                try:
                    r = np.asarray(el3(*(q.copy() for q in cols)), dtype=float)
                except ValueError:
                    m["el30_ValueError"] = 1
                    r = full
            m["alone_ne_batch"] = int(np.sum(~((full == alone) | (np.isnan(full) & np.isnan(alone)))))
            lines.append(f"kern el3batch {nrow} {enc(rows)}")
            meta.append(m)
            expect.append(("vec", r, 1e-300))
            continue
        elif kind == "cylbatch":
            nrow = rng.choice([1, 2, 5, 9, 10, 11, 12, 14, 15, 19, 20, 21, 30, 40, rng.randrange(1, 41), rng.randrange(1, 41)])
            f = rng.choice("BHBHJM")
            shared = rng.random() < 0.5  # one cylinder, many observers (getB of one source) / one cylinder per row
            polmode = rng.choice(["mixed", "mixed", "ax", "tv", "any", "any"])
            rowsD, rowsP, rowsX, strata = [], [], [], []
            d0, h0, _, _ = cylinder_case(rng, nps, sc)
            for j in range(nrow):
                d, h, x, stratum = cylinder_case(rng, nps, sc)
                if shared:  # re-draw the observer for the shared cylinder: same strata, scaled to its size
                    x = x * np.array([d0 / d, d0 / d, h0 / h])
                    d, h = d0, h0
                k = rng.random()
                r0_, z0_ = d / 2, h / 2
                if k < 0.12:  # near the axis: the axial moduli k0, k1 are in the band
                    rr = r0_ * 10 ** nps.uniform(-9, -6.3)
                    ph = nps.uniform(0, 2 * np.pi)
                    x = np.array([rr * np.cos(ph), rr * np.sin(ph), z0_ * nps.uniform(-2.5, 2.5)])
                    stratum = "band_axis"
                elif k < 0.2:  # far away: the diametral moduli sqrt(1 - argp), sqrt(1 - argm) are in the band
                    x = nps.uniform(-1, 1, 3) * r0_ * 10 ** nps.uniform(3.2, 5)
                    stratum = "band_far"
                pk = polmode if polmode in ("ax", "tv", "mixed") else rng.choice(["ax", "tv", "mixed", "mixed", "zero", "tv1"])
                pol = nps.uniform(-1, 1, 3)
                if pk == "ax":
                    pol[:2] = 0.0
                elif pk == "tv":
                    pol[2] = 0.0
                elif pk == "tv1":
                    pol[2] = 0.0
                    pol[rng.randrange(2)] = 0.0
                elif pk == "zero":
                    pol[:] = 0.0
                rowsD.append([d, h]); rowsP.append(pol); rowsX.append(x); strata.append(stratum)
            D, P, X = np.array(rowsD), np.array(rowsP), np.array(rowsX, dtype=float)
            if nrow > 1 and rng.random() < 0.4:  # repeated rows
                for _ in range(rng.randrange(1, 4)):
                    a, b = rng.randrange(nrow), rng.randrange(nrow)
                    D[a], P[a], X[a] = D[b], P[b], X[b]
                    strata[a] = strata[b]
            if rng.random() < 0.3:
                perm = nps.permutation(nrow)
                D, P, X = D[perm], P[perm], X[perm]
                strata = [strata[t] for t in perm]
            lines.append(f"kern cylbatch b {f} {nrow} " + " ".join(f"{bits(D[j, 0])} {bits(D[j, 1])} {enc(P[j])} {enc(X[j])}" for j in range(nrow)))
            m = {"kind": kind, "field": f, "rows": nrow, "shared": shared, "pol": polmode, "line": lines[-1][:80], "strata": strata}
            meta.append(m)
            try:
                with np.errstate(all="ignore"):
                    full = np.asarray(BHJM_magnet_cylinder(f, X.copy(), D.copy(), P.copy()), dtype=float)
                    single = np.array([BHJM_magnet_cylinder(f, X[j:j + 1].copy(), D[j:j + 1].copy(), P[j:j + 1].copy())[0] for j in range(nrow)])
            except RuntimeError:  # cel0 raised (kc == 0): not generated on purpose
                expect.append(("mask", "none", None))
                continue
            # which rows have a `cel` modulus in the band (the formulas of the two kernels, on the rows that reach them)
            with np.errstate(all="ignore"):
                r0a = D[:, 0] / 2
                rr, zz, zz0 = np.hypot(X[:, 0], X[:, 1]) / r0a, X[:, 2] / r0a, D[:, 1] / 2 / r0a
                inband = lambda kk: ~(np.abs(1.0 - np.abs(kk)) > 1.0 * 0.000001)
                kax = [np.sqrt(((zz + s_ * zz0) ** 2 + (1 - rr) ** 2) / ((zz + s_ * zz0) ** 2 + (1 + rr) ** 2)) for s_ in (1, -1)]
                ktv = [np.sqrt(1 - (-4 * rr / ((zz + s_ * zz0) ** 2 + (rr - 1) ** 2))) for s_ in (1, -1)]
                band = ((P[:, 2] != 0) & (inband(kax[0]) | inband(kax[1]))) | (((P[:, 0] != 0) | (P[:, 1] != 0)) & ~(rr < 0.05) & (inband(ktv[0]) | inband(ktv[1])))
            same = np.all((full == single) | (np.isnan(full) & np.isnan(single)), axis=1)
            with np.errstate(all="ignore"):
                nrm = np.maximum(np.linalg.norm(np.nan_to_num(full), axis=1), 1e-300)
                rd = np.where(same, 0.0, np.max(np.abs(np.nan_to_num(full - single)), axis=1) / nrm)
            m["row_ne_batch_off_band"] = int(np.sum(~same & ~band))
            m["row_ne_batch_in_band"] = int(np.sum(~same & band))
            m["band_rows"] = int(np.sum(band))
            m["max_reldiff_row_batch"] = float(np.max(rd)) if nrow else 0.0
            m["n_ax"] = int(np.sum(P[:, 2] != 0))
            m["n_tv_general"] = int(np.sum(((P[:, 0] != 0) | (P[:, 1] != 0)) & ~(rr < 0.05)))
            m["axial_only"] = bool(np.all(P[:, :2] == 0))
            expect.append(("vec", full.ravel(), np.repeat(np.linalg.norm(P, axis=1) * (1 if f in "BJ" else 1 / mu_0), 3) + 1e-300))
            continue
        elif kind in ("cylinder", "cylmask"):
            d, h, x, stratum = cylinder_case(rng, nps, sc)
            dim = np.array([[d, h]])
            if kind == "cylmask":
                probe = np.array([[0.3, 0.5, 0.7]])
                with np.errstate(all="ignore"):
                    inside = bool(np.any(BHJM_magnet_cylinder("J", x[None], dim, probe)[0] != 0))
                    on_edge = bool(np.all(BHJM_magnet_cylinder("B", x[None], dim, probe)[0] == 0))
                lines.append(f"kern cylmask {bits(d)} {bits(h)} {enc(x)}")
                expect.append(("mask", f"{str(inside).lower()} {str(on_edge).lower()}", None))
                meta.append({"kind": kind, "stratum": stratum, "dim": [d, h], "x": x.tolist()})
                continue
            pk = rng.choice(["ax", "tv", "mixed", "mixed", "zero", "tv1"])
            pol = nps.uniform(-1, 1, 3)
            if pk == "ax":
                pol[:2] = 0.0
            elif pk == "tv":
                pol[2] = 0.0
            elif pk == "tv1":
                pol[2] = 0.0
                pol[rng.randrange(2)] = 0.0
            elif pk == "zero":
                pol[:] = 0.0
            lines.append(pre + f"cylinder {f} {bits(d)} {bits(h)} {enc(pol)} {enc(x)}")
            meta.append({"kind": kind, "field": f, "stratum": stratum, "pol": pk, "line": lines[-1][:80], **({"l1": io} if io else {})})
            try:
                with np.errstate(all="ignore"):
                    r = (level1_call(BHJM_magnet_cylinder, f, x, io, dimension=dim, polarization=pol[None]) if io
                         else BHJM_magnet_cylinder(f, x[None], dim, pol[None])[0])
            except RuntimeError:
                expect.append(("mask", "none", None))
                continue
            expect.append(("vec", r, np.linalg.norm(pol) * (1 if f in "BJ" else 1 / mu_0) + 1e-300))
            continue
        elif kind == "cuboid":
            dim, pol = nps.uniform(0.5, 2, 3) * sc, nps.uniform(-1, 1, 3) * rng.choice([1, 1, 1, 0])
            if rng.random() < 0.2:
                pol[rng.randrange(3)] = 0.0
            x = stratified_point(rng, nps, dim / 2)
            r = (level1_call(BHJM_magnet_cuboid, f, x, io, dimension=dim[None], polarization=pol[None]) if io
                 else BHJM_magnet_cuboid(f, x[None], dim[None], pol[None])[0])
            lines.append(pre + f"cuboid {f} {enc(dim)} {enc(pol)} {enc(x)}")
            scale = np.linalg.norm(pol) * (1 if f in "BJ" else 1 / mu_0) + 1e-300
            # arctan2/log cancellation close to faces: compare relative to the polarization scale
        else:
            dim, pol = nps.uniform(0.5, 2, 3) * sc, nps.uniform(-1, 1, 3) * rng.choice([1, 1, 1, 0])
            x = stratified_point(rng, nps, dim / 2)
            J = BHJM_magnet_cuboid("J", x[None], dim[None], pol[None] if np.any(pol) else np.array([[0.0, 0, 0]]))[0]
            # inside mask from J with a non-zero probe polarization; general mask from B != 0 with probe polarization
            probe = np.array([[0.3, 0.5, 0.7]])
            inside = bool(np.any(BHJM_magnet_cuboid("J", x[None], dim[None], probe)[0] != 0))
            Bp = BHJM_magnet_cuboid("B", x[None], dim[None], pol[None])[0]
            edge_or_null = bool(np.all(BHJM_magnet_cuboid("B", x[None], dim[None], probe)[0] == 0))
            general = (not edge_or_null) and bool(np.any(pol != 0))
            lines.append(f"kern cuboidmask {enc(dim)} {enc(pol)} {enc(x)}")
            expect.append(("mask", f"{str(inside).lower()} {str(general).lower()}", None))
            meta.append({"kind": kind, "dim": dim.tolist(), "pol": pol.tolist(), "x": x.tolist()})
            continue
        expect.append(("vec", r, scale))
        meta.append({"kind": kind, "field": f, "line": lines[-1][:80], **({"stratum": tri_stratum} if kind == "triangle" else {}), **({"l1": io} if io else {})})
    out = run_driver(lines)
    stats = {"rows": len(lines), "per_kind": {}, "disagreements": 0, "nonzero_rows": 0, "branch": {}, "cylinder_strata": {},
             "cylinder_max_reldiff": 0.0, "cylseg_case_ids": {}, "cylseg_max_reldiff_by_case_id": {}, "cylseg_max_reldiff_by_kind": {},
             "cylseg_strata": {}, "cylseg_real_code_raised": [], "triangle_strata": {}, "triangle_max_reldiff_by_stratum": {},
             "celbatch": {"batches": 0, "entries": 0, "sizes_below_10": 0, "sizes_from_10": 0, "raised_RuntimeError": 0, "band_entries": 0,
                          "real_alone_ne_batch": 0, "real_cel0_ne_celv_off_band": 0, "real_cel0_ne_celv_in_band": 0, "real_max_reldiff_cel0_celv": 0.0,
                          "model_bit_identical_entries": 0},
             "cylbatch": {"batches": 0, "rows": 0, "sizes_below_10": 0, "sizes_from_10": 0, "ax_subbatch_from_10": 0, "tv_subbatch_from_10": 0, "band_rows": 0,
                          "real_row_ne_batch_off_band": 0, "real_row_ne_batch_in_band": 0, "real_max_reldiff_row_batch": 0.0, "max_reldiff_model": 0.0,
                          "max_reldiff_model_axial_only": 0.0, "strata": {}},
             "el3batch": {"batches": 0, "entries": 0, "sizes_below_10": 0, "sizes_from_10": 0, "el30_raised_ValueError": 0, "real_alone_ne_batch": 0,
                          "nan_entries": 0, "max_reldiff": 0.0}}
    stats["exccancel"] = exc_stats
    samples = []
    for ln, o, (typ, exp, scale), m in zip(lines, out, expect, meta):
        pk_ = ("l1" if m.get("l1") else "") + m["kind"]
        stats["per_kind"][pk_] = stats["per_kind"].get(pk_, 0) + 1
        if m.get("l1"):
            stats.setdefault("in_out_rows", {})
            stats["in_out_rows"][m["l1"]] = stats["in_out_rows"].get(m["l1"], 0) + 1
        if m["kind"] == "celbatch":
            cb = stats["celbatch"]
            cb["batches"] += 1
            cb["entries"] += m["rows"]
            cb["sizes_below_10" if m["rows"] < 10 else "sizes_from_10"] += 1
            cb["raised_RuntimeError"] += typ == "mask"
            cb["band_entries"] += m.get("band_entries", 0)
            cb["real_alone_ne_batch"] += m.get("alone_ne_batch", 0)
            cb["real_cel0_ne_celv_off_band"] += m.get("cel0_ne_celv_off_band", 0)
            cb["real_cel0_ne_celv_in_band"] += m.get("cel0_ne_celv_in_band", 0)
            cb["real_max_reldiff_cel0_celv"] = max(cb["real_max_reldiff_cel0_celv"], m.get("max_reldiff_cel0_celv", 0.0))
            if m.get("alone_ne_batch", 0) or m.get("cel0_ne_celv_off_band", 0):
                # the real celv is not row-wise / differs from cel0 off the band: what Props/C06 proves of the model is false of the code
                stats["disagreements"] += 1
                ctx.broken.append({"kind": "correspondence", "name": "kern:celbatch-rowwise", "detail": {"meta": m}})
        if m["kind"] == "cylbatch":
            yb = stats["cylbatch"]
            yb["batches"] += 1
            yb["rows"] += m["rows"]
            yb["sizes_below_10" if m["rows"] < 10 else "sizes_from_10"] += 1
            yb["ax_subbatch_from_10"] += m.get("n_ax", 0) >= 10
            yb["tv_subbatch_from_10"] += m.get("n_tv_general", 0) >= 10
            yb["band_rows"] += m.get("band_rows", 0)
            yb["real_row_ne_batch_off_band"] += m.get("row_ne_batch_off_band", 0)
            yb["real_row_ne_batch_in_band"] += m.get("row_ne_batch_in_band", 0)
            yb["real_max_reldiff_row_batch"] = max(yb["real_max_reldiff_row_batch"], m.get("max_reldiff_row_batch", 0.0))
            for st_ in m.pop("strata", []):
                yb["strata"][st_] = yb["strata"].get(st_, 0) + 1
            if m.get("row_ne_batch_off_band", 0):
                # a row of the real batch result differs from the call with that row alone although no cel modulus is in the band:
                # what Props/C06 cylinder_batch_rowwise_off_band proves of the model is false of the code
                stats["disagreements"] += 1
                ctx.broken.append({"kind": "correspondence", "name": "kern:cylbatch-rowwise", "detail": {"meta": m}})
        if m["kind"] == "el3batch":
            eb = stats["el3batch"]
            eb["batches"] += 1
            eb["entries"] += m["rows"]
            eb["sizes_below_10" if m["rows"] < 10 else "sizes_from_10"] += 1
            eb["el30_raised_ValueError"] += m.get("el30_ValueError", 0)
            eb["real_alone_ne_batch"] += m["alone_ne_batch"]
            eb["nan_entries"] += int(np.sum(np.isnan(exp)))
            if m["alone_ne_batch"]:
                stats["disagreements"] += 1
                ctx.broken.append({"kind": "correspondence", "name": "kern:el3batch-rowwise", "detail": {"meta": m}})
        if m["kind"] == "triangle":
            stats["triangle_strata"][m["stratum"]] = stats["triangle_strata"].get(m["stratum"], 0) + 1
        elif "stratum" in m and not m["kind"].startswith("cylseg") and m["kind"] != "exccancel":
            for key in (m["stratum"], "pol:" + m["pol"] if "pol" in m else "mask-row"):
                stats["cylinder_strata"][key] = stats["cylinder_strata"].get(key, 0) + 1
        if m["kind"].startswith("cylseg"):
            if m["kind"] == "cylsegcase":
                stats["cylseg_case_ids"][exp] = stats["cylseg_case_ids"].get(exp, 0) + 1
            for part in m.get("stratum", "").split():
                stats["cylseg_strata"][part] = stats["cylseg_strata"].get(part, 0) + 1
            if "raised" in m and len(stats["cylseg_real_code_raised"]) < 5:
                stats["cylseg_real_code_raised"].append(m)
        if typ == "hang":
            ok, got = False, "real code did not return within the watchdog time"
        elif typ == "block":
            cid, blk = exp
            toks = o.split()
            got = o
            if not toks or toks[0] != str(cid):
                ok = False
            elif blk is None:
                ok = toks[1:] == ["none"]
                stats["branch"]["unhandled-case-id"] = stats["branch"].get("unhandled-case-id", 0) + 1
            else:
                try:
                    got = np.array([unbits(t) for t in toks[1:]]).reshape(3, 3)
                except Exception:
                    ok = False
                else:
                    if "raised" in m:  # the real call raised: the model shows NaN in the entry concerned
                        ok = bool(np.any(np.isnan(got)))
                    else:
                        fin = blk[np.isfinite(blk)]
                        bsc = max(float(np.max(np.abs(fin))) if fin.size else 0.0, 1e-300)
                        same = (np.isnan(got) & np.isnan(blk)) | (got == blk)
                        with np.errstate(all="ignore"):
                            rd = np.where(same, 0.0, np.abs(got - blk) / np.maximum(np.maximum(np.abs(got), np.abs(blk)), bsc))
                        ok = bool(np.all(rd <= 1e-10))
                        if ok:
                            key = str(cid)
                            stats["cylseg_max_reldiff_by_case_id"][key] = max(stats["cylseg_max_reldiff_by_case_id"].get(key, 0.0), float(np.max(rd)))
                        if np.any(blk != 0):
                            stats["nonzero_rows"] += 1
        elif typ == "mask":
            stats["branch"][exp] = stats["branch"].get(exp, 0) + 1
            ok = o == exp
            got = o
        elif m["kind"].startswith("cylseg"):
            try:
                got = np.full(len(exp), np.nan) if o == "none" else np.array([unbits(t) for t in o.split()])
            except Exception:
                got, ok = o, False
            else:
                if "raised" in m:
                    ok = bool(np.any(np.isnan(got)))
                else:
                    tol = {"cylsegH": 1e-9, "cylsegell": 1e-13, "cylsegel3": 1e-10, "cylsegatan": 1e-13}.get(m["kind"], 1e-8 if "obs:bore" in m.get("stratum", "") else 1e-10)
                    same = (np.isnan(got) & np.isnan(exp)) | (got == exp)
                    with np.errstate(all="ignore"):
                        rd = np.where(same, 0.0, np.abs(got - exp) / np.maximum(np.maximum(np.abs(got), np.abs(exp)), scale))
                    ok = bool(np.all(rd <= tol))
                    if ok:
                        mx = float(np.max(rd))
                        stats["cylseg_max_reldiff_by_kind"][m["kind"]] = max(stats["cylseg_max_reldiff_by_kind"].get(m["kind"], 0.0), mx)
                        if m["kind"] == "cylsegH":
                            for cid in m.get("ids", []):
                                key = "H:" + str(cid)
                                stats["cylseg_max_reldiff_by_case_id"][key] = max(stats["cylseg_max_reldiff_by_case_id"].get(key, 0.0), mx)
                    if np.any(np.isnan(exp)):
                        stats["branch"]["nan-row"] = stats["branch"].get("nan-row", 0) + 1
                    if np.any(exp != 0) and not np.all(np.isnan(exp)):
                        stats["nonzero_rows"] += 1
        else:
            try:
                got = np.array([unbits(t) for t in o.split()])
            except Exception:
                got = o
                ok = False
            else:
                both_nan = np.isnan(got) & np.isnan(exp)
                tol = m["tol"] if "tol" in m else (1e-3 if m.get("stratum") == "near-edge-line" else 1e-12) if m["kind"] in ("triangle", "tetra") else 1e-12 if m["kind"] in ("cel0", "celiter", "el3batch") else 1e-15 if m["kind"] == "celbatch" else 1e-9 if m["kind"] == "cylinder" else (1e-14 if m.get("axial_only") else 1e-10) if m["kind"] == "cylbatch" else 1e-10  # triangle sheets (repaired edge integral): same operations in the same order, agreement to a few ulp; only within 1e-12..1e-4 edge lengths of an edge line the cancellation in solid_angle (N, D of the arctan2) amplifies the different summation order of einsum; cylinder: scipy ellipk/ellipe vs their cel0 forms
                if m["kind"] == "cylinder" and np.shape(got) == np.shape(exp) and not np.any(both_nan):
                    with np.errstate(all="ignore"):
                        rd = np.abs(got - exp) / np.maximum(np.maximum(np.abs(got), np.abs(exp)), scale)
                    if np.all(np.isfinite(rd)):
                        stats["cylinder_max_reldiff"] = max(stats["cylinder_max_reldiff"], float(np.max(rd)))
                if m["kind"] == "el3batch" and np.shape(got) == np.shape(exp):
                    with np.errstate(all="ignore"):
                        rd = np.where(both_nan | (got == exp), 0.0, np.abs(got - exp) / np.maximum(np.abs(got), np.abs(exp)))
                    if np.all(np.isfinite(rd)):
                        stats["el3batch"]["max_reldiff"] = max(stats["el3batch"]["max_reldiff"], float(np.max(rd)))
                if m["kind"] == "cylbatch" and np.shape(got) == np.shape(exp) and not np.any(both_nan):
                    with np.errstate(all="ignore"):
                        rd = np.abs(got - exp) / np.maximum(np.maximum(np.abs(got), np.abs(exp)), scale)
                    if np.all(np.isfinite(rd)):
                        key = "max_reldiff_model_axial_only" if m.get("axial_only") else "max_reldiff_model"
                        stats["cylbatch"][key] = max(stats["cylbatch"][key], float(np.max(rd)))
                if m["kind"] == "celbatch" and np.shape(got) == np.shape(exp):
                    stats["celbatch"]["model_bit_identical_entries"] += int(np.sum(both_nan | (got == exp)))
                if m["kind"] in ("triangle", "tetra") and np.shape(got) == np.shape(exp):
                    m.setdefault("stratum", m["kind"])
                    with np.errstate(all="ignore"):
                        rd = np.where(both_nan | (got == exp), 0.0, np.abs(got - exp) / np.maximum(np.maximum(np.abs(got), np.abs(exp)), scale))
                    rdm = float(np.max(rd)) if np.all(np.isfinite(rd)) else float("inf")
                    stats["triangle_max_reldiff_by_stratum"][m["stratum"]] = max(stats["triangle_max_reldiff_by_stratum"].get(m["stratum"], 0.0), rdm)
                with np.errstate(all="ignore"):
                    ok = bool(np.all(both_nan | (got == exp) | (np.abs(got - exp) <= tol * np.maximum(np.maximum(np.abs(got), np.abs(exp)), scale))))
                if np.any(exp != 0):
                    stats["nonzero_rows"] += 1
        if not ok:
            stats["disagreements"] += 1
            if stats["disagreements"] <= 3:
                ctx.broken.append({"kind": "correspondence", "name": "kern:" + m["kind"],
                                   "detail": {"meta": m, "model": str(got), "real": str(exp), "maxreldiff": float(np.max(np.abs(np.asarray(got, dtype=float) - exp)) / max(np.max(np.abs(exp)), float(np.max(scale)))) if (typ == "vec" and not isinstance(got, str)) else None}})
        elif len(samples) < 3 and typ == "vec":
            samples.append({**m, "real": np.asarray(exp).tolist()})
    stats["samples"] = samples
    return stats
