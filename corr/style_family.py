"""correspondence stream `style` (C20): the REAL functions `magic_to_dict`, `linearize_dict`, `update_nested_dict`
(magpylib._src.defaults.defaults_utility) and `MagicProperties.update` (on property classes built for a random
schema) against Model/StyleNested.lean on random nested dictionaries / magic keyword dictionaries — keys from a
small alphabet with and without separators, depth <= 4, None and integer leaves, and the error-provoking shapes
(non-dict argument, non-string keys, a key used both as leaf and as branch).  Results, insertion order included,
and the class of the raised exception are compared exactly; the real functions must also leave their arguments
unchanged, and which dictionaries of the result are the same objects as dictionaries of the arguments is compared
with the address-labelled model."""
import copy

from vlib.driver import run_driver

ERR = {AssertionError: "err assertion", AttributeError: "err attribute", ValueError: "err value"}
SEGS = ["a", "b", "c"]


# ---------------------------------------------------------------- encoding (grammar of lean/Driver/StyleFam.lean)
def enc_key(k):
    return ("s" + k) if isinstance(k, str) else ("i" + str(k))


def enc(t):
    if isinstance(t, dict):
        return " ".join([f"D {len(t)}"] + [enc_key(k) + " " + enc(v) for k, v in t.items()])
    if t is None:
        return "N"
    return f"L {t}"


def call(f, *a, **kw):
    try:
        return "ok " + enc(f(*a, **kw))
    except Exception as e:  # noqa: BLE001
        return ERR.get(type(e), f"err other:{type(e).__name__}")


# ---------------------------------------------------------------- generators
def gen_leaf(rng):
    return None if rng.random() < 0.3 else rng.choice([0, 0, 0, 1, 2, 3, 4, 5, 6, 7, 8, 9])


def gen_key(rng, sep, p_int, p_sep):
    if rng.random() < p_int:
        return rng.choice([0, 1, -2, 7])
    n = 1
    while n < 4 and rng.random() < p_sep:
        n += 1
    segs = [("" if rng.random() < 0.04 else rng.choice(SEGS)) for _ in range(n)]
    other = "." if sep == "_" else "_"
    return (other if rng.random() < 0.05 else sep).join(segs) if rng.random() < 0.9 else sep.join(segs) + rng.choice(["", sep, other])


def gen_tree(rng, depth, sep, p_int, p_sep, p_leaf=0.45):
    if depth == 0 or rng.random() < p_leaf:
        return gen_leaf(rng)
    n = rng.choice([0, 1, 1, 2, 2, 3, 3, 4])
    d = {}
    for _ in range(n):
        d[gen_key(rng, sep, p_int, p_sep)] = gen_tree(rng, depth - 1, sep, p_int, p_sep)
    return d


def conflict_shapes(sep):
    """a key used both as leaf and as branch, in every order; merges into given dicts; deep re-splitting"""
    s = sep
    return [
        {"a": 1, f"a{s}b": 2},
        {f"a{s}b": 2, "a": 1},
        {"a": {"x": 1}, f"a{s}b": 2},
        {f"a{s}b": 2, "a": {"x": 1}},
        {f"a{s}b{s}c": 1, f"a{s}b": 2},
        {f"a{s}b": 2, f"a{s}b{s}c": 1},
        {"a": {f"x{s}y": 1}, f"a{s}x{s}z": 2, f"a{s}x": 3},
        {"a": None, f"a{s}b": None},
        {f"a{s}b": 1, f"a{s}b{s}": 2, f"a{s}{s}b": 3, s: 4, "": 5},
        {"a": {f"b{s}c": {"d": 1}}, f"a{s}b": {f"c{s}e": 2}},
        {"a": {}, f"a{s}b": 1},
        {f"a{s}b": 1, 3: 2},
        {"a": {2: 1}},
        {"a": {"b": {1: {}}}},
        {},
        {f"a{s}b": {}, f"a{s}b{s}c": 1},
    ]


def gen_magic_case(rng, i):
    sep = "_" if rng.random() < 0.7 else "."
    shapes = conflict_shapes(sep)
    if i < 2 * len(shapes):
        return ("_" if i % 2 == 0 else "."), conflict_shapes("_" if i % 2 == 0 else ".")[i // 2]
    r = rng.random()
    if r < 0.03:
        return sep, gen_leaf(rng)
    p_int = 0.04 if r < 0.25 else 0.0
    t = gen_tree(rng, rng.choice([1, 2, 3, 4]), sep, p_int, 0.55, p_leaf=0.0 if r > 0.1 else 0.45)
    return sep, t


def mutate(rng, d, depth):
    """a dictionary sharing part of `d`'s shape: leaves changed, dropped, swapped with dicts, new keys"""
    if not isinstance(d, dict):
        return gen_tree(rng, depth, "_", 0.0, 0.0)
    out = {}
    items = list(d.items())
    rng.shuffle(items)
    for k, v in items:
        r = rng.random()
        if r < 0.3:
            continue
        if r < 0.65:
            out[k] = mutate(rng, v, depth - 1)
        elif r < 0.8:
            out[k] = gen_leaf(rng)
        elif r < 0.9:  # a dict with nested dicts where `d` may have a non-dict value (`u.copy()` is shallow)
            out[k] = {rng.choice(SEGS): gen_tree(rng, 2, "_", 0.0, 0.0, p_leaf=0.1) for _ in range(rng.choice([1, 2]))}
        else:
            out[k] = gen_tree(rng, max(depth - 1, 0), "_", 0.0, 0.0)
    for _ in range(rng.choice([0, 0, 1, 2])):
        out[gen_key(rng, "_", 0.02, 0.1)] = gen_tree(rng, max(depth - 1, 0), "_", 0.0, 0.1)
    return out


def gen_update_case(rng):
    r = rng.random()
    depth = rng.choice([1, 2, 3, 4])
    d = gen_leaf(rng) if r < 0.06 else gen_tree(rng, depth, "_", 0.02, 0.1, p_leaf=0.0 if r > 0.15 else 0.45)
    r2 = rng.random()
    if r2 < 0.05:
        u = gen_leaf(rng)
    elif r2 < 0.8:
        u = mutate(rng, d, depth)
    else:
        u = gen_tree(rng, depth, "_", 0.02, 0.1)
    return rng.random() < 0.5, rng.random() < 0.5, d, u


# ---------------------------------------------------------------- object identity of result dictionaries
def dict_nodes(t):
    """all dict objects of a nested dict in preorder"""
    if isinstance(t, dict):
        yield t
        for v in t.values():
            yield from dict_nodes(v)


def enc_sharing(res, d, u):
    """for every dict object of the result (preorder): the preorder number (d first, from 1, then u) of the argument
    dict it is identical with, 0 if it is a new object"""
    num = {}
    for o in list(dict_nodes(d)) + list(dict_nodes(u)):
        num[id(o)] = len(num) + 1
    return " ".join(["share"] + [str(num.get(id(o), 0)) for o in dict_nodes(res)])


# ---------------------------------------------------------------- MagicProperties on a random schema
_CLASS_COUNTER = [0]


def make_class(schema):
    """a MagicProperties subclass whose properties are the keys of `schema` (dict: sub-object, None: plain leaf)"""
    from magpylib._src.defaults.defaults_utility import MagicProperties, validate_property_class

    ns = {}
    for name, sub in schema.items():
        priv = "_" + name
        if isinstance(sub, dict):
            cls = make_class(sub)

            def setter(self, val, priv=priv, name=name, cls=cls):
                setattr(self, priv, validate_property_class(val, name, cls, self))
        else:

            def setter(self, val, priv=priv):
                setattr(self, priv, val)

        ns[name] = property(lambda self, priv=priv: getattr(self, priv), setter)
    _CLASS_COUNTER[0] += 1
    return type(f"Gen{_CLASS_COUNTER[0]}", (MagicProperties,), ns)


def gen_schema(rng, depth):
    n = rng.choice([1, 2, 2, 3])
    names = rng.sample(["a", "b", "c", "d"], n)
    return {k: (gen_schema(rng, depth - 1) if depth > 0 and rng.random() < 0.45 else None) for k in names}


def fill(rng, schema, p_none):
    """a nested dict of the schema's shape (keys sorted, the order `as_dict` uses) with random leaves"""
    return {k: (fill(rng, schema[k], p_none) if isinstance(schema[k], dict) else (None if rng.random() < p_none else rng.randrange(10))) for k in sorted(schema)}


def flat_keys(schema, pre=()):
    for k, v in schema.items():
        if isinstance(v, dict):
            yield pre + (k,)
            yield from flat_keys(v, pre + (k,))
        else:
            yield pre + (k,)


def gen_mp_arg(rng, schema):
    """update arguments: mostly existing paths in one of the notations, sometimes unknown names, wrong kinds"""
    paths = list(flat_keys(schema))
    out = {}
    for _ in range(rng.choice([0, 1, 1, 2, 3])):
        p = list(rng.choice(paths))
        r = rng.random()
        if r < 0.12:
            p[rng.randrange(len(p))] = rng.choice(["x", "a", "b"])
        elif r < 0.2:
            p.append(rng.choice(["x", "a"]))
        sub = schema
        for k in p:
            sub = sub.get(k) if isinstance(sub, dict) else None
        r = rng.random()
        if isinstance(sub, dict) and r < 0.5:
            val = fill(rng, sub, 0.3) if r < 0.3 else (None if r < 0.4 else mutate(rng, fill(rng, sub, 0.3), 2))
        else:
            val = gen_leaf(rng) if r < 0.9 else {rng.choice(["a", "x", "a_b", "x_a_b"]): gen_leaf(rng)}  # a dict as value of a plain property
        cut = rng.randrange(len(p) + 1)  # underscore notation for the first `cut` keys, nested dicts below
        v = val
        for k in reversed(p[cut:]):
            v = {k: v}
        if cut == 0:
            if isinstance(v, dict):
                out.update(v)
        else:
            out["_".join(p[:cut])] = v
    return out


def gen_mp_case(rng):
    schema = gen_schema(rng, 3)
    cur = fill(rng, schema, 0.4)
    arg = gen_mp_arg(rng, schema) if rng.random() < 0.6 else None
    if arg is not None and rng.random() < 0.03:
        arg = gen_leaf(rng)
    kwargs = gen_mp_arg(rng, schema) if (arg is None or rng.random() < 0.4) else {}
    kwargs = {k: v for k, v in kwargs.items() if isinstance(k, str)}
    return schema, cur, arg, kwargs, rng.random() < 0.6, rng.random() < 0.35


def enc_schema(s):
    return enc({k: (v if isinstance(v, dict) else None) for k, v in s.items()}) if isinstance(s, dict) else "N"


def schema_sorted(s):
    return {k: (schema_sorted(s[k]) if isinstance(s[k], dict) else None) for k in sorted(s)}


def real_mp(schema, cur, arg, kwargs, match, rno):
    cls = make_class(schema)
    try:
        obj = cls(**copy.deepcopy(cur))
    except Exception as e:  # noqa: BLE001
        return "setup-failed " + type(e).__name__
    try:
        obj.update(copy.deepcopy(arg), _match_properties=match, _replace_None_only=rno, **copy.deepcopy(kwargs))
    except Exception as e:  # noqa: BLE001
        return ERR.get(type(e), f"err other:{type(e).__name__}")
    return "ok " + enc(obj.as_dict())


def leaf_paths(schema, pre=()):
    for k, v in schema.items():
        if isinstance(v, dict):
            yield from leaf_paths(v, pre + (k,))
        else:
            yield pre + (k,)


def gen_resolve_case(rng):
    """get_style's two updates on an object of a random property class: show() keywords for existing leaves, then flat
    defaults (existing leaves and unknown names) with _match_properties=False, _replace_None_only=True"""
    schema = gen_schema(rng, 3)
    cur = fill(rng, schema, 0.5)
    leaves = list(leaf_paths(schema))
    kw = {"_".join(p): gen_leaf(rng) for p in rng.sample(leaves, rng.randrange(0, min(3, len(leaves)) + 1))}
    dflt = {"_".join(p): gen_leaf(rng) for p in rng.sample(leaves, rng.randrange(0, len(leaves) + 1))}
    for _ in range(rng.choice([0, 1, 2])):
        p = list(rng.choice(leaves))
        p[rng.randrange(len(p))] = "x"
        dflt["_".join(p)] = gen_leaf(rng)
    return schema, cur, kw, dflt


def real_resolve(schema, cur, kw, dflt):
    cls = make_class(schema)
    try:
        obj = cls(**copy.deepcopy(cur))
        if obj.as_dict() != cur:
            return "setup-failed as_dict"
    except Exception as e:  # noqa: BLE001
        return "setup-failed " + type(e).__name__
    try:
        style = obj.copy()
        style.update(**kw, _match_properties=True)
        style.update(**dflt, _match_properties=False, _replace_None_only=True)
    except Exception as e:  # noqa: BLE001
        return ERR.get(type(e), f"err other:{type(e).__name__}")
    return "ok " + enc(style.as_dict())


# ---------------------------------------------------------------- the stream
def run_stream(ctx, n):
    from magpylib._src.defaults.defaults_utility import linearize_dict, magic_to_dict, update_nested_dict

    rng = ctx.rng
    lines, real, info, fails = [], [], [], []
    stats = {"cases": 0, "magic": 0, "linearize": 0, "update": 0, "update_sharing": 0, "mp_update": 0, "resolve": 0, "errors": {}, "flags": {}, "disagreements": 0,
             "leaf_and_branch_conflicts": 0, "inputs_modified": 0}

    def add(kind, line, res, inp):
        lines.append(line)
        real.append(res)
        info.append((kind, inp))
        stats[kind] += 1
        if res.startswith("err"):
            stats["errors"][f"{kind}:{res[4:]}"] = stats["errors"].get(f"{kind}:{res[4:]}", 0) + 1

    def unchanged(kind, before, after, inp):
        if enc_all(before) != enc_all(after):
            stats["inputs_modified"] += 1
            if stats["inputs_modified"] <= 3:
                fails.append({"key": f"{kind}-modifies-argument", "desc": f"{kind} changed its argument: {before!r} -> {after!r}",
                              "replay": {"function": kind, "input": repr(inp)}})

    def enc_all(ts):
        return [enc(t) for t in ts]

    n_magic = n_lin = max(n // 4, 40)
    n_upd = max(n // 3, 40)
    n_mp = max(n - n_magic - n_lin - n_upd, 40)
    for i in range(n_magic):
        sep, t = gen_magic_case(rng, i)
        t0 = copy.deepcopy(t)
        if isinstance(t, dict):
            firsts = [k.split(sep)[0] for k in t if isinstance(k, str)]
            stats["leaf_and_branch_conflicts"] += len(set(firsts)) < len(firsts)
        add("magic", f"style magic {ord(sep)} {enc(t)}", call(magic_to_dict, t, separator=sep), (sep, t0))
        unchanged("magic_to_dict", [t0], [t], (sep, t0))
        try:
            res = magic_to_dict(t, separator=sep)
            if {id(o) for o in dict_nodes(res)} & {id(o) for o in dict_nodes(t)}:
                stats["magic_result_shares_argument_dict"] = stats.get("magic_result_shares_argument_dict", 0) + 1
        except Exception:  # noqa: BLE001
            pass
    for i in range(n_lin):
        sep, t = gen_magic_case(rng, i)
        if rng.random() < 0.5 and isinstance(t, dict):  # linearize what magic_to_dict returns (the round trip of the theorems)
            try:
                t = magic_to_dict(t, separator=sep)
            except Exception:  # noqa: BLE001
                pass
        t0 = copy.deepcopy(t)
        add("linearize", f"style lin {ord(sep)} {enc(t)}", call(linearize_dict, t, separator=sep), (sep, t0))
        unchanged("linearize_dict", [t0], [t], (sep, t0))
    for i in range(n_upd):
        sko, rno, d, u = gen_update_case(rng)
        d0, u0 = copy.deepcopy(d), copy.deepcopy(u)
        stats["flags"][f"sko={int(sko)},rno={int(rno)}"] = stats["flags"].get(f"sko={int(sko)},rno={int(rno)}", 0) + 1
        add("update", f"style upd {int(sko)} {int(rno)} {enc(d)} {enc(u)}", call(update_nested_dict, d, u, same_keys_only=sko, replace_None_only=rno), (sko, rno, d0, u0))
        unchanged("update_nested_dict", [d0, u0], [d, u], (sko, rno, d0, u0))
        # object identity: which result dicts are dicts of the arguments
        try:
            res = update_nested_dict(d, u, same_keys_only=sko, replace_None_only=rno)
            add("update_sharing", f"style share {int(sko)} {int(rno)} {enc(d)} {enc(u)}", enc_sharing(res, d, u), (sko, rno, d0, u0))
        except Exception:  # noqa: BLE001
            pass
    for i in range(n_mp):
        schema, cur, arg, kwargs, match, rno = gen_mp_case(rng)
        res = real_mp(schema, cur, arg, kwargs, match, rno)
        if res.startswith("setup-failed"):
            continue
        line = f"style mp {int(match)} {int(rno)} {enc_schema(schema_sorted(schema))} {enc(cur)} {'-' if arg is None else 'A ' + enc(arg)} {enc(kwargs)}"
        add("mp_update", line, res, (schema, cur, arg, kwargs, match, rno))

    for i in range(max(n // 6, 30)):
        schema, cur, kw, dflt = gen_resolve_case(rng)
        res = real_resolve(schema, cur, kw, dflt)
        if res.startswith("setup-failed"):
            continue
        add("resolve", f"style resolve {ord('_')} {enc(cur)} {enc(kw)} {enc(dflt)}", res, (schema, cur, kw, dflt))

    out = run_driver(lines)
    seen = set()
    for line, r, m, (kind, inp) in zip(lines, real, out, info):
        seen.add((kind, r))
        if r.strip() != m.strip():
            stats["disagreements"] += 1
            if stats["disagreements"] <= 3:
                ctx.broken.append({"kind": "correspondence", "name": "style", "detail": {"function": kind, "line": line, "input": repr(inp), "real": r, "model": m}})
    stats["cases"] = len(lines)
    stats["distinct"] = len(seen)
    stats["samples"] = [{"line": lines[k], "real": real[k], "model": out[k]} for k in (0, len(lines) // 2, len(lines) - 1)]
    return stats, fails
