"""correspondence stream `scopy` (C20, "styles of COPIES are independent"): random histories on the real
`magpylib.defaults` and on the `.style` of real objects in which some steps are COPIES made through the public API

    b = a.copy()                                   (BaseGeo.copy: deepcopy, then `b.style.label = <'Cuboid_01' / suffix>`)
    b = a.copy(style={...}, style_<magic>=value)   (… then `b.style.update(processed keywords)`; raises -> no new object)
    s = X.copy()                                   (MagicProperties.copy of a style object / of magpylib.defaults: a detached style)

against Model/StyleCopy.lean (driver family `scopy`, which wraps the state machine Model/StyleState.lean).  The copy
becomes a new object of the world that later operations target (update / attribute assignment / `style = …` / reads —
generated with the generators of corr/stylestate_family.py); operations on the original continue.  After EVERY operation
the outcome and the full `as_dict()` of the object touched (for a copy: of the NEW object) are compared exactly with the
model, at the end the trees of all objects.

The label of a copy.  `BaseGeo.copy` assigns a computed string ('Cuboid_01', 'txt_01', …) that is not in the value panel
of the schema.  The model's operation takes the assigned value as a parameter: the stream reads it off the real copy
(None when the code skips the assignment because the style did not exist yet) and passes it on; a string OUTSIDE the
panel is replaced — in the parameter and wherever the real side shows the top-level `label` leaf of an object's style —
by the panel string 'txt' (MASK).  The label computation itself (`add_iteration_suffix`) is therefore not compared.

Observed on the real heap in addition (no model): right after a copy no property object is reachable from both the
original's and the copy's style; after every operation the `as_dict()` of every OTHER object is what it was before.
`magpylib.defaults` is reset before and after every history (try/finally)."""
from corr.stylestate_family import (ERRK, class_at, clean_shadows, enc_key, enc_model, enc_op, enc_path, enc_val, gen_entry,
                                    gen_rejected_update, gen_setattr, gen_update, make_object, prop_objects, schema, sub_paths, to_real)
from vlib.driver import run_driver

MASK_VALUE = "txt"


def mask_index(P):
    return P["index"][P["canon"](MASK_VALUE)]


def masked(P, v, copy_labels):
    """a top-level label that is one of the strings outside the panel that `copy` assigned in this history -> the mask
    string (any other value outside the panel stays `L 9999`: the history is skipped, as in the stream `sstate`)"""
    if isinstance(v, str) and v in copy_labels:
        return MASK_VALUE
    return v


def enc_root(P, d, is_obj, copy_labels):
    if is_obj and isinstance(d, dict) and "label" in d:
        d = dict(d)
        d["label"] = masked(P, d["label"], copy_labels)
    return enc_val(P, d)


def enc_opc(op):
    if op[0] == "C":
        return f"C {op[1]} {enc_model(op[2])}"
    if op[0] == "CK":
        _, i, lab, arg, kwargs = op
        return f"CK {i} {enc_model(lab)} {'-' if arg is None else 'A ' + enc_model(arg)} {enc_model(kwargs)}"
    if op[0] == "CS":
        return f"CS {op[1]}"
    return enc_op(op)


def enc_history(P, objs, ops):
    seen = []
    for c in [P["root"]] + [c for _, c in P["objects"]]:
        if c not in seen:
            seen.append(c)
    cls = [seen.index(P["objects"][o][1]) for o in objs]
    return " ".join(["scopy hist", str(len(objs)), *map(str, cls), str(len(ops)), *[enc_opc(o) for o in ops]])


def gen_base(rng, P, world, i):
    """one operation of the `sstate` alphabet on entry `i` of the current world"""
    kind, cls = world[i]["kind"], world[i]["cls"]
    r = rng.random()
    if r < 0.12:
        return gen_rejected_update(rng, P, i, cls)
    if r < 0.42:
        return gen_update(rng, P, i, cls)
    if r < 0.74:
        return gen_setattr(rng, P, i, cls)
    if r < 0.80 and kind == "defaults":
        return ("R",) if rng.random() < 0.65 else ("RS",)
    if r < 0.88 and kind == "object":
        rr = rng.random()
        if rr < 0.25:
            v = None
        elif rr < 0.35:
            v = rng.randrange(len(P["panel"]))
        else:
            v = {}
            for _ in range(rng.choice([0, 1, 2])):
                q, x = gen_entry(rng, P, cls)
                for k in reversed(q[1:]):
                    x = {k: x}
                v[q[0]] = x
        return ("Y", i, v)
    if r < 0.91 and kind == "object":
        others = [k for k, e in enumerate(world) if e["kind"] in ("object", "style") and k != 0]
        return ("YO", i, rng.choice(others))
    subs = [()] + [p for p, _, _ in sub_paths(P, cls)]
    q = list(rng.choice(subs))
    if rng.random() < 0.05:
        q.append("bogus")
    return ("G", i, q)


def gen_copy_kwargs(rng, P, cls):
    """(style=, style_* keywords) for `copy`: a positional-dict / keyword pair as for `update` on the root"""
    for _ in range(30):
        op = gen_rejected_update(rng, P, 0, cls) if rng.random() < 0.25 else gen_update(rng, P, 0, cls)
        _, _, recv, arg, kwargs, _, _ = op
        if recv == [] and (arg is None or isinstance(arg, dict)) and (arg is not None or kwargs) and all(isinstance(k, str) for k in kwargs):
            return arg, kwargs
    return None, {"opacity": None}


def run_history(rng, P, pristine, stats):
    """generate a history step by step WHILE running it on the real objects (whether `copy(style_…)` creates an object is
    only known afterwards); returns (objs, ops, real line, notes)"""
    import magpylib as magpy
    from magpylib._src.defaults.defaults_utility import MagicProperties

    M = mask_index(P)
    magpy.defaults.reset()
    outs, notes, ops, copy_labels = [], [], [], set()
    n = rng.choice([1, 1, 2, 2, 3])
    objs = [rng.randrange(len(P["objects"])) for _ in range(n)]
    try:
        world = [{"kind": "defaults", "cls": P["root"], "owner": None, "style": magpy.defaults, "src": None}]
        for o in objs:
            world.append({"kind": "object", "cls": P["objects"][o][1], "owner": make_object(P["objects"][o][0]), "style": None, "src": None})

        def root(i):
            e = world[i]
            return e["owner"].style if e["kind"] == "object" else e["style"]

        def tree(i):
            return enc_root(P, root(i).as_dict(), i != 0 and world[i]["cls"] != P["root"], copy_labels)

        def unborn(i):
            o = world[i]["owner"]
            return world[i]["kind"] == "object" and getattr(o, "_style", None) is None and not getattr(o, "_style_kwargs", None)

        def lab_of(obj):
            lab = obj.style.label
            if lab is None:
                return None
            idx = P["index"].get(P["canon"](lab))
            if idx is None:
                stats["labels_masked"] += 1
                copy_labels.add(lab)
                return M
            return idx

        def heap_disjoint(a, b, what):
            stats["copy_heap_pairs_checked"] += 1
            shared = set(prop_objects(root(a))) & set(prop_objects(root(b)))
            if shared:
                notes.append(("copy-shares-style-objects", f"{what}: objects {a} and {b} share {len(shared)} property objects"))

        steps = rng.choice([3, 4, 6, 8, 12, 16])
        for step in range(steps):
            r = rng.random()
            copies = [k for k, e in enumerate(world) if e["src"] is not None]
            if r < 0.24 or (step == 0 and r < 0.6):
                src_obj = [k for k, e in enumerate(world) if e["kind"] == "object"]
                rr = rng.random()
                if rr < 0.12:
                    op = ("CS", rng.randrange(len(world)))
                elif rr < 0.62:
                    op = ("C", rng.choice(src_obj), None)
                else:
                    i = rng.choice(src_obj)
                    arg, kwargs = gen_copy_kwargs(rng, P, world[i]["cls"])
                    op = ("CK", i, None, arg, kwargs)
            elif r < 0.30:                             # the process-global defaults change under the copies' feet
                op = ("R",) if rng.random() < 0.6 else ("RS",)
            else:
                if copies and rng.random() < 0.7:      # prefer the copies and what they were copied from
                    k = rng.choice(copies)
                    i = k if rng.random() < 0.55 else world[k]["src"]
                else:
                    i = rng.randrange(len(world))
                op = gen_base(rng, P, world, i)
            # snapshot of every object (not of an object whose style does not exist yet: looking at it would create it)
            before = [None if unborn(k) else tree(k) for k in range(len(world))]
            touched = 0
            try:
                if op[0] in ("C", "CK"):
                    i = op[1]
                    touched = i
                    src = world[i]["owner"]
                    lazy = unborn(i)
                    if op[0] == "C":
                        new = src.copy()
                    else:
                        kw = {"style_" + k: v for k, v in to_real(P, op[4]).items()}
                        if op[3] is not None:
                            kw = {"style": to_real(P, op[3]), **kw}
                        # the label the code assigns is read off a plain copy first (the same computation; `copy` has no state)
                        try:
                            new = src.copy(**kw)
                        except Exception:
                            probe = src.copy()
                            op = ("CK", i, lab_of(probe), op[3], op[4])
                            raise
                    stats["lazy_style_copies"] += int(lazy)
                    lab = lab_of(new) if op[0] == "C" else lab_of(src.copy())
                    op = ("C", i, lab) if op[0] == "C" else ("CK", i, lab, op[3], op[4])
                    world.append({"kind": "object", "cls": world[i]["cls"], "owner": new, "style": None, "src": i})
                    touched = len(world) - 1
                    heap_disjoint(i, touched, "obj.copy()")
                    stats["copies"] += 1
                    res = "ok"
                elif op[0] == "CS":
                    i = op[1]
                    touched = i
                    new = root(i).copy()
                    world.append({"kind": "style", "cls": world[i]["cls"], "owner": None, "style": new, "src": i})
                    touched = len(world) - 1
                    heap_disjoint(i, touched, "style.copy()")
                    stats["style_copies"] += 1
                    res = "ok"
                elif op[0] == "U":
                    _, i, recv, arg, kwargs, mt, rno = op
                    touched = i
                    x = root(i)
                    for k in recv:
                        x = getattr(x, k)
                    x.update(to_real(P, arg), _match_properties=mt, _replace_None_only=rno, **to_real(P, kwargs))
                    res = "err shadow" if clean_shadows(root(i)) else "ok"
                elif op[0] == "S":
                    _, i, recv, name, v = op
                    touched = i
                    x = root(i)
                    for k in recv:
                        x = getattr(x, k)
                    if isinstance(x, MagicProperties) and not isinstance(getattr(type(x), name, None), property):
                        saved = dict(vars(x))
                        try:
                            setattr(x, name, to_real(P, v))
                            res = "err shadow"
                        except AttributeError:
                            res = "err attribute"
                        except Exception:  # noqa: BLE001
                            res = "err shadow"
                        finally:
                            vars(x).clear()
                            vars(x).update(saved)
                    else:
                        setattr(x, name, to_real(P, v))
                        res = "ok"
                elif op[0] == "R":
                    magpy.defaults.reset()
                    res = "ok"
                elif op[0] == "RS":
                    magpy.defaults.display.style.reset()
                    res = "ok"
                elif op[0] == "Y":
                    touched = op[1]
                    world[op[1]]["owner"].style = to_real(P, op[2])
                    res = "ok"
                elif op[0] == "YO":
                    touched = op[1]
                    world[op[1]]["owner"].style = root(op[2])
                    res = "ok"
                else:
                    _, i, q = op
                    touched = i
                    x = root(i)
                    for k in q:
                        x = getattr(x, k)
                    is_obj = i != 0 and world[i]["cls"] != P["root"]
                    if isinstance(x, MagicProperties):
                        res = "val " + enc_root(P, x.as_dict(), is_obj and q == [], copy_labels)
                    else:
                        res = "val " + enc_val(P, masked(P, x, copy_labels) if (is_obj and q == ["label"]) else x)
            except Exception as e:  # noqa: BLE001
                res = "err " + ERRK.get(type(e), "other:" + type(e).__name__)
                clean_shadows(root(touched))
            ops.append(op)
            outs.append(res + " @ " + tree(touched))
            # frame on the real objects: every object that existed before and is not the one touched has the as_dict() it had
            for k, b in enumerate(before):
                if k != touched and b is not None:
                    stats["frame_checks"] += 1
                    if tree(k) != b:
                        notes.append(("op-changed-other-object", f"op {op!r} on object {touched} changed the as_dict() of object {k}"))
        final = " | ".join(tree(i) for i in range(len(world)))
        sets = [set(prop_objects(root(i))) for i in range(len(world))]
        for a in range(len(sets)):
            for b in range(a + 1, len(sets)):
                stats["heap_pairs_checked"] += 1
                if sets[a] & sets[b]:
                    notes.append(("style-objects-shared", f"objects {a} and {b} share {len(sets[a] & sets[b])} property objects at the end of the history"))
        magpy.defaults.reset()
        if magpy.defaults.as_dict() != pristine:
            notes.append(("reset-does-not-restore", "defaults.reset() after the history does not give the initial as_dict()"))
    finally:
        clean_shadows(magpy.defaults)
        magpy.defaults.reset()
    return objs, ops, " ; ".join(outs) + " || " + final, notes


def run_stream(ctx, n):
    import magpylib as magpy

    P = schema()
    rng = ctx.rng
    magpy.defaults.reset()
    pristine = magpy.defaults.as_dict()
    stats = {"histories": 0, "ops": 0, "ops_by_kind": {}, "rejected_by_kind": {}, "accepted": 0, "copies": 0, "style_copies": 0, "lazy_style_copies": 0,
             "labels_masked": 0, "ops_on_copies": 0, "ops_on_originals_after_copy": 0, "copy_heap_pairs_checked": 0, "heap_pairs_checked": 0, "frame_checks": 0,
             "objects_at_end": 0, "disagreements": 0, "mask": f"label strings outside the panel -> {MASK_VALUE!r} (index {mask_index(P)})"}
    lines, reals, hist, fails = [], [], [], []
    for _ in range(n):
        objs, ops, real, notes = run_history(rng, P, pristine, stats)
        line = enc_history(P, objs, ops)
        lines.append(line)
        reals.append(real)
        hist.append((objs, ops))
        stats["histories"] += 1
        stats["ops"] += len(ops)
        stats["objects_at_end"] += real.split(" || ")[1].count(" | ") + 1
        nworld, srcs = len(objs) + 1, {}
        for op, seg in zip(ops, real.split(" || ")[0].split(" ; ")):
            stats["ops_by_kind"][op[0]] = stats["ops_by_kind"].get(op[0], 0) + 1
            out = seg.split(" @ ")[0]
            if out.startswith("err"):
                key = op[0] + ":" + out[4:]
                stats["rejected_by_kind"][key] = stats["rejected_by_kind"].get(key, 0) + 1
            else:
                stats["accepted"] += 1
                if op[0] in ("C", "CK", "CS"):
                    srcs[nworld] = op[1]
                    nworld += 1
            if op[0] in ("U", "S", "Y", "YO", "G"):
                stats["ops_on_copies"] += int(op[1] in srcs)
                stats["ops_on_originals_after_copy"] += int(op[1] in srcs.values())
        for key, desc in notes:
            if len(fails) < 3:
                fails.append({"key": key, "desc": desc, "replay": {"stream": "scopy", "line": line}})
    out = run_driver(lines)
    for line, r, m, h in zip(lines, reals, out, hist):
        if "L 9999" in r:      # a stored value outside the panel other than a copy's label: the model has no index for it
            stats["histories_skipped_value_outside_panel"] = stats.get("histories_skipped_value_outside_panel", 0) + 1
            continue
        if r.strip() != m.strip():
            stats["disagreements"] += 1
            if stats["disagreements"] <= 3:
                rs, ms = r.split(" ; "), m.split(" ; ")
                k = next((j for j, (a, b) in enumerate(zip(rs, ms)) if a != b), min(len(rs), len(ms)))
                ctx.broken.append({"kind": "correspondence", "name": "scopy",
                                   "detail": {"line": line, "first_differing_op": k, "op": repr(h[1][k]) if k < len(h[1]) else "final",
                                              "real": (rs[k] if k < len(rs) else r)[:1500], "model": (ms[k] if k < len(ms) else m)[:1500]}})
    stats["cases"] = len(lines)
    stats["samples"] = [{"line": lines[k][:600], "real": reals[k][:300], "model": out[k][:300]} for k in (0, len(lines) // 2)] if lines else []
    return stats, fails
