"""correspondence stream `forest` (C11, C18): histories of add / remove / parent= / children= /
sources= / sensors= / collections= / `+` / `copy()` on real magpylib objects and on
Model/Forest.lean + Model/Copy.lean; classes (source/sensor/collection), parent pointers, children
lists and the stored typed views of ALL objects (originals and clones) compared after every
operation (also after operations that raise).  The objects created by `x.copy()` are numbered in
pre-order of the copy's own `_children` lists, continuing after the existing objects, and can be
addressed by every later operation.  The invariant oracle evaluates C11's statement on the real
objects after every prefix.

stream `label` (C18): `add_iteration_suffix(name)` and the label of `obj.copy()` against
`addIterationSuffix` / `copyLabel`, exact comparison of the code points."""
from vlib.driver import run_driver

KINDS = "sec"  # s = source, e = sensor, c = collection


MAX_OBJS = 40  # no further copies once a history has this many objects
JUNK_BASE = 900  # ids from here on are not objects: entries of a foreign type in an argument list


class _Hang(BaseException):
    """not an Exception: the harness catches Exception around every real operation to record its error kind"""


def _limited(fn, seconds, what):
    """run fn() under a wall limit: tree operations and the *_all views take milliseconds; on a tree that has become cyclic the
    real code (and any walk over it) never returns — that is a failing input, not something to wait for"""
    import signal

    def _alarm(signum, frame):
        raise _Hang(f"the real code did not return within {seconds} s while running {what} (a cyclic collection tree makes add(), the *_all views and every tree walk endless)")

    old = signal.signal(signal.SIGALRM, _alarm)
    signal.setitimer(signal.ITIMER_REAL, seconds)
    try:
        return fn()
    except _Hang as e:
        raise TimeoutError(str(e)) from None
    finally:
        signal.setitimer(signal.ITIMER_REAL, 0)
        signal.signal(signal.SIGALRM, old)


def arg(objs, i):
    """the object with number `i`, or an entry that is no magpylib object"""
    return objs[i] if i < len(objs) else [3, None, 2.5, 7][(i - JUNK_BASE) % 4]


def count_setter(stats, op):
    """coverage of the all-or-nothing setters: how many assignments, how many refused, refused by which construction,
    how many of the refused ones on a collection that had children (so that the restore had something to put back)"""
    if op["op"] not in ("children", "typed"):
        return
    stats["setter_assignments"] = stats.get("setter_assignments", 0) + 1
    if op.get("bare"):
        stats["bare_value_children_assignments"] = stats.get("bare_value_children_assignments", 0) + 1
    if op.get("tag") == "err":
        stats["rejected_setter_assignments"] = stats.get("rejected_setter_assignments", 0) + 1
        d = stats.setdefault("rejected_setter_by_construction", {})
        d[str(op.get("why"))] = d.get(str(op.get("why")), 0) + 1
        if op["op"] == "typed" and op.get("k") == "c" and op.get("why") == "junk":
            stats["rejected_collections_assignment_with_non_object"] = stats.get("rejected_collections_assignment_with_non_object", 0) + 1
        if op.get("had_children"):
            stats["rejected_setter_on_populated_collection"] = stats.get("rejected_setter_on_populated_collection", 0) + 1


def setter_call(objs, op):
    """run `c.children = [...]` / `c.sources = [...]` / ... and check what happens to the IDENTITY of the `_children` list:
    a refused assignment puts the old list object back, an accepted one installs a new list.  Returns None or a description."""
    c = objs[op["c"]]
    old = c._children  # kept alive: ids are not reused
    op["had_children"] = bool(old)
    op.pop("list_fact", None)
    attr = "children" if op["op"] == "children" else {"s": "sources", "e": "sensors", "c": "collections"}[op["k"]]
    try:
        setattr(c, attr, arg(objs, op["objs"][0]) if op.get("bare") else [arg(objs, i) for i in op["objs"]])
    except Exception:
        if c._children is not old:
            op["list_fact"] = "refused assignment left a different _children list object"
        raise
    if c._children is old:
        op["list_fact"] = "accepted assignment kept the old _children list object"
    return None


def gen_op(rng, cur_kinds, p_bad=0.06, children_of=None, p_copy=0.08):
    cur_n = len(cur_kinds)
    colls = [i for i, k in enumerate(cur_kinds) if k == "c"]
    r = rng.random()
    pick = lambda k: [rng.randrange(cur_n) for _ in range(k)]
    if r < p_bad:
        return {"op": "bad", "what": rng.choice(["add-int", "add-str", "remove-int", "parent-int", "children-int", "add-nested-list"]),
                "c": rng.choice(colls)}
    if cur_n < MAX_OBJS and rng.random() < p_copy:
        # copies of populated (possibly nested, possibly owned) collections are the interesting ones
        full = [c for c in colls if children_of and children_of.get(c)]
        if full and rng.random() < 0.65:
            if rng.random() < 0.5:  # the collection with the largest tree below it (nested copies)
                def size(c, d=0):
                    return 1 + sum(size(x, d + 1) for x in children_of.get(c, [])) if d < 64 else 1
                return {"op": "copy", "o": max(full, key=size)}
            return {"op": "copy", "o": rng.choice(full)}
        return {"op": "copy", "o": rng.randrange(cur_n)}
    if r < 0.40:
        full = [c for c in colls if children_of and children_of.get(c)]
        if full and rng.random() < 0.12:
            # the argument is the LIVE children list of a collection (`new.add(old.children, override_parent=True)`, also of the
            # receiving collection itself): it names the objects that were its children when the call was made
            src = rng.choice(full)
            return {"op": "add", "c": rng.choice(colls), "objs": list(children_of[src]), "ov": rng.random() < 0.8, "live": src}
        return {"op": "add", "c": rng.choice(colls), "objs": pick(rng.choice([1, 1, 2, 3])), "ov": rng.random() < 0.6}
    if r < 0.58:
        if children_of and rng.random() < 0.4:
            # removal of a DEEP descendant (grandchild or deeper) through the top collection, recursive
            def deep(c, d=0, seen=()):
                out = []
                for x in children_of.get(c, []):
                    if x in seen or d > 16:
                        continue
                    if d >= 1:
                        out.append((d, x))
                    out += deep(x, d + 1, seen + (c,))
                return out
            cands = [(c, deep(c)) for c in colls]
            cands = [(c, ds) for c, ds in cands if ds]
            if cands and rng.random() < 0.5:
                c, ds = rng.choice(cands)
                dmax = max(d for d, _ in ds)
                return {"op": "remove", "c": c, "objs": [rng.choice([x for d, x in ds if d == dmax])], "rec": True, "raise": rng.random() < 0.5}
            # structured argument lists: a child collection followed by one of its own children, or a nested descendant
            c = rng.choice(colls)
            sub = [x for x in children_of.get(c, []) if cur_kinds[x] == "c" and children_of.get(x)]
            if sub:
                inner = rng.choice(sub)
                objs = [inner, rng.choice(children_of[inner])] if rng.random() < 0.6 else [rng.choice(children_of[inner])]
                return {"op": "remove", "c": c, "objs": objs, "rec": rng.random() < 0.8, "raise": rng.random() < 0.5}
        return {"op": "remove", "c": rng.choice(colls), "objs": pick(rng.choice([1, 1, 2, 3])),
                "rec": rng.random() < 0.6, "raise": rng.random() < 0.6}
    if r < 0.70:
        return {"op": "parent", "o": rng.randrange(cur_n), "p": rng.choice([-1] + colls + colls)}
    if r < 0.92:
        # assignments to children / sources / sensors / collections; 45 % are built to be REFUSED part-way (after the old
        # children were unlinked): an entry that is no magpylib object (ids >= JUNK_BASE), the collection itself, one of
        # its ancestors, an entry given twice — by preference on a collection that HAS children, so that "nothing changed" is not trivial
        full = [c for c in colls if children_of and children_of.get(c)]
        c = rng.choice(full) if full and rng.random() < 0.7 else rng.choice(colls)
        objs = pick(rng.choice([0, 1, 2, 3]))
        why = None
        if rng.random() < 0.45:
            why = rng.choice(["junk", "junk", "self", "ancestor", "twice"])
            if why == "junk":
                objs.insert(rng.randrange(len(objs) + 1), JUNK_BASE + rng.randrange(4))
            elif why == "self":
                objs.insert(rng.randrange(len(objs) + 1), c)
            elif why == "ancestor":
                par = {x: q for q, xs in (children_of or {}).items() for x in xs}
                chain, q = [], c
                while q in par and len(chain) < 64:
                    q = par[q]
                    chain.append(q)
                objs.insert(rng.randrange(len(objs) + 1), rng.choice(chain) if chain else c)
            else:
                x = rng.choice(objs) if objs else rng.randrange(cur_n)
                objs = objs + [x] if objs else [x, x]
                rng.shuffle(objs)
        if r < 0.78:
            if rng.random() < 0.25:
                # a BARE value (no list / tuple): an object is a list of one, anything else (5, None) reaches add() and is refused
                q = rng.random()
                x = JUNK_BASE + rng.randrange(4) if q < 0.5 else (c if q < 0.6 else rng.randrange(cur_n))
                return {"op": "children", "c": c, "objs": [x], "bare": True, "why": "bare-junk" if q < 0.5 else ("bare-self" if q < 0.6 else None)}
            return {"op": "children", "c": c, "objs": objs, "why": why}
        return {"op": "typed", "c": c, "k": rng.choice("sec"), "objs": objs, "why": why}
    return {"op": "plus", "a": rng.randrange(cur_n), "b": rng.randrange(cur_n)}


def gen_kinds(rng):
    n = rng.choice([3, 4, 5, 6, 7, 8])
    kinds = [rng.choice("ssecc") for _ in range(n)]
    if "c" not in kinds:
        kinds[0] = "c"
    return kinds


def model_lines(h, plus_ok=None):
    lines = ["forest init " + " ".join(h["kinds"])]
    for op in h["ops"]:
        k = op["op"]
        ids = lambda xs: f"{len(xs)} " + " ".join(map(str, xs)) if xs else "0"
        if k == "add":
            lines.append(f"forest add {op['c']} {int(op['ov'])} {ids(op['objs'])}")
        elif k == "remove":
            lines.append(f"forest remove {op['c']} {int(op['rec'])} {int(op['raise'])} {ids(op['objs'])}")
        elif k == "parent":
            lines.append(f"forest parent {op['o']} {op['p']}")
        elif k == "children" and op.get("bare"):
            lines.append(f"forest childrenbare {op['c']} {op['objs'][0]}")
        elif k == "children":
            lines.append(f"forest children {op['c']} {ids(op['objs'])}")
        elif k == "typed":
            lines.append(f"forest typed {op['c']} {op['k']} {ids(op['objs'])}")
        elif k == "plus":
            lines.append(f"forest plus {op['a']} {op['b']}")
        elif k == "copy":
            lines.append(f"forest copy {op['o']}")
        else:
            lines.append("forest bad")
    return lines


def mk(kind, i):
    import magpylib as magpy

    if kind == "c":
        return magpy.Collection()
    if kind == "e":
        return magpy.Sensor()
    return [magpy.magnet.Cuboid, magpy.current.Circle, magpy.misc.Dipole, magpy.magnet.Sphere][i % 4]()


def kind_of(o):
    import magpylib as magpy

    return "c" if isinstance(o, magpy.Collection) else ("e" if isinstance(o, magpy.Sensor) else "s")


def dump_real(objs):
    import magpylib as magpy

    idx = {}
    for i, o in enumerate(objs):
        idx.setdefault(id(o), i)  # an object reached twice keeps its first number (so sharing shows up as a difference)
    parts = []
    for i, o in enumerate(objs):
        p = o._parent
        ps = "-" if p is None else str(idx.get(id(p), "?"))
        if isinstance(o, magpy.Collection):
            f = lambda xs: "[" + ", ".join(str(idx.get(id(x), "?")) for x in xs) + "]"
            parts.append(f"{i}{kind_of(o)}:{ps} C{f(o._children)} S{f(o._sources)} E{f(o._sensors)} L{f(o._collections)}")
        else:
            parts.append(f"{i}{kind_of(o)}:{ps} C[] S[] E[] L[]")
    return " | ".join(parts)


def preorder(root, limit=10_000):
    """the objects of a (copied) tree in pre-order of the stored `_children` lists"""
    out, stack = [], [root]
    while stack and len(out) < limit:
        x = stack.pop()
        out.append(x)
        stack.extend(reversed(list(getattr(x, "_children", []))))
    return out


def copy_facts(orig, new, objs, clones):
    """C18's tree-level statement evaluated on the real objects right after `new = orig.copy()`;
    returns None or a description"""
    if new is orig:
        return "copy() returned the original object"
    if type(new) is not type(orig):
        return f"copy of {type(orig).__name__} is a {type(new).__name__}"
    if new._parent is not None:
        return f"the copy has parent {new._parent!r}"
    old_ids = {id(o) for o in objs}
    if len({id(x) for x in clones}) != len(clones):
        return "an object occurs twice in the copied tree"
    shared = [x for x in clones if id(x) in old_ids]
    if shared:
        return f"the copied tree contains the existing object {shared[0]!r}"
    originals = preorder(orig)
    if len(originals) != len(clones):
        return f"original subtree has {len(originals)} objects, the copy {len(clones)}"
    pos = {id(x): i for i, x in enumerate(originals)}
    cpos = {id(x): i for i, x in enumerate(clones)}
    for a, b in zip(originals, clones):
        if type(a) is not type(b):
            return f"clone of {a!r} is {b!r}"
        for attr in ("_children", "_sources", "_sensors", "_collections"):
            if hasattr(a, attr) or hasattr(b, attr):
                la, lb = getattr(a, attr, None), getattr(b, attr, None)
                if la is None or lb is None or la is lb or [pos.get(id(x)) for x in la] != [cpos.get(id(x)) for x in lb]:
                    return f"{attr} of the clone of {a!r} is not the list of clones, in order"
        if a is not orig and (b._parent is None or pos.get(id(a._parent)) != cpos.get(id(b._parent))):
            return f"parent of the clone of {a!r} is not the clone of its parent"
    return None


def invariant_real(objs):
    """C11's statement evaluated on the real objects; returns None or a description"""
    import magpylib as magpy
    from magpylib._src.obj_classes.class_BaseExcitations import BaseSource

    for o in objs:
        p = o.parent
        if p is not None:
            if sum(1 for x in p.children if x is o) != 1:
                return f"{o!r} has parent {p!r} which lists it {sum(1 for x in p.children if x is o)} times"
        if isinstance(o, magpy.Collection):
            ch = o.children
            for x in ch:
                if x.parent is not o:
                    return f"{o!r} lists {x!r} whose parent is {x.parent!r}"
            if len({id(x) for x in ch}) != len(ch):
                return f"{o!r} lists a child twice"
            if [id(x) for x in o.sources] != [id(x) for x in ch if isinstance(x, BaseSource)]:
                return f"{o!r}.sources is not the ordered source part of children"
            if [id(x) for x in o.sensors] != [id(x) for x in ch if isinstance(x, magpy.Sensor)]:
                return f"{o!r}.sensors is not the ordered sensor part of children"
            if [id(x) for x in o.collections] != [id(x) for x in ch if isinstance(x, magpy.Collection)]:
                return f"{o!r}.collections is not the ordered collection part of children"
            # acyclic + *_all are the pre-order flattenings
            seen, flat = set(), []

            def rec(c, depth):
                if depth > len(objs) + 2:
                    raise RecursionError
                for x in c._children:
                    flat.append(x)
                    if isinstance(x, magpy.Collection):
                        if x is o:
                            raise RecursionError
                        rec(x, depth + 1)

            try:
                rec(o, 0)
            except RecursionError:
                return f"{o!r} contains itself"
            if [id(x) for x in o.children_all] != [id(x) for x in flat]:
                return f"{o!r}.children_all is not the pre-order flattening"
            if [id(x) for x in o.sources_all] != [id(x) for x in flat if isinstance(x, BaseSource)]:
                return f"{o!r}.sources_all wrong"
            if [id(x) for x in o.sensors_all] != [id(x) for x in flat if isinstance(x, magpy.Sensor)]:
                return f"{o!r}.sensors_all wrong"
            if [id(x) for x in o.collections_all] != [id(x) for x in flat if isinstance(x, magpy.Collection)]:
                return f"{o!r}.collections_all wrong"
            o.describe(return_string=True)
    return None


def real_lines(h, rng=None, n_ops=0, p_copy=0.08):
    """returns (lines, invariant_failures, errkinds).  When `h["ops"]` is None the operations are
    generated while running (so that ids of collections created by `+` and of clones created by
    `copy()` can be used later) and stored into `h`."""
    import magpylib as magpy
    from magpylib._src.exceptions import MagpylibBadUserInput

    objs = [mk(k, i) for i, k in enumerate(h["kinds"])]
    out = ["ok " + dump_real(objs)]
    inv_fail, errs = [], []
    lazy = h["ops"] is None
    if lazy:
        h["ops"] = []
    j = -1
    while True:
        j += 1
        if lazy:
            if j >= n_ops:
                break
            idx = {id(o): i for i, o in enumerate(objs)}
            ch = {i: [idx[id(x)] for x in o._children if id(x) in idx] for i, o in enumerate(objs) if isinstance(o, magpy.Collection)}
            if j == 0:
                # every fourth history starts with a scripted chain c0 > c1 > c2 > leaf followed by the removal of the leaf
                # through the top collection (a descendant three levels down)
                cs = [i for i, o in enumerate(objs) if isinstance(o, magpy.Collection)]
                lf = [i for i, o in enumerate(objs) if not isinstance(o, magpy.Collection)]
                h["script"] = []
                if len(cs) >= 3 and lf and rng.random() < 0.25:
                    rng.shuffle(cs)
                    c0, c1, c2 = cs[:3]
                    leaf = rng.choice(lf)
                    h["script"] = [{"op": "add", "c": c0, "objs": [c1], "ov": True}, {"op": "add", "c": c1, "objs": [c2], "ov": True},
                                   {"op": "add", "c": c2, "objs": [leaf], "ov": True},
                                   {"op": "remove", "c": c0, "objs": [leaf], "rec": True, "raise": rng.random() < 0.5}]
            if h.get("script"):
                op = h["script"].pop(0)
            else:
                op = gen_op(rng, [kind_of(o) for o in objs], children_of=ch, p_copy=p_copy)
            h["ops"].append(op)
        else:
            if j >= len(h["ops"]):
                break
            op = h["ops"][j]
        k = op["op"]
        bad = None
        try:
            if k == "copy":
                if not 0 <= op["o"] < len(objs):
                    raise MagpylibBadUserInput("no such object")  # the model refuses the same way
                orig = objs[op["o"]]
                had_parent = orig._parent
                new = orig.copy()
                clones = preorder(new)
                bad = copy_facts(orig, new, objs, clones)
                if bad is None and orig._parent is not had_parent:
                    bad = "copy() changed the parent of the original"
                op["size"] = len(clones)
                op["first"] = len(objs)
                op["owned"] = had_parent is not None
                objs.extend(clones)
            elif k == "add" and "live" in op:
                live = objs[op["live"]].children  # the collection's own list object, handed over as ONE list argument
                assert [id(x) for x in live] == [id(objs[i]) for i in op["objs"]], "harness bookkeeping: children_of out of date"
                objs[op["c"]].add(live, override_parent=op["ov"])
            elif k == "add":
                objs[op["c"]].add(*[objs[i] for i in op["objs"]], override_parent=op["ov"])
            elif k == "remove":
                objs[op["c"]].remove(*[objs[i] for i in op["objs"]], recursive=op["rec"], errors="raise" if op["raise"] else "ignore")
            elif k == "parent":
                objs[op["o"]].parent = None if op["p"] < 0 else objs[op["p"]]
            elif k in ("children", "typed"):
                setter_call(objs, op)
            elif k == "plus":
                new = objs[op["a"]] + objs[op["b"]]
                objs.append(new)
            elif k == "bad":
                c = objs[op["c"]]
                w = op["what"]
                if w == "add-int":
                    c.add(3)
                elif w == "add-str":
                    c.add("x")
                elif w == "remove-int":
                    c.remove(5)
                elif w == "parent-int":
                    c.parent = 7
                elif w == "children-int":
                    c.add(objs[0], 4) if False else c.add([4])
                elif w == "add-nested-list":
                    c.add([objs[0], "y"])
            tag = "ok"
        except MagpylibBadUserInput:
            tag = "err"
            errs.append(f"{k}:BadUserInput")
        except Exception as e:
            tag = "err"
            errs.append(f"{k}:Foreign:{type(e).__name__}")
        out.append(f"{tag} " + dump_real(objs))
        op["tag"] = tag
        if bad is None and op.pop("list_fact", None):
            bad = "the _children list object after a children / typed assignment is not the one the code promises (old one on refusal, new one on success)"
        if bad is None:
            try:
                bad = invariant_real(objs)
            except Exception as e:  # e.g. infinite recursion inside the library on a cyclic tree
                bad = f"evaluating the views raised {type(e).__name__}"
        if bad:
            inv_fail.append((j, bad))
            break
    return out, inv_fail, errs


def run_stream(ctx, n_hist, n_ops, want_model=True, p_copy=0.08):
    stats = {"histories": 0, "ops": 0, "op_kinds": {}, "err_kinds": {}, "rejected_ops": 0, "disagreements": 0,
             "distinct_states": 0, "max_objects": 0, "copies": 0, "copies_of_owned_objects": 0, "copied_tree_sizes": {},
             "ops_addressing_clones": 0}
    seen = set()
    samples, inv_failures = [], []
    hists = [{"kinds": gen_kinds(ctx.rng), "ops": None} for _ in range(n_hist)]
    reals = [_limited(lambda h=h: real_lines(h, ctx.rng, n_ops, p_copy), 20, "one history of tree operations") for h in hists]
    all_lines, spans = [], []
    for h in hists:
        ls = model_lines(h)
        spans.append((len(all_lines), len(all_lines) + len(ls)))
        all_lines += ls
    ml_all = run_driver(all_lines) if want_model else None
    for h, (a, b), (rl, inv_fail, errs) in zip(hists, spans, reals):
        stats["histories"] += 1
        stats["ops"] += len(rl) - 1
        clone_ids = set()
        for op in h["ops"][: len(rl) - 1]:
            stats["op_kinds"][op["op"]] = stats["op_kinds"].get(op["op"], 0) + 1
            count_setter(stats, op)
            mentioned = [op[key] for key in ("c", "o", "p", "a", "b") if key in op] + list(op.get("objs", []))
            if clone_ids.intersection(mentioned):
                stats["ops_addressing_clones"] += 1
            if op["op"] == "copy" and "size" in op:
                stats["copies"] += 1
                stats["copies_of_owned_objects"] += int(op["owned"])
                stats["copied_tree_sizes"][str(op["size"])] = stats["copied_tree_sizes"].get(str(op["size"]), 0) + 1
                clone_ids.update(range(op["first"], op["first"] + op["size"]))
        for e in errs:
            stats["err_kinds"][e] = stats["err_kinds"].get(e, 0) + 1
        stats["rejected_ops"] += len(errs)
        for line in rl:
            seen.add(line)
            stats["max_objects"] = max(stats["max_objects"], line.count("|") + 1)
        if inv_fail:
            j, bad = inv_fail[0]
            inv_failures.append({"key": "forest-invariant:" + h["ops"][j]["op"], "desc": bad,
                                 "replay": {"kinds": h["kinds"], "ops": h["ops"][: j + 1], "state": rl[-1]}})
        if want_model:
            ml = ml_all[a:b]
            diff = next((j for j, (x, y) in enumerate(zip(ml, rl)) if x != y), None)
            if diff is not None:
                stats["disagreements"] += 1
                ctx.broken.append({"kind": "correspondence", "name": "forest",
                                   "detail": {"kinds": h["kinds"], "ops": h["ops"][:diff], "line": diff,
                                              "model": ml[diff], "real": rl[diff]}})
                if stats["disagreements"] >= 3:
                    break
            elif len(samples) < 2:
                samples.append({"kinds": h["kinds"], "ops": h["ops"][:4], "state_after_4": rl[min(4, len(rl) - 1)]})
    stats["distinct_states"] = len(seen)
    stats["samples"] = samples
    return stats, inv_failures


# ---------------------------------------------------------------------------------------------
# stream `label`: add_iteration_suffix / the label of a copy


def gen_name(rng):
    """labels over letters, digits, underscores (and a few other printable ASCII characters), with
    trailing digit runs of width 1-4 incl. the 9 / 99 / 999 / 9999 roll-over, leading zeros,
    all-digit names, the empty name, names ending in one or more underscores"""
    alpha = "abcxyzABCXYZ"
    body_chars = alpha + "_" + "0123456789" + " -.()"
    r = rng.random()
    if r < 0.03:
        return ""
    if r < 0.06:
        return "_" * rng.choice([1, 1, 2, 3])
    body = "".join(rng.choice(alpha if rng.random() < 0.7 else body_chars) for _ in range(rng.choice([0, 1, 1, 2, 3, 5, 8])))
    sep = rng.choice(["", "", "_", "_", "__", "-", " "])
    w = rng.choice([0, 0, 1, 1, 2, 2, 3, 4])
    if w == 0:
        digits = ""
    else:
        digits = rng.choice(["9" * w, "0" * w, "0" * (w - 1) + "9", "1" + "9" * (w - 1), "8" + "9" * (w - 1),
                             "".join(rng.choice("0123456789") for _ in range(w)),
                             "".join(rng.choice("0123456789") for _ in range(w)),
                             "".join(rng.choice("09") for _ in range(w))])
    if rng.random() < 0.1 and digits:
        body = ""  # all-digit names
        sep = rng.choice(["", "", "_"])
    if rng.random() < 0.08:
        # a digit run in the middle that must be left alone
        body += rng.choice(["7", "99", "12_"]) + rng.choice(alpha)
    return body + sep + digits


def enc(s):
    return " ".join([str(len(s))] + [str(ord(c)) for c in s])


def run_label_stream(ctx, n_names, n_copies, want_model=True):
    """`add_iteration_suffix(name)` for `n_names` generated names, and `obj.copy().style.label` for
    `n_copies` real objects (labelled, unlabelled with / without a style object) against the model"""
    import magpylib as magpy
    from magpylib._src.utility import add_iteration_suffix

    stats = {"names": 0, "copies": 0, "disagreements": 0, "shapes": {}, "rollovers": 0, "distinct_names": 0}
    lines, real, meta = [], [], []
    names = ["", "_", "col", "col_", "col1", "col_02", "x09", "x99", "9", "99", "999", "9999", "0099", "a__", "a_9", "a9_", "x_0999", "007"]
    names += [gen_name(ctx.rng) for _ in range(n_names)]
    for name in names:
        lines.append("forest label " + enc(name))
        try:
            real.append("ok " + enc(add_iteration_suffix(name)))
        except Exception as e:  # noqa: BLE001
            real.append(f"err {type(e).__name__}")
        meta.append({"fn": "add_iteration_suffix", "name": name})
        stats["names"] += 1
        m = len(name) - len(name.rstrip("0123456789"))
        shape = "empty" if not name else ("all-digits" if m == len(name) else (f"digits{min(m, 5)}" if m else ("underscore-end" if name.endswith("_") else "plain")))
        stats["shapes"][shape] = stats["shapes"].get(shape, 0) + 1
        stats["rollovers"] += int(m > 0 and set(name[-m:]) == {"9"})
    stats["distinct_names"] = len(set(names))
    makers = [("Sensor", magpy.Sensor), ("Collection", magpy.Collection), ("Cuboid", magpy.magnet.Cuboid),
              ("Dipole", magpy.misc.Dipole), ("Circle", magpy.current.Circle)]
    for i in range(n_copies):
        cls, mk_ = makers[i % len(makers)]
        mode = ctx.rng.choice(["label", "label", "label", "touched", "kwargs", "untouched"])
        if mode == "label":
            name = gen_name(ctx.rng)
            obj = mk_(style_label=name)
            lines.append(f"forest copylabel {enc(cls)} 1 1 {enc(name)}")
        elif mode == "touched":  # style object exists, no label
            obj = mk_()
            _ = obj.style
            name = None
            lines.append(f"forest copylabel {enc(cls)} 1 0")
        elif mode == "kwargs":  # style keyword arguments given, no label
            obj = mk_(style_opacity=0.5)
            name = None
            lines.append(f"forest copylabel {enc(cls)} 1 0")
        else:  # no style object, no style arguments: the copy stays unlabelled
            obj = mk_()
            name = None
            lines.append(f"forest copylabel {enc(cls)} 0 0")
        try:
            lab = obj.copy().style.label
            real.append("ok none" if lab is None else "ok " + enc(lab))
            if obj.style.label != name:
                real[-1] += " original-label-changed"
        except Exception as e:  # noqa: BLE001
            real.append(f"err {type(e).__name__}")
        meta.append({"fn": f"{cls}.copy().style.label", "mode": mode, "name": name})
        stats["copies"] += 1
        stats["shapes"]["copy:" + mode] = stats["shapes"].get("copy:" + mode, 0) + 1
    if want_model:
        ml = run_driver(lines)
        for x, y, mt, ln in zip(ml, real, meta, lines):
            if x != y:
                stats["disagreements"] += 1
                if stats["disagreements"] <= 3:
                    ctx.broken.append({"kind": "correspondence", "name": "label",
                                       "detail": {**mt, "line": ln, "model": x, "real": y}})
    stats["samples"] = [{"name": n, "iterated": add_iteration_suffix(n)} for n in names[18:24]]
    return stats


# ---------------------------------------------------------------------------------------------
# stream `forestattr` (C18, C11): histories WITH attributes on Model/ForestAttr.lean — objects constructed from explicit
# specs (integer-valued geometry / excitation / paths, style keyword arguments that leave the style lazily un-initialised),
# tree operations, move / rotate / position= on objects and collections, attribute and style writes, copy(**kwargs) with
# overrides, later mutations of originals and copies.  After every operation ALL objects are dumped on both sides: tree
# links, every attribute value, the realised style view, whether `_style` exists / `_style_kwargs` is pending, and the
# SHARING STRUCTURE: every container (`_position`, `_orientation`, `_polarization`, `_dimension`, `_moment`, `_pixel`,
# `_style`) is printed as the index of its first occurrence in any dump of the history (real side: id() of the ultimate
# base array / of the Rotation / of the style object, all kept alive), so a container that is written in place is told
# from one that is replaced, and a container reachable from two objects would show the same index twice.  In addition
# the real side checks after every operation that no two array attributes of any objects overlap in memory, and the
# `*_all` views of every collection are compared with `Forest.flatAll`.

CLS = ["Cuboid", "Circle", "Dipole", "Sphere", "Sensor", "Collection"]
PALETTE = ["red", "green", "blue", "yellow", "black", "white"]
ARR_ATTR = {3: "polarization", 4: "dimension", 5: "moment", 6: "pixel"}   # slot code -> attribute
SCAL_ATTR = {0: "current", 1: "diameter", 2: "handedness"}
CLS_ARRS = {0: [3, 4], 1: [], 2: [5], 3: [3], 4: [6], 5: []}
CLS_SCAL = {0: [], 1: [0, 1], 2: [], 3: [1], 4: [2], 5: []}
PROP_ATTR = {0: "opacity", 1: "color"}


def _ivec(rng, lo=-4, hi=4):
    return [rng.randint(lo, hi) for _ in range(3)]


def gen_arr_value(rng, code):
    if code == 4:  # dimension: positive
        return [rng.randint(1, 5) for _ in range(3)]
    if code == 6:  # pixel: (k,3) flattened
        return [rng.randint(-3, 3) for _ in range(3 * rng.choice([1, 1, 2, 3]))]
    return _ivec(rng)


def gen_scal_value(rng, k):
    if k == 1:
        return rng.randint(1, 6)
    if k == 2:
        return rng.randint(0, 1)
    return rng.randint(-5, 5)


def gen_sdata(rng, p_label=0.5, p_prop=0.35):
    d = {"label": None, "props": []}
    if rng.random() < p_label:
        d["label"] = gen_name(rng) if rng.random() < 0.5 else rng.choice(["x", "x_01", "obj9", "a_", "col_99"])
    for k in (0, 1):
        if rng.random() < p_prop:
            d["props"].append([k, rng.randint(0, 1) if k == 0 else rng.randrange(len(PALETTE))])
    return d


def gen_spec(rng, kind):
    cls = {"s": rng.choice([0, 1, 2, 3]), "e": 4, "c": 5}[kind]
    n = rng.choice([1, 1, 1, 2, 3])
    return {"kind": kind, "cls": cls, "pos": [_ivec(rng) for _ in range(n)],
            "arrs": [[c, gen_arr_value(rng, c)] for c in CLS_ARRS[cls]],
            "scal": [[k, gen_scal_value(rng, k)] for k in CLS_SCAL[cls]],
            "skw": gen_sdata(rng) if rng.random() < 0.5 else {"label": None, "props": []}}


def enc_sdata(d):
    s = "0" if d["label"] is None else "1 " + enc(d["label"])
    return s + f" {len(d['props'])}" + "".join(f" {k} {v}" for k, v in d["props"])


def enc_ints(xs):
    return f"{len(xs)}" + "".join(f" {int(x)}" for x in xs)


def enc_vecs(vs):
    return f"{len(vs)}" + "".join(f" {v[0]} {v[1]} {v[2]}" for v in vs)


def enc_spec(sp):
    return (f"{sp['kind']} {sp['cls']} {enc_vecs(sp['pos'])} {len(sp['arrs'])}" + "".join(f" {c} {enc_ints(v)}" for c, v in sp["arrs"])
            + f" {len(sp['scal'])}" + "".join(f" {k} {v}" for k, v in sp["scal"]) + " " + enc_sdata(sp["skw"]))


def style_kwargs_real(d):
    kw = {}
    if d["label"] is not None:
        kw["style_label"] = d["label"]
    for k, v in d["props"]:
        kw["style_" + PROP_ATTR[k]] = v if k == 0 else PALETTE[v]
    return kw


def scal_real(k, v):
    return ("left" if v else "right") if k == 2 else v


def mk_attr(sp):
    import magpylib as magpy
    import numpy as np

    kw = {"position": sp["pos"] if len(sp["pos"]) > 1 else sp["pos"][0]}
    for c, v in sp["arrs"]:
        kw[ARR_ATTR[c]] = np.array(v, dtype=float).reshape(-1, 3) if c == 6 and len(v) > 3 else list(v)
    for k, v in sp["scal"]:
        kw[SCAL_ATTR[k]] = scal_real(k, v)
    kw.update(style_kwargs_real(sp["skw"]))
    ctor = [magpy.magnet.Cuboid, magpy.current.Circle, magpy.misc.Dipole, magpy.magnet.Sphere, magpy.Sensor, magpy.Collection][sp["cls"]]
    return ctor(**kw)


class Canon:
    """first-occurrence numbering of containers over a whole history (objects kept alive so that ids stay unique)"""

    def __init__(self):
        self.ix, self.keep = {}, []

    def of(self, obj):
        import numpy as np

        if isinstance(obj, np.ndarray):
            while obj.base is not None and isinstance(obj.base, np.ndarray):
                obj = obj.base
        k = id(obj)
        if k not in self.ix:
            self.ix[k] = len(self.ix)
            self.keep.append(obj)
        return self.ix[k]


def dump_attr_real(objs, canon, as_lazy=()):
    """`as_lazy`: objects whose style object was created as a side effect of the operation just run (repr() in an error
    message evaluates `obj.style`); they are shown as they were before, the style reads follow as operations of their own"""
    import numpy as np
    from vlib.octa import fmt_mat, fmt_vec, snap_matrix, snap_vec

    parts = []
    for i, o in enumerate(objs):
        cls = CLS.index(type(o).__name__)
        line = f"{i} c{cls}"
        pos = np.asarray(o._position)
        line += f" [0@{canon.of(o._position)} v{len(pos)} " + " ".join(fmt_vec(snap_vec(v)) for v in pos) + "]"
        m = o._orientation.as_matrix()
        m = m[None] if m.ndim == 2 else m
        line += f" [1@{canon.of(o._orientation)} r{len(m)} " + " ".join(fmt_mat(snap_matrix(x)) for x in m) + "]"
        for c in (3, 4, 5, 6):
            a = vars(o).get("_" + ARR_ATTR[c])
            if a is not None:
                flat = np.asarray(a).reshape(-1)
                line += f" [{c}@{canon.of(a)} i{len(flat)} " + " ".join(str(int(x)) for x in snap_vec(flat)) + "]"
        if "_children" in vars(o):
            line += f" [7@{canon.of(o._children)} l]"
        sc = []
        for k in CLS_SCAL[cls]:
            v = vars(o)["_" + SCAL_ATTR[k]]
            sc.append(f"{k}={int(v == 'left') if k == 2 else int(snap_vec(np.array([v]))[0])}")
        line += " S(" + " ".join(sc) + ")"
        st = vars(o).get("_style")
        hide = i in as_lazy
        if hide:
            line += " Y-"
        else:
            line += " Y-" if st is None else f" Y@{canon.of(st)}"
        view = {"label": None, "opacity": None, "color": None}
        if st is not None:
            view = {"label": st.label, "opacity": st.opacity, "color": st.color}
        pend = vars(o).get("_style_kwargs") or {}
        view.update(pend)
        lab = "none" if view["label"] is None else enc(view["label"])
        p0 = "-" if view["opacity"] is None else str(int(view["opacity"]))
        p1 = "-" if view["color"] is None else str(PALETTE.index(view["color"]))
        line += f" K{int(bool(pend) or (hide and as_lazy[i]))} L {lab} p0={p0} p1={p1}"
        parts.append(line)
    return " | ".join(parts)


def arrays_overlap(objs):
    """no two ndarray attributes of any objects may overlap in memory (interval test on the occupied byte ranges)"""
    import numpy as np

    spans = []
    for i, o in enumerate(objs):
        for k, v in vars(o).items():
            if isinstance(v, np.ndarray) and v.size:
                lo = v.__array_interface__["data"][0]
                spans.append((lo, lo + v.nbytes, i, k))
    spans.sort()
    for (a0, a1, i, k), (b0, b1, j, l) in zip(spans, spans[1:]):
        if b0 < a1 and np.shares_memory(getattr(objs[i], k), getattr(objs[j], l)):
            return f"object {i}.{k} and object {j}.{l} share memory"
    return None


def all_views_real(objs):
    import magpylib as magpy

    idx = {id(o): i for i, o in enumerate(objs)}
    f = lambda xs: "[" + ", ".join(str(idx.get(id(x), "?")) for x in xs) + "]"
    return "ok " + " | ".join(f"{i} A{f(o.children_all)} S{f(o.sources_all)} E{f(o.sensors_all)} L{f(o.collections_all)}"
                             for i, o in enumerate(objs) if isinstance(o, magpy.Collection))


def gen_pathin_vec(rng):
    if rng.random() < 0.5:
        return ["s", _ivec(rng)]
    return ["v", [_ivec(rng) for _ in range(rng.choice([1, 1, 2, 3]))]]


def gen_attr_op(rng, objs, children_of):
    import magpylib as magpy

    n = len(objs)
    kinds = [kind_of(o) for o in objs]
    x = rng.randrange(n)
    colls = [i for i, k in enumerate(kinds) if k == "c"]
    full = [c for c in colls if children_of.get(c)]
    if full and rng.random() < 0.35:
        x = rng.choice(full)  # operations on populated collections act on all descendants
    populated = x in full
    cls = CLS.index(type(objs[x]).__name__)
    r = rng.random()
    start = None if rng.random() < 0.5 else rng.randint(-4, 4)
    if r < 0.22:
        op = gen_op(rng, kinds, p_bad=0.03, children_of=children_of, p_copy=0.0)
        if rng.random() < 0.4:  # every third tree operation is an assignment to children / sources / sensors / collections
            for _ in range(40):
                if op["op"] in ("children", "typed"):
                    break
                op = gen_op(rng, kinds, p_bad=0.0, children_of=children_of, p_copy=0.0)
        return op
    if r < 0.34:
        return {"op": "amove", "x": x, "inp": gen_pathin_vec(rng), "start": start, "pop": populated}
    if r < 0.47:
        rot = ["s", rng.randrange(24)] if rng.random() < 0.5 else ["v", [rng.randrange(24) for _ in range(rng.choice([1, 2, 3]))]]
        a = rng.random()
        anchor = None if a < 0.4 else (0 if a < 0.5 else gen_pathin_vec(rng))
        return {"op": "arot", "x": x, "rot": rot, "anchor": anchor, "start": start, "pop": populated}
    if r < 0.53:
        return {"op": "asetpos", "x": x, "val": [_ivec(rng) for _ in range(rng.choice([1, 1, 2, 3]))], "pop": populated}
    if r < 0.59:
        return {"op": "asetori", "x": x, "val": gen_ori_value(rng), "pop": populated}
    if r < 0.64 and CLS_ARRS[cls]:
        c = rng.choice(CLS_ARRS[cls])
        return {"op": "asetarr", "x": x, "slot": c, "val": gen_arr_value(rng, c)}
    if r < 0.68 and CLS_SCAL[cls]:
        k = rng.choice(CLS_SCAL[cls])
        return {"op": "asetscal", "x": x, "k": k, "val": gen_scal_value(rng, k)}
    if r < 0.72:
        return {"op": "alabel", "x": x, "val": gen_name(rng)}
    if r < 0.76:
        k = rng.choice([0, 1])
        return {"op": "aprop", "x": x, "k": k, "val": rng.randint(0, 1) if k == 0 else rng.randrange(len(PALETTE))}
    if n >= MAX_OBJS:
        return {"op": "amove", "x": x, "inp": gen_pathin_vec(rng), "start": start}
    # copy(**kwargs)
    o = rng.choice(full) if full and rng.random() < 0.5 else rng.randrange(n)
    ocls = CLS.index(type(objs[o]).__name__)
    kw = []
    if rng.random() < 0.3:
        kw.append(["pos", [_ivec(rng) for _ in range(rng.choice([1, 1, 2, 3]))]])
    if rng.random() < 0.3:
        kw.append(["ori", gen_ori_value(rng)])
    for c in CLS_ARRS[ocls]:
        if rng.random() < 0.35:
            kw.append(["arr", c, gen_arr_value(rng, c)])
    for k in CLS_SCAL[ocls]:
        if rng.random() < 0.35:
            kw.append(["scal", k, gen_scal_value(rng, k)])
    if rng.random() < 0.3:
        kw.append(["label", gen_name(rng)])
    for k in (0, 1):
        if rng.random() < 0.2:
            kw.append(["sprop", k, rng.randint(0, 1) if k == 0 else rng.randrange(len(PALETTE))])
    if rng.random() < 0.16:
        # parent=None, parent=<a collection> (the copy is ADDED to it), rarely something that is no Collection (refused)
        q = rng.random()
        kw.append(["parent", -1 if q < 0.2 else (rng.choice(colls) if q < 0.9 else rng.randrange(n))])
    if ocls == 5 and rng.random() < 0.22:
        # children=<list of existing objects>: by preference the ORIGINAL's own children (they move to the copy), or any objects;
        # rarely with an entry that is refused (no object / twice), which makes copy() raise part-way
        q = rng.random()
        ids = list(children_of.get(o, [])) if q < 0.4 else [rng.randrange(n) for _ in range(rng.choice([0, 1, 2, 3]))]
        if rng.random() < 0.15:
            ids.insert(rng.randrange(len(ids) + 1), JUNK_BASE + rng.randrange(4) if rng.random() < 0.6 or not ids else rng.choice(ids))
        kw.append(["children", ids])
    if rng.random() < 0.10:
        # a value the setter rejects: copy() raises part-way through the keyword list
        free = [a for a in ("position", "orientation") if not any(x[0] == a[:3] for x in kw)] + [ARR_ATTR[c] for c in CLS_ARRS[ocls] if not any(x[0] == "arr" and x[1] == c for x in kw)]
        if free:
            kw.append(["bad", rng.choice(free)])
    rng.shuffle(kw)
    return {"op": "acopy", "o": o, "kw": kw}


def gen_ori_value(rng):
    """None (unit rotation), a single rotation, or a path of 1-3 rotations (indices into the octahedral group)"""
    q = rng.random()
    if q < 0.35:
        return None
    if q < 0.6:
        return ["s", rng.randrange(24)]
    return ["v", [rng.randrange(24) for _ in range(rng.choice([1, 2, 2, 3]))]]


def enc_ori(v):
    from vlib.octa import OCTA, fmt_mat
    if v is None:
        return "n"
    ms = [v[1]] if v[0] == "s" else v[1]
    return f"v {len(ms)} " + " ".join(fmt_mat(OCTA[i]) for i in ms)


def ori_real(v):
    from vlib.octa import OCTA, rot_from
    if v is None:
        return None
    return rot_from(OCTA[v[1]]) if v[0] == "s" else rot_from([OCTA[i] for i in v[1]])


def enc_ov(ov):
    if ov[0] == "pos":
        return "pos " + enc_vecs(ov[1])
    if ov[0] == "arr":
        return f"arr {ov[1]} {enc_ints(ov[2])}"
    if ov[0] == "scal":
        return f"scal {ov[1]} {ov[2]}"
    if ov[0] == "label":
        return "label " + enc(ov[1])
    if ov[0] == "ori":
        return "ori " + enc_ori(ov[1])
    if ov[0] == "parent":
        return f"parent {ov[1]}"
    if ov[0] == "children":
        return f"children {len(ov[1])}" + "".join(f" {i}" for i in ov[1])
    if ov[0] == "bad":
        return "badval"
    return f"sprop {ov[1]} {ov[2]}"


def attr_model_lines(h):
    from corr.path_family import enc_pathin_rot, enc_pathin_vec, enc_start

    lines = [f"forest ainit {len(h['specs'])} " + " ".join(enc_spec(sp) for sp in h["specs"]), "forest allviews"]
    base = {"add", "remove", "parent", "children", "typed", "plus", "bad", "copy"}
    for op in h["ops"]:
        k = op["op"]
        if k in base:
            lines.append(model_lines({"kinds": [], "ops": [op]})[1])
        elif k == "amove":
            lines.append(f"forest amove {op['x']} {enc_pathin_vec(op['inp'])} {enc_start(op['start'])}")
        elif k == "arot":
            an = op["anchor"]
            ea = "n" if an is None else ("s 0 0 0" if an == 0 else enc_pathin_vec(an))
            lines.append(f"forest arot {op['x']} {enc_pathin_rot(op['rot'])} {ea} {enc_start(op['start'])}")
        elif k == "asetpos":
            lines.append(f"forest asetpos {op['x']} {enc_vecs(op['val'])}")
        elif k == "asetori":
            lines.append(f"forest asetori {op['x']} {enc_ori(op['val'])}")
        elif k == "asetarr":
            lines.append(f"forest asetarr {op['x']} {op['slot']} {enc_ints(op['val'])}")
        elif k == "asetscal":
            lines.append(f"forest asetscal {op['x']} {op['k']} {op['val']}")
        elif k == "alabel":
            lines.append(f"forest alabel {op['x']} {enc(op['val'])}")
        elif k == "aprop":
            lines.append(f"forest aprop {op['x']} {op['k']} {op['val']}")
        elif k == "arealise":
            lines.append(f"forest arealise {op['x']}")
        elif k == "acopy":
            lines.append(f"forest acopy {op['o']} {len(op['kw'])}" + "".join(" " + enc_ov(ov) for ov in op["kw"]))
        else:
            raise ValueError(k)
        lines.append("forest allviews")
    return lines


def copy_kwargs_real(kw, objs=()):
    import numpy as np

    out = {}
    for ov in kw:
        if ov[0] == "ori":
            out["orientation"] = ori_real(ov[1])
        elif ov[0] == "parent":
            out["parent"] = None if ov[1] < 0 else objs[ov[1]]
        elif ov[0] == "children":
            out["children"] = [arg(objs, i) for i in ov[1]]
        elif ov[0] == "bad":
            out[ov[1]] = "bad" if ov[1] != "orientation" else 3
        elif ov[0] == "pos":
            out["position"] = ov[1] if len(ov[1]) > 1 else ov[1][0]
        elif ov[0] == "arr":
            out[ARR_ATTR[ov[1]]] = np.array(ov[2], dtype=float).reshape(-1, 3) if ov[1] == 6 and len(ov[2]) > 3 else list(ov[2])
        elif ov[0] == "scal":
            out[SCAL_ATTR[ov[1]]] = scal_real(ov[1], ov[2])
        elif ov[0] == "label":
            out["style_label"] = ov[1]
        else:
            out["style_" + PROP_ATTR[ov[1]]] = ov[2] if ov[1] == 0 else PALETTE[ov[2]]
    return out


def attr_real_lines(h, rng=None, n_ops=0):
    """real side of one attributed history; operations are generated while running when `h['ops']` is None"""
    import magpylib as magpy
    import numpy as np
    from corr.path_family import call_rotate
    from magpylib._src.exceptions import MagpylibBadUserInput

    objs = [mk_attr(sp) for sp in h["specs"]]
    canon = Canon()
    out = ["ok " + dump_real(objs) + " ## " + dump_attr_real(objs, canon), all_views_real(objs)]
    fails, errs = [], []
    lazy = h["ops"] is None
    if lazy:
        h["ops"] = []
    j = -1
    pending, hidden = [], {}  # style reads that a rejected tree operation performed (through repr() in its message)
    tree_ops = {"add", "remove", "parent", "children", "typed", "plus", "bad"}
    while True:
        j += 1
        if lazy:
            if pending:
                op = pending.pop(0)
            elif j >= n_ops:
                break
            else:
                idx = {id(o): i for i, o in enumerate(objs)}
                ch = {i: [idx[id(x)] for x in o._children if id(x) in idx] for i, o in enumerate(objs) if isinstance(o, magpy.Collection)}
                op = gen_attr_op(rng, objs, ch)
            h["ops"].append(op)
        else:
            if j >= len(h["ops"]):
                break
            op = h["ops"][j]
        k = op["op"]
        bad = None
        before_style = [(vars(o).get("_style") is None, bool(vars(o).get("_style_kwargs"))) for o in objs]
        try:
            if k in ("copy", "acopy"):
                if not 0 <= op["o"] < len(objs):
                    raise MagpylibBadUserInput("no such object")
                orig = objs[op["o"]]
                had_parent = orig._parent
                op["lazy"] = vars(orig).get("_style") is None and bool(orig._style_kwargs)
                op["untouched"] = vars(orig).get("_style") is None and not orig._style_kwargs
                kwl = op.get("kw", [])
                structural = any(ov[0] in ("parent", "children") for ov in kwl)
                # the objects made by the deep copy are taken hold of right after `deepcopy(self)` (pre-order of the copy's own
                # `_children` lists at that moment): a `children=` keyword may replace them later, and when a setter raises
                # part-way they still exist — whether anything refers to them is what the dump then shows
                import copy as _copymod
                _real_deepcopy, depth, captured = _copymod.deepcopy, [0], []

                def _hook(x, memo=None, _nil=[]):
                    depth[0] += 1
                    try:
                        r = _real_deepcopy(x, memo, _nil)
                    finally:
                        depth[0] -= 1
                    if depth[0] == 0 and not captured:
                        captured.extend(preorder(r))
                    return r

                _copymod.deepcopy = _hook
                try:
                    new = orig.copy(**copy_kwargs_real(kwl, objs))
                except Exception:
                    op["raised"], op["first"], op["size"] = True, len(objs), len(captured)
                    n_old = len(objs)
                    # style state of the clones right after the label step (a clone has a style object iff its original had one;
                    # the copied object gets one from the label step iff the original had a style object or style arguments)
                    origs = preorder(orig) if not structural else []
                    for ci, cobj in enumerate(captured):
                        if ci == 0:
                            before_style.append((op["untouched"], False))
                        elif ci < len(origs):
                            before_style.append((vars(origs[ci]).get("_style") is None, bool(vars(origs[ci]).get("_style_kwargs"))))
                        else:
                            before_style.append((vars(cobj).get("_style") is None, bool(vars(cobj).get("_style_kwargs"))))
                    objs.extend(captured)
                    old_ids = {id(x) for x in objs[:n_old]}
                    op["halfbuilt_reachable"] = any((o_._parent is not None and id(o_._parent) not in old_ids) for o_ in objs[:n_old]) or \
                        any(id(x) not in old_ids for o_ in objs[:n_old] for x in getattr(o_, "_children", []))
                    raise
                finally:
                    _copymod.deepcopy = _real_deepcopy
                clones = captured
                if clones[0] is not new:
                    bad = "copy() did not return the object made by deepcopy(self)"
                if bad is None and not structural:
                    bad = copy_facts(orig, new, objs, clones)
                if bad is None and orig._parent is not had_parent and not structural:
                    bad = "copy() changed the parent of the original"
                op["size"], op["first"], op["owned"] = len(clones), len(objs), had_parent is not None
                objs.extend(clones)
            elif k == "amove":
                inp = op["inp"][1] if op["inp"][0] == "s" else np.array(op["inp"][1], dtype=float).reshape(-1, 3)
                objs[op["x"]].move(inp, start="auto" if op["start"] is None else op["start"])
            elif k == "arot":
                call_rotate(objs[op["x"]], {**op, "form": "rotate"})
            elif k == "asetpos":
                objs[op["x"]].position = op["val"] if len(op["val"]) > 1 else op["val"][0]
            elif k == "asetori":
                objs[op["x"]].orientation = ori_real(op["val"])
            elif k == "asetarr":
                v = op["val"]
                setattr(objs[op["x"]], ARR_ATTR[op["slot"]], np.array(v, dtype=float).reshape(-1, 3) if op["slot"] == 6 and len(v) > 3 else list(v))
            elif k == "asetscal":
                setattr(objs[op["x"]], SCAL_ATTR[op["k"]], scal_real(op["k"], op["val"]))
            elif k == "alabel":
                objs[op["x"]].style.label = op["val"]
            elif k == "aprop":
                setattr(objs[op["x"]].style, PROP_ATTR[op["k"]], op["val"] if op["k"] == 0 else PALETTE[op["val"]])
            elif k == "arealise":
                if not 0 <= op["x"] < len(objs):
                    raise MagpylibBadUserInput("no such object")
                _ = objs[op["x"]].style
            elif k == "add" and "live" in op:
                objs[op["c"]].add(objs[op["live"]].children, override_parent=op["ov"])
            elif k == "add":
                objs[op["c"]].add(*[objs[i] for i in op["objs"]], override_parent=op["ov"])
            elif k == "remove":
                objs[op["c"]].remove(*[objs[i] for i in op["objs"]], recursive=op["rec"], errors="raise" if op["raise"] else "ignore")
            elif k == "parent":
                objs[op["o"]].parent = None if op["p"] < 0 else objs[op["p"]]
            elif k in ("children", "typed"):
                setter_call(objs, op)
            elif k == "plus":
                objs.append(objs[op["a"]] + objs[op["b"]])
            elif k == "bad":
                objs[op["c"]].add(3)
            tag = "ok"
        except MagpylibBadUserInput:
            tag = "err"
            errs.append(f"{k}:BadUserInput")
        except Exception as e:  # noqa: BLE001
            tag = "err"
            errs.append(f"{k}:Foreign:{type(e).__name__}")
        if k in tree_ops or (k == "acopy" and op.get("raised")):
            hidden = {i: kw for i, (was_none, kw) in enumerate(before_style) if was_none and vars(objs[i]).get("_style") is not None
                      and not (k == "acopy" and i == op["o"] and not op["untouched"])}
            if lazy:
                pending += [{"op": "arealise", "x": i} for i in hidden]
        elif k == "arealise":
            hidden.pop(op["x"], None)
        else:
            hidden = {}
        as_lazy = hidden
        try:
            out.append(f"{tag} " + dump_real(objs) + " ## " + dump_attr_real(objs, canon, as_lazy))
        except ValueError as e:
            out.append(f"{tag} UNSNAPPABLE {e}")
        try:
            out.append(all_views_real(objs))
        except Exception as e:  # noqa: BLE001
            out.append(f"views raised {type(e).__name__}")
        op["tag"] = tag
        if bad is None and op.pop("list_fact", None):
            bad = "the _children list object after a children / typed assignment is not the one the code promises (old one on refusal, new one on success)"
        if bad is None:
            bad = arrays_overlap(objs)
        if bad:
            fails.append((j, bad))
            break
    return out, fails, errs


def run_attr_stream(ctx, n_hist, n_ops, want_model=True):
    stats = {"histories": 0, "ops": 0, "op_kinds": {}, "err_kinds": {}, "disagreements": 0, "copies": 0, "copies_with_overrides": 0,
             "override_kinds": {}, "copies_raising_part_way": 0, "raising_copies_leaving_a_reachable_half_built_copy": 0, "copies_of_owned_objects": 0, "copies_of_lazy_style_originals": 0, "copies_of_styleless_originals": 0, "copied_tree_sizes": {},
             "ops_after_copy_on_copy_side": 0, "ops_after_copy_on_original_side": 0, "ops_on_populated_collections": 0,
             "max_objects": 0, "containers_seen": 0, "lines_compared": 0, "tolerance": "exact (integer data, octahedral rotations)"}
    samples, failures = [], []
    hists = []
    for _ in range(n_hist):
        kinds = gen_kinds(ctx.rng)
        hists.append({"specs": [gen_spec(ctx.rng, k) for k in kinds], "ops": None})
    reals = [_limited(lambda h=h: attr_real_lines(h, ctx.rng, n_ops), 30, "one history of tree / attribute operations") for h in hists]
    all_lines, spans = [], []
    for h in hists:
        ls = attr_model_lines(h)
        spans.append((len(all_lines), len(all_lines) + len(ls)))
        all_lines += ls
    ml_all = run_driver(all_lines) if want_model else None
    for h, (a, b), (rl, fails, errs) in zip(hists, spans, reals):
        stats["histories"] += 1
        n_done = (len(rl) - 2) // 2
        stats["ops"] += n_done
        clone_ids, orig_ids = set(), set()
        for op in h["ops"][:n_done]:
            kk = op["op"]
            stats["op_kinds"][kk] = stats["op_kinds"].get(kk, 0) + 1
            count_setter(stats, op)
            mentioned = [op[key] for key in ("c", "o", "p", "a", "b", "x") if key in op and isinstance(op[key], int)] + list(op.get("objs", []))
            for ov in op.get("kw", []) if kk == "acopy" else []:
                mentioned += ([ov[1]] if ov[0] == "parent" and ov[1] >= 0 else []) + (list(ov[1]) if ov[0] == "children" else [])
            if clone_ids.intersection(mentioned):
                stats["ops_after_copy_on_copy_side"] += 1
            if orig_ids.intersection(mentioned):
                stats["ops_after_copy_on_original_side"] += 1
            if kk in ("copy", "acopy") and "size" in op:
                stats["copies"] += 1
                stats["copies_with_overrides"] += int(bool(op.get("kw")))
                for ov in op.get("kw", []):
                    stats["override_kinds"][ov[0]] = stats["override_kinds"].get(ov[0], 0) + 1
                stats["copies_raising_part_way"] += int(bool(op.get("raised")))
                stats["raising_copies_leaving_a_reachable_half_built_copy"] += int(bool(op.get("halfbuilt_reachable")))
                stats["copies_of_owned_objects"] += int(op.get("owned", False))
                stats["copies_of_lazy_style_originals"] += int(op.get("lazy", False))
                stats["copies_of_styleless_originals"] += int(op.get("untouched", False))
                stats["copied_tree_sizes"][str(op["size"])] = stats["copied_tree_sizes"].get(str(op["size"]), 0) + 1
                clone_ids.update(range(op["first"], op["first"] + op["size"]))
                orig_ids.add(op["o"])
            stats["ops_on_populated_collections"] += int(bool(op.get("pop")))
        for e in errs:
            stats["err_kinds"][e] = stats["err_kinds"].get(e, 0) + 1
        stats["max_objects"] = max(stats["max_objects"], rl[-2].count("|") // 2 + 1 if len(rl) >= 2 else 0)
        stats["containers_seen"] += rl[-2].count("@") if len(rl) >= 2 else 0
        if fails:
            j, bad = fails[0]
            failures.append({"key": "forestattr-fact:" + h["ops"][j]["op"], "desc": bad,
                             "replay": {"specs": h["specs"], "ops": h["ops"][: j + 1]}})
        if want_model:
            ml = ml_all[a:b]
            stats["lines_compared"] += min(len(ml), len(rl))
            diff = next((j for j, (x, y) in enumerate(zip(ml, rl)) if x != y), None)
            if diff is not None:
                stats["disagreements"] += 1
                if stats["disagreements"] <= 3:
                    ctx.broken.append({"kind": "correspondence", "name": "forestattr",
                                       "detail": {"specs": h["specs"], "ops": h["ops"][: max(0, (diff - 2) // 2 + 1)], "line": diff,
                                                  "model": ml[diff], "real": rl[diff]}})
            elif len(samples) < 2:
                samples.append({"specs": h["specs"][:3], "ops": h["ops"][:3], "state_after_3": rl[min(6, len(rl) - 2)][:600]})
    stats["samples"] = samples
    return stats, failures
