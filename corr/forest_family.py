"""correspondence stream `forest` (C11): histories of add / remove / parent= / children= /
sources= / sensors= / collections= / `+` on real magpylib objects and on Model/Forest.lean;
parent pointers, children lists and the stored typed views compared after every operation
(also after operations that raise).  The invariant oracle evaluates C11's statement on the
real objects after every prefix."""
from vlib.driver import run_driver

KINDS = "sec"  # s = source, e = sensor, c = collection


def gen_op(rng, cur_kinds, p_bad=0.06, children_of=None):
    cur_n = len(cur_kinds)
    colls = [i for i, k in enumerate(cur_kinds) if k == "c"]
    r = rng.random()
    pick = lambda k: [rng.randrange(cur_n) for _ in range(k)]
    if r < p_bad:
        return {"op": "bad", "what": rng.choice(["add-int", "add-str", "remove-int", "parent-int", "children-int", "add-nested-list"]),
                "c": rng.choice(colls)}
    if r < 0.40:
        return {"op": "add", "c": rng.choice(colls), "objs": pick(rng.choice([1, 1, 2, 3])), "ov": rng.random() < 0.6}
    if r < 0.58:
        if children_of and rng.random() < 0.4:
            # structured argument lists: a child collection followed by one of its own children, or a nested descendant
            c = rng.choice(colls)
            sub = [x for x in children_of.get(c, []) if cur_kinds[x] == "c" and children_of.get(x)]
            if sub:
                inner = rng.choice(sub)
                objs = [inner, rng.choice(children_of[inner])] if rng.random() < 0.6 else [rng.choice(children_of[inner])]
                return {"op": "remove", "c": c, "objs": objs, "rec": rng.random() < 0.8, "raise": rng.random() < 0.5}
        return {"op": "remove", "c": rng.choice(colls), "objs": pick(rng.choice([1, 1, 2, 3])),
                "rec": rng.random() < 0.6, "raise": rng.random() < 0.6}
    if r < 0.70:
        return {"op": "parent", "o": rng.randrange(cur_n), "p": rng.choice([-1] + colls + colls)}
    if r < 0.78:
        return {"op": "children", "c": rng.choice(colls), "objs": pick(rng.choice([0, 1, 2, 3]))}
    if r < 0.92:
        return {"op": "typed", "c": rng.choice(colls), "k": rng.choice("sec"), "objs": pick(rng.choice([0, 1, 2, 3]))}
    return {"op": "plus", "a": rng.randrange(cur_n), "b": rng.randrange(cur_n)}


def gen_kinds(rng):
    n = rng.choice([3, 4, 5, 6, 7, 8])
    kinds = [rng.choice("ssecc") for _ in range(n)]
    if "c" not in kinds:
        kinds[0] = "c"
    return kinds


def model_lines(h, plus_ok=None):
    lines = ["forest init " + " ".join(h["kinds"])]
    for op in h["ops"]:
        k = op["op"]
        ids = lambda xs: f"{len(xs)} " + " ".join(map(str, xs)) if xs else "0"
        if k == "add":
            lines.append(f"forest add {op['c']} {int(op['ov'])} {ids(op['objs'])}")
        elif k == "remove":
            lines.append(f"forest remove {op['c']} {int(op['rec'])} {int(op['raise'])} {ids(op['objs'])}")
        elif k == "parent":
            lines.append(f"forest parent {op['o']} {op['p']}")
        elif k == "children":
            lines.append(f"forest children {op['c']} {ids(op['objs'])}")
        elif k == "typed":
            lines.append(f"forest typed {op['c']} {op['k']} {ids(op['objs'])}")
        elif k == "plus":
            lines.append(f"forest plus {op['a']} {op['b']}")
        else:
            lines.append("forest bad")
    return lines


def mk(kind, i):
    import magpylib as magpy

    if kind == "c":
        return magpy.Collection()
    if kind == "e":
        return magpy.Sensor()
    return [magpy.magnet.Cuboid, magpy.current.Circle, magpy.misc.Dipole, magpy.magnet.Sphere][i % 4]()


def dump_real(objs):
    import magpylib as magpy

    idx = {id(o): i for i, o in enumerate(objs)}
    parts = []
    for i, o in enumerate(objs):
        p = o._parent
        ps = "-" if p is None else str(idx.get(id(p), "?"))
        if isinstance(o, magpy.Collection):
            f = lambda xs: "[" + ", ".join(str(idx.get(id(x), "?")) for x in xs) + "]"
            parts.append(f"{i}:{ps} C{f(o._children)} S{f(o._sources)} E{f(o._sensors)} L{f(o._collections)}")
        else:
            parts.append(f"{i}:{ps} C[] S[] E[] L[]")
    return " | ".join(parts)


def invariant_real(objs):
    """C11's statement evaluated on the real objects; returns None or a description"""
    import magpylib as magpy
    from magpylib._src.obj_classes.class_BaseExcitations import BaseSource

    for o in objs:
        p = o.parent
        if p is not None:
            if sum(1 for x in p.children if x is o) != 1:
                return f"{o!r} has parent {p!r} which lists it {sum(1 for x in p.children if x is o)} times"
        if isinstance(o, magpy.Collection):
            ch = o.children
            for x in ch:
                if x.parent is not o:
                    return f"{o!r} lists {x!r} whose parent is {x.parent!r}"
            if len({id(x) for x in ch}) != len(ch):
                return f"{o!r} lists a child twice"
            if [id(x) for x in o.sources] != [id(x) for x in ch if isinstance(x, BaseSource)]:
                return f"{o!r}.sources is not the ordered source part of children"
            if [id(x) for x in o.sensors] != [id(x) for x in ch if isinstance(x, magpy.Sensor)]:
                return f"{o!r}.sensors is not the ordered sensor part of children"
            if [id(x) for x in o.collections] != [id(x) for x in ch if isinstance(x, magpy.Collection)]:
                return f"{o!r}.collections is not the ordered collection part of children"
            # acyclic + *_all are the pre-order flattenings
            seen, flat = set(), []

            def rec(c, depth):
                if depth > len(objs) + 2:
                    raise RecursionError
                for x in c._children:
                    flat.append(x)
                    if isinstance(x, magpy.Collection):
                        if x is o:
                            raise RecursionError
                        rec(x, depth + 1)

            try:
                rec(o, 0)
            except RecursionError:
                return f"{o!r} contains itself"
            if [id(x) for x in o.children_all] != [id(x) for x in flat]:
                return f"{o!r}.children_all is not the pre-order flattening"
            if [id(x) for x in o.sources_all] != [id(x) for x in flat if isinstance(x, BaseSource)]:
                return f"{o!r}.sources_all wrong"
            if [id(x) for x in o.sensors_all] != [id(x) for x in flat if isinstance(x, magpy.Sensor)]:
                return f"{o!r}.sensors_all wrong"
            if [id(x) for x in o.collections_all] != [id(x) for x in flat if isinstance(x, magpy.Collection)]:
                return f"{o!r}.collections_all wrong"
            o.describe(return_string=True)
    return None


def real_lines(h, rng=None, n_ops=0):
    """returns (lines, invariant_failures, errkinds).  When `h["ops"]` is None the operations are
    generated while running (so that ids of collections created by `+` can be used later) and
    stored into `h`."""
    import magpylib as magpy
    from magpylib._src.exceptions import MagpylibBadUserInput

    objs = [mk(k, i) for i, k in enumerate(h["kinds"])]
    out = ["ok " + dump_real(objs)]
    inv_fail, errs = [], []
    lazy = h["ops"] is None
    if lazy:
        h["ops"] = []
    j = -1
    while True:
        j += 1
        if lazy:
            if j >= n_ops:
                break
            idx = {id(o): i for i, o in enumerate(objs)}
            ch = {i: [idx[id(x)] for x in o._children if id(x) in idx] for i, o in enumerate(objs) if isinstance(o, magpy.Collection)}
            op = gen_op(rng, ["c" if isinstance(o, magpy.Collection) else ("e" if isinstance(o, magpy.Sensor) else "s") for o in objs], children_of=ch)
            h["ops"].append(op)
        else:
            if j >= len(h["ops"]):
                break
            op = h["ops"][j]
        k = op["op"]
        try:
            if k == "add":
                objs[op["c"]].add(*[objs[i] for i in op["objs"]], override_parent=op["ov"])
            elif k == "remove":
                objs[op["c"]].remove(*[objs[i] for i in op["objs"]], recursive=op["rec"], errors="raise" if op["raise"] else "ignore")
            elif k == "parent":
                objs[op["o"]].parent = None if op["p"] < 0 else objs[op["p"]]
            elif k == "children":
                objs[op["c"]].children = [objs[i] for i in op["objs"]]
            elif k == "typed":
                attr = {"s": "sources", "e": "sensors", "c": "collections"}[op["k"]]
                setattr(objs[op["c"]], attr, [objs[i] for i in op["objs"]])
            elif k == "plus":
                new = objs[op["a"]] + objs[op["b"]]
                objs.append(new)
            elif k == "bad":
                c = objs[op["c"]]
                w = op["what"]
                if w == "add-int":
                    c.add(3)
                elif w == "add-str":
                    c.add("x")
                elif w == "remove-int":
                    c.remove(5)
                elif w == "parent-int":
                    c.parent = 7
                elif w == "children-int":
                    c.add(objs[0], 4) if False else c.add([4])
                elif w == "add-nested-list":
                    c.add([objs[0], "y"])
            tag = "ok"
        except MagpylibBadUserInput:
            tag = "err"
            errs.append(f"{k}:BadUserInput")
        except Exception as e:
            tag = "err"
            errs.append(f"{k}:Foreign:{type(e).__name__}")
        out.append(f"{tag} " + dump_real(objs))
        try:
            bad = invariant_real(objs)
        except Exception as e:  # e.g. infinite recursion inside the library on a cyclic tree
            bad = f"evaluating the views raised {type(e).__name__}"
        if bad:
            inv_fail.append((j, bad))
            break
    return out, inv_fail, errs


def run_stream(ctx, n_hist, n_ops, want_model=True):
    stats = {"histories": 0, "ops": 0, "op_kinds": {}, "err_kinds": {}, "rejected_ops": 0, "disagreements": 0,
             "distinct_states": 0, "max_objects": 0}
    seen = set()
    samples, inv_failures = [], []
    hists = [{"kinds": gen_kinds(ctx.rng), "ops": None} for _ in range(n_hist)]
    reals = [real_lines(h, ctx.rng, n_ops) for h in hists]
    all_lines, spans = [], []
    for h in hists:
        ls = model_lines(h)
        spans.append((len(all_lines), len(all_lines) + len(ls)))
        all_lines += ls
    ml_all = run_driver(all_lines) if want_model else None
    for h, (a, b), (rl, inv_fail, errs) in zip(hists, spans, reals):
        stats["histories"] += 1
        stats["ops"] += len(rl) - 1
        for op in h["ops"][: len(rl) - 1]:
            stats["op_kinds"][op["op"]] = stats["op_kinds"].get(op["op"], 0) + 1
        for e in errs:
            stats["err_kinds"][e] = stats["err_kinds"].get(e, 0) + 1
        stats["rejected_ops"] += len(errs)
        for line in rl:
            seen.add(line)
            stats["max_objects"] = max(stats["max_objects"], line.count("|") + 1)
        if inv_fail:
            j, bad = inv_fail[0]
            inv_failures.append({"key": "forest-invariant:" + h["ops"][j]["op"], "desc": bad,
                                 "replay": {"kinds": h["kinds"], "ops": h["ops"][: j + 1], "state": rl[-1]}})
        if want_model:
            ml = ml_all[a:b]
            diff = next((j for j, (x, y) in enumerate(zip(ml, rl)) if x != y), None)
            if diff is not None:
                stats["disagreements"] += 1
                ctx.broken.append({"kind": "correspondence", "name": "forest",
                                   "detail": {"kinds": h["kinds"], "ops": h["ops"][:diff], "line": diff,
                                              "model": ml[diff], "real": rl[diff]}})
                if stats["disagreements"] >= 3:
                    break
            elif len(samples) < 2:
                samples.append({"kinds": h["kinds"], "ops": h["ops"][:4], "state_after_4": rl[min(4, len(rl) - 1)]})
    stats["distinct_states"] = len(seen)
    stats["samples"] = samples
    return stats, inv_failures
