"""correspondence stream `forest` (C11, C18): histories of add / remove / parent= / children= /
sources= / sensors= / collections= / `+` / `copy()` on real magpylib objects and on
Model/Forest.lean + Model/Copy.lean; classes (source/sensor/collection), parent pointers, children
lists and the stored typed views of ALL objects (originals and clones) compared after every
operation (also after operations that raise).  The objects created by `x.copy()` are numbered in
pre-order of the copy's own `_children` lists, continuing after the existing objects, and can be
addressed by every later operation.  The invariant oracle evaluates C11's statement on the real
objects after every prefix.

stream `label` (C18): `add_iteration_suffix(name)` and the label of `obj.copy()` against
`addIterationSuffix` / `copyLabel`, exact comparison of the code points."""
from vlib.driver import run_driver

KINDS = "sec"  # s = source, e = sensor, c = collection


MAX_OBJS = 40  # no further copies once a history has this many objects


def gen_op(rng, cur_kinds, p_bad=0.06, children_of=None, p_copy=0.08):
    cur_n = len(cur_kinds)
    colls = [i for i, k in enumerate(cur_kinds) if k == "c"]
    r = rng.random()
    pick = lambda k: [rng.randrange(cur_n) for _ in range(k)]
    if r < p_bad:
        return {"op": "bad", "what": rng.choice(["add-int", "add-str", "remove-int", "parent-int", "children-int", "add-nested-list"]),
                "c": rng.choice(colls)}
    if cur_n < MAX_OBJS and rng.random() < p_copy:
        # copies of populated (possibly nested, possibly owned) collections are the interesting ones
        full = [c for c in colls if children_of and children_of.get(c)]
        if full and rng.random() < 0.65:
            if rng.random() < 0.5:  # the collection with the largest tree below it (nested copies)
                def size(c, d=0):
                    return 1 + sum(size(x, d + 1) for x in children_of.get(c, [])) if d < 64 else 1
                return {"op": "copy", "o": max(full, key=size)}
            return {"op": "copy", "o": rng.choice(full)}
        return {"op": "copy", "o": rng.randrange(cur_n)}
    if r < 0.40:
        full = [c for c in colls if children_of and children_of.get(c)]
        if full and rng.random() < 0.12:
            # the argument is the LIVE children list of a collection (`new.add(old.children, override_parent=True)`, also of the
            # receiving collection itself): it names the objects that were its children when the call was made
            src = rng.choice(full)
            return {"op": "add", "c": rng.choice(colls), "objs": list(children_of[src]), "ov": rng.random() < 0.8, "live": src}
        return {"op": "add", "c": rng.choice(colls), "objs": pick(rng.choice([1, 1, 2, 3])), "ov": rng.random() < 0.6}
    if r < 0.58:
        if children_of and rng.random() < 0.4:
            # removal of a DEEP descendant (grandchild or deeper) through the top collection, recursive
            def deep(c, d=0, seen=()):
                out = []
                for x in children_of.get(c, []):
                    if x in seen or d > 16:
                        continue
                    if d >= 1:
                        out.append((d, x))
                    out += deep(x, d + 1, seen + (c,))
                return out
            cands = [(c, deep(c)) for c in colls]
            cands = [(c, ds) for c, ds in cands if ds]
            if cands and rng.random() < 0.5:
                c, ds = rng.choice(cands)
                dmax = max(d for d, _ in ds)
                return {"op": "remove", "c": c, "objs": [rng.choice([x for d, x in ds if d == dmax])], "rec": True, "raise": rng.random() < 0.5}
            # structured argument lists: a child collection followed by one of its own children, or a nested descendant
            c = rng.choice(colls)
            sub = [x for x in children_of.get(c, []) if cur_kinds[x] == "c" and children_of.get(x)]
            if sub:
                inner = rng.choice(sub)
                objs = [inner, rng.choice(children_of[inner])] if rng.random() < 0.6 else [rng.choice(children_of[inner])]
                return {"op": "remove", "c": c, "objs": objs, "rec": rng.random() < 0.8, "raise": rng.random() < 0.5}
        return {"op": "remove", "c": rng.choice(colls), "objs": pick(rng.choice([1, 1, 2, 3])),
                "rec": rng.random() < 0.6, "raise": rng.random() < 0.6}
    if r < 0.70:
        return {"op": "parent", "o": rng.randrange(cur_n), "p": rng.choice([-1] + colls + colls)}
    if r < 0.78:
        return {"op": "children", "c": rng.choice(colls), "objs": pick(rng.choice([0, 1, 2, 3]))}
    if r < 0.92:
        return {"op": "typed", "c": rng.choice(colls), "k": rng.choice("sec"), "objs": pick(rng.choice([0, 1, 2, 3]))}
    return {"op": "plus", "a": rng.randrange(cur_n), "b": rng.randrange(cur_n)}


def gen_kinds(rng):
    n = rng.choice([3, 4, 5, 6, 7, 8])
    kinds = [rng.choice("ssecc") for _ in range(n)]
    if "c" not in kinds:
        kinds[0] = "c"
    return kinds


def model_lines(h, plus_ok=None):
    lines = ["forest init " + " ".join(h["kinds"])]
    for op in h["ops"]:
        k = op["op"]
        ids = lambda xs: f"{len(xs)} " + " ".join(map(str, xs)) if xs else "0"
        if k == "add":
            lines.append(f"forest add {op['c']} {int(op['ov'])} {ids(op['objs'])}")
        elif k == "remove":
            lines.append(f"forest remove {op['c']} {int(op['rec'])} {int(op['raise'])} {ids(op['objs'])}")
        elif k == "parent":
            lines.append(f"forest parent {op['o']} {op['p']}")
        elif k == "children":
            lines.append(f"forest children {op['c']} {ids(op['objs'])}")
        elif k == "typed":
            lines.append(f"forest typed {op['c']} {op['k']} {ids(op['objs'])}")
        elif k == "plus":
            lines.append(f"forest plus {op['a']} {op['b']}")
        elif k == "copy":
            lines.append(f"forest copy {op['o']}")
        else:
            lines.append("forest bad")
    return lines


def mk(kind, i):
    import magpylib as magpy

    if kind == "c":
        return magpy.Collection()
    if kind == "e":
        return magpy.Sensor()
    return [magpy.magnet.Cuboid, magpy.current.Circle, magpy.misc.Dipole, magpy.magnet.Sphere][i % 4]()


def kind_of(o):
    import magpylib as magpy

    return "c" if isinstance(o, magpy.Collection) else ("e" if isinstance(o, magpy.Sensor) else "s")


def dump_real(objs):
    import magpylib as magpy

    idx = {}
    for i, o in enumerate(objs):
        idx.setdefault(id(o), i)  # an object reached twice keeps its first number (so sharing shows up as a difference)
    parts = []
    for i, o in enumerate(objs):
        p = o._parent
        ps = "-" if p is None else str(idx.get(id(p), "?"))
        if isinstance(o, magpy.Collection):
            f = lambda xs: "[" + ", ".join(str(idx.get(id(x), "?")) for x in xs) + "]"
            parts.append(f"{i}{kind_of(o)}:{ps} C{f(o._children)} S{f(o._sources)} E{f(o._sensors)} L{f(o._collections)}")
        else:
            parts.append(f"{i}{kind_of(o)}:{ps} C[] S[] E[] L[]")
    return " | ".join(parts)


def preorder(root, limit=10_000):
    """the objects of a (copied) tree in pre-order of the stored `_children` lists"""
    out, stack = [], [root]
    while stack and len(out) < limit:
        x = stack.pop()
        out.append(x)
        stack.extend(reversed(list(getattr(x, "_children", []))))
    return out


def copy_facts(orig, new, objs, clones):
    """C18's tree-level statement evaluated on the real objects right after `new = orig.copy()`;
    returns None or a description"""
    if new is orig:
        return "copy() returned the original object"
    if type(new) is not type(orig):
        return f"copy of {type(orig).__name__} is a {type(new).__name__}"
    if new._parent is not None:
        return f"the copy has parent {new._parent!r}"
    old_ids = {id(o) for o in objs}
    if len({id(x) for x in clones}) != len(clones):
        return "an object occurs twice in the copied tree"
    shared = [x for x in clones if id(x) in old_ids]
    if shared:
        return f"the copied tree contains the existing object {shared[0]!r}"
    originals = preorder(orig)
    if len(originals) != len(clones):
        return f"original subtree has {len(originals)} objects, the copy {len(clones)}"
    pos = {id(x): i for i, x in enumerate(originals)}
    cpos = {id(x): i for i, x in enumerate(clones)}
    for a, b in zip(originals, clones):
        if type(a) is not type(b):
            return f"clone of {a!r} is {b!r}"
        for attr in ("_children", "_sources", "_sensors", "_collections"):
            if hasattr(a, attr) or hasattr(b, attr):
                la, lb = getattr(a, attr, None), getattr(b, attr, None)
                if la is None or lb is None or la is lb or [pos.get(id(x)) for x in la] != [cpos.get(id(x)) for x in lb]:
                    return f"{attr} of the clone of {a!r} is not the list of clones, in order"
        if a is not orig and (b._parent is None or pos.get(id(a._parent)) != cpos.get(id(b._parent))):
            return f"parent of the clone of {a!r} is not the clone of its parent"
    return None


def invariant_real(objs):
    """C11's statement evaluated on the real objects; returns None or a description"""
    import magpylib as magpy
    from magpylib._src.obj_classes.class_BaseExcitations import BaseSource

    for o in objs:
        p = o.parent
        if p is not None:
            if sum(1 for x in p.children if x is o) != 1:
                return f"{o!r} has parent {p!r} which lists it {sum(1 for x in p.children if x is o)} times"
        if isinstance(o, magpy.Collection):
            ch = o.children
            for x in ch:
                if x.parent is not o:
                    return f"{o!r} lists {x!r} whose parent is {x.parent!r}"
            if len({id(x) for x in ch}) != len(ch):
                return f"{o!r} lists a child twice"
            if [id(x) for x in o.sources] != [id(x) for x in ch if isinstance(x, BaseSource)]:
                return f"{o!r}.sources is not the ordered source part of children"
            if [id(x) for x in o.sensors] != [id(x) for x in ch if isinstance(x, magpy.Sensor)]:
                return f"{o!r}.sensors is not the ordered sensor part of children"
            if [id(x) for x in o.collections] != [id(x) for x in ch if isinstance(x, magpy.Collection)]:
                return f"{o!r}.collections is not the ordered collection part of children"
            # acyclic + *_all are the pre-order flattenings
            seen, flat = set(), []

            def rec(c, depth):
                if depth > len(objs) + 2:
                    raise RecursionError
                for x in c._children:
                    flat.append(x)
                    if isinstance(x, magpy.Collection):
                        if x is o:
                            raise RecursionError
                        rec(x, depth + 1)

            try:
                rec(o, 0)
            except RecursionError:
                return f"{o!r} contains itself"
            if [id(x) for x in o.children_all] != [id(x) for x in flat]:
                return f"{o!r}.children_all is not the pre-order flattening"
            if [id(x) for x in o.sources_all] != [id(x) for x in flat if isinstance(x, BaseSource)]:
                return f"{o!r}.sources_all wrong"
            if [id(x) for x in o.sensors_all] != [id(x) for x in flat if isinstance(x, magpy.Sensor)]:
                return f"{o!r}.sensors_all wrong"
            if [id(x) for x in o.collections_all] != [id(x) for x in flat if isinstance(x, magpy.Collection)]:
                return f"{o!r}.collections_all wrong"
            o.describe(return_string=True)
    return None


def real_lines(h, rng=None, n_ops=0, p_copy=0.08):
    """returns (lines, invariant_failures, errkinds).  When `h["ops"]` is None the operations are
    generated while running (so that ids of collections created by `+` and of clones created by
    `copy()` can be used later) and stored into `h`."""
    import magpylib as magpy
    from magpylib._src.exceptions import MagpylibBadUserInput

    objs = [mk(k, i) for i, k in enumerate(h["kinds"])]
    out = ["ok " + dump_real(objs)]
    inv_fail, errs = [], []
    lazy = h["ops"] is None
    if lazy:
        h["ops"] = []
    j = -1
    while True:
        j += 1
        if lazy:
            if j >= n_ops:
                break
            idx = {id(o): i for i, o in enumerate(objs)}
            ch = {i: [idx[id(x)] for x in o._children if id(x) in idx] for i, o in enumerate(objs) if isinstance(o, magpy.Collection)}
            if j == 0:
                # every fourth history starts with a scripted chain c0 > c1 > c2 > leaf followed by the removal of the leaf
                # through the top collection (a descendant three levels down)
                cs = [i for i, o in enumerate(objs) if isinstance(o, magpy.Collection)]
                lf = [i for i, o in enumerate(objs) if not isinstance(o, magpy.Collection)]
                h["script"] = []
                if len(cs) >= 3 and lf and rng.random() < 0.25:
                    rng.shuffle(cs)
                    c0, c1, c2 = cs[:3]
                    leaf = rng.choice(lf)
                    h["script"] = [{"op": "add", "c": c0, "objs": [c1], "ov": True}, {"op": "add", "c": c1, "objs": [c2], "ov": True},
                                   {"op": "add", "c": c2, "objs": [leaf], "ov": True},
                                   {"op": "remove", "c": c0, "objs": [leaf], "rec": True, "raise": rng.random() < 0.5}]
            if h.get("script"):
                op = h["script"].pop(0)
            else:
                op = gen_op(rng, [kind_of(o) for o in objs], children_of=ch, p_copy=p_copy)
            h["ops"].append(op)
        else:
            if j >= len(h["ops"]):
                break
            op = h["ops"][j]
        k = op["op"]
        bad = None
        try:
            if k == "copy":
                if not 0 <= op["o"] < len(objs):
                    raise MagpylibBadUserInput("no such object")  # the model refuses the same way
                orig = objs[op["o"]]
                had_parent = orig._parent
                new = orig.copy()
                clones = preorder(new)
                bad = copy_facts(orig, new, objs, clones)
                if bad is None and orig._parent is not had_parent:
                    bad = "copy() changed the parent of the original"
                op["size"] = len(clones)
                op["first"] = len(objs)
                op["owned"] = had_parent is not None
                objs.extend(clones)
            elif k == "add" and "live" in op:
                live = objs[op["live"]].children  # the collection's own list object, handed over as ONE list argument
                assert [id(x) for x in live] == [id(objs[i]) for i in op["objs"]], "harness bookkeeping: children_of out of date"
                objs[op["c"]].add(live, override_parent=op["ov"])
            elif k == "add":
                objs[op["c"]].add(*[objs[i] for i in op["objs"]], override_parent=op["ov"])
            elif k == "remove":
                objs[op["c"]].remove(*[objs[i] for i in op["objs"]], recursive=op["rec"], errors="raise" if op["raise"] else "ignore")
            elif k == "parent":
                objs[op["o"]].parent = None if op["p"] < 0 else objs[op["p"]]
            elif k == "children":
                objs[op["c"]].children = [objs[i] for i in op["objs"]]
            elif k == "typed":
                attr = {"s": "sources", "e": "sensors", "c": "collections"}[op["k"]]
                setattr(objs[op["c"]], attr, [objs[i] for i in op["objs"]])
            elif k == "plus":
                new = objs[op["a"]] + objs[op["b"]]
                objs.append(new)
            elif k == "bad":
                c = objs[op["c"]]
                w = op["what"]
                if w == "add-int":
                    c.add(3)
                elif w == "add-str":
                    c.add("x")
                elif w == "remove-int":
                    c.remove(5)
                elif w == "parent-int":
                    c.parent = 7
                elif w == "children-int":
                    c.add(objs[0], 4) if False else c.add([4])
                elif w == "add-nested-list":
                    c.add([objs[0], "y"])
            tag = "ok"
        except MagpylibBadUserInput:
            tag = "err"
            errs.append(f"{k}:BadUserInput")
        except Exception as e:
            tag = "err"
            errs.append(f"{k}:Foreign:{type(e).__name__}")
        out.append(f"{tag} " + dump_real(objs))
        if bad is None:
            try:
                bad = invariant_real(objs)
            except Exception as e:  # e.g. infinite recursion inside the library on a cyclic tree
                bad = f"evaluating the views raised {type(e).__name__}"
        if bad:
            inv_fail.append((j, bad))
            break
    return out, inv_fail, errs


def run_stream(ctx, n_hist, n_ops, want_model=True, p_copy=0.08):
    stats = {"histories": 0, "ops": 0, "op_kinds": {}, "err_kinds": {}, "rejected_ops": 0, "disagreements": 0,
             "distinct_states": 0, "max_objects": 0, "copies": 0, "copies_of_owned_objects": 0, "copied_tree_sizes": {},
             "ops_addressing_clones": 0}
    seen = set()
    samples, inv_failures = [], []
    hists = [{"kinds": gen_kinds(ctx.rng), "ops": None} for _ in range(n_hist)]
    reals = [real_lines(h, ctx.rng, n_ops, p_copy) for h in hists]
    all_lines, spans = [], []
    for h in hists:
        ls = model_lines(h)
        spans.append((len(all_lines), len(all_lines) + len(ls)))
        all_lines += ls
    ml_all = run_driver(all_lines) if want_model else None
    for h, (a, b), (rl, inv_fail, errs) in zip(hists, spans, reals):
        stats["histories"] += 1
        stats["ops"] += len(rl) - 1
        clone_ids = set()
        for op in h["ops"][: len(rl) - 1]:
            stats["op_kinds"][op["op"]] = stats["op_kinds"].get(op["op"], 0) + 1
            mentioned = [op[key] for key in ("c", "o", "p", "a", "b") if key in op] + list(op.get("objs", []))
            if clone_ids.intersection(mentioned):
                stats["ops_addressing_clones"] += 1
            if op["op"] == "copy" and "size" in op:
                stats["copies"] += 1
                stats["copies_of_owned_objects"] += int(op["owned"])
                stats["copied_tree_sizes"][str(op["size"])] = stats["copied_tree_sizes"].get(str(op["size"]), 0) + 1
                clone_ids.update(range(op["first"], op["first"] + op["size"]))
        for e in errs:
            stats["err_kinds"][e] = stats["err_kinds"].get(e, 0) + 1
        stats["rejected_ops"] += len(errs)
        for line in rl:
            seen.add(line)
            stats["max_objects"] = max(stats["max_objects"], line.count("|") + 1)
        if inv_fail:
            j, bad = inv_fail[0]
            inv_failures.append({"key": "forest-invariant:" + h["ops"][j]["op"], "desc": bad,
                                 "replay": {"kinds": h["kinds"], "ops": h["ops"][: j + 1], "state": rl[-1]}})
        if want_model:
            ml = ml_all[a:b]
            diff = next((j for j, (x, y) in enumerate(zip(ml, rl)) if x != y), None)
            if diff is not None:
                stats["disagreements"] += 1
                ctx.broken.append({"kind": "correspondence", "name": "forest",
                                   "detail": {"kinds": h["kinds"], "ops": h["ops"][:diff], "line": diff,
                                              "model": ml[diff], "real": rl[diff]}})
                if stats["disagreements"] >= 3:
                    break
            elif len(samples) < 2:
                samples.append({"kinds": h["kinds"], "ops": h["ops"][:4], "state_after_4": rl[min(4, len(rl) - 1)]})
    stats["distinct_states"] = len(seen)
    stats["samples"] = samples
    return stats, inv_failures


# ---------------------------------------------------------------------------------------------
# stream `label`: add_iteration_suffix / the label of a copy


def gen_name(rng):
    """labels over letters, digits, underscores (and a few other printable ASCII characters), with
    trailing digit runs of width 1-4 incl. the 9 / 99 / 999 / 9999 roll-over, leading zeros,
    all-digit names, the empty name, names ending in one or more underscores"""
    alpha = "abcxyzABCXYZ"
    body_chars = alpha + "_" + "0123456789" + " -.()"
    r = rng.random()
    if r < 0.03:
        return ""
    if r < 0.06:
        return "_" * rng.choice([1, 1, 2, 3])
    body = "".join(rng.choice(alpha if rng.random() < 0.7 else body_chars) for _ in range(rng.choice([0, 1, 1, 2, 3, 5, 8])))
    sep = rng.choice(["", "", "_", "_", "__", "-", " "])
    w = rng.choice([0, 0, 1, 1, 2, 2, 3, 4])
    if w == 0:
        digits = ""
    else:
        digits = rng.choice(["9" * w, "0" * w, "0" * (w - 1) + "9", "1" + "9" * (w - 1), "8" + "9" * (w - 1),
                             "".join(rng.choice("0123456789") for _ in range(w)),
                             "".join(rng.choice("0123456789") for _ in range(w)),
                             "".join(rng.choice("09") for _ in range(w))])
    if rng.random() < 0.1 and digits:
        body = ""  # all-digit names
        sep = rng.choice(["", "", "_"])
    if rng.random() < 0.08:
        # a digit run in the middle that must be left alone
        body += rng.choice(["7", "99", "12_"]) + rng.choice(alpha)
    return body + sep + digits


def enc(s):
    return " ".join([str(len(s))] + [str(ord(c)) for c in s])


def run_label_stream(ctx, n_names, n_copies, want_model=True):
    """`add_iteration_suffix(name)` for `n_names` generated names, and `obj.copy().style.label` for
    `n_copies` real objects (labelled, unlabelled with / without a style object) against the model"""
    import magpylib as magpy
    from magpylib._src.utility import add_iteration_suffix

    stats = {"names": 0, "copies": 0, "disagreements": 0, "shapes": {}, "rollovers": 0, "distinct_names": 0}
    lines, real, meta = [], [], []
    names = ["", "_", "col", "col_", "col1", "col_02", "x09", "x99", "9", "99", "999", "9999", "0099", "a__", "a_9", "a9_", "x_0999", "007"]
    names += [gen_name(ctx.rng) for _ in range(n_names)]
    for name in names:
        lines.append("forest label " + enc(name))
        try:
            real.append("ok " + enc(add_iteration_suffix(name)))
        except Exception as e:  # noqa: BLE001
            real.append(f"err {type(e).__name__}")
        meta.append({"fn": "add_iteration_suffix", "name": name})
        stats["names"] += 1
        m = len(name) - len(name.rstrip("0123456789"))
        shape = "empty" if not name else ("all-digits" if m == len(name) else (f"digits{min(m, 5)}" if m else ("underscore-end" if name.endswith("_") else "plain")))
        stats["shapes"][shape] = stats["shapes"].get(shape, 0) + 1
        stats["rollovers"] += int(m > 0 and set(name[-m:]) == {"9"})
    stats["distinct_names"] = len(set(names))
    makers = [("Sensor", magpy.Sensor), ("Collection", magpy.Collection), ("Cuboid", magpy.magnet.Cuboid),
              ("Dipole", magpy.misc.Dipole), ("Circle", magpy.current.Circle)]
    for i in range(n_copies):
        cls, mk_ = makers[i % len(makers)]
        mode = ctx.rng.choice(["label", "label", "label", "touched", "kwargs", "untouched"])
        if mode == "label":
            name = gen_name(ctx.rng)
            obj = mk_(style_label=name)
            lines.append(f"forest copylabel {enc(cls)} 1 1 {enc(name)}")
        elif mode == "touched":  # style object exists, no label
            obj = mk_()
            _ = obj.style
            name = None
            lines.append(f"forest copylabel {enc(cls)} 1 0")
        elif mode == "kwargs":  # style keyword arguments given, no label
            obj = mk_(style_opacity=0.5)
            name = None
            lines.append(f"forest copylabel {enc(cls)} 1 0")
        else:  # no style object, no style arguments: the copy stays unlabelled
            obj = mk_()
            name = None
            lines.append(f"forest copylabel {enc(cls)} 0 0")
        try:
            lab = obj.copy().style.label
            real.append("ok none" if lab is None else "ok " + enc(lab))
            if obj.style.label != name:
                real[-1] += " original-label-changed"
        except Exception as e:  # noqa: BLE001
            real.append(f"err {type(e).__name__}")
        meta.append({"fn": f"{cls}.copy().style.label", "mode": mode, "name": name})
        stats["copies"] += 1
        stats["shapes"]["copy:" + mode] = stats["shapes"].get("copy:" + mode, 0) + 1
    if want_model:
        ml = run_driver(lines)
        for x, y, mt, ln in zip(ml, real, meta, lines):
            if x != y:
                stats["disagreements"] += 1
                if stats["disagreements"] <= 3:
                    ctx.broken.append({"kind": "correspondence", "name": "label",
                                       "detail": {**mt, "line": ln, "model": x, "real": y}})
    stats["samples"] = [{"name": n, "iterated": add_iteration_suffix(n)} for n in names[18:24]]
    return stats
