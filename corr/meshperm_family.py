"""correspondence stream `meshperm` (C16): the chain vertices + faces -> reoriented faces -> (n,3,3) mesh -> field, model against
real code, on VARIANTS OF THE SAME MESH: faces permuted, windings rotated, windings flipped, vertices renumbered (faces mapped
through sigma, vertex table permuted by sigma^-1), and all of these together.

Per variant, exact unless said otherwise:
  * `fix_trimesh_orientation(vertices, faces)` and `vertices[new_faces]`  vs  Model/MeshPipeline.lean `fixTrimeshOrientation`,
    `reorientedMesh` (the seed verdicts are computed BY THE MODEL in IEEE double: `isFacetInwards`) — mask, faces, mesh bit for bit;
  * `get_disconnected_faces_subsets(faces)` (the FACE subsets, in order) vs `facesSubsets`;
  * `BHJM_magnet_trimesh(field, observer, mesh, polarization)` vs `bhjmTrimesh` on the modelled mesh with the modelled inside test:
    inside verdict exact, field to 1e-7 of the polarization scale.
Across the variants of one mesh (real code only, counted, any difference is reported as a failing input): the set of oriented
faces after reorientation (vertex numbers mapped back, cyclic start ignored) and the field at the observers."""
import warnings

import numpy as np

from corr.kern_family import enc, unbits
from corr.mesh_family import BASES, COORDS
from vlib.driver import run_driver

VARIANTS = ["base", "faceperm", "rotate", "flip", "renumber", "all"]


def _lshape():
    poly = np.array([(0, 0), (2, 0), (2, 1), (1, 1), (1, 2), (0, 2)], float)
    k = len(poly)
    v = np.concatenate([np.c_[poly, np.zeros(k)], np.c_[poly, np.ones(k)]])
    f = []
    for a, b, c in [(0, 1, 2), (0, 2, 3), (0, 3, 5), (3, 4, 5)]:
        f += [[a, c, b], [k + a, k + b, k + c]]
    for i in range(k):
        j = (i + 1) % k
        f += [[i, j, k + j], [i, k + j, k + i]]
    return v, np.array(f)


def gen_base(rng, nps):
    """a closed body (or two: apart, or touching in one vertex) with generic coordinates; returns kind, vertices, faces"""
    kind = rng.choice(["CUBE", "TETRA", "OCTA", "RING", "hull", "hull", "lshape", "two", "touch"])
    if kind in BASES:
        v = np.array(COORDS[kind], float) * nps.uniform(0.5, 2.0, 3)
        f = np.array(BASES[kind])
    elif kind == "hull":
        from scipy.spatial import ConvexHull
        v = nps.normal(size=(rng.choice([5, 7, 10, 14]), 3))
        h = ConvexHull(v)
        used = np.unique(h.simplices)
        remap = -np.ones(len(v), int)
        remap[used] = np.arange(len(used))
        v, f = v[used], remap[h.simplices]
    elif kind == "lshape":
        v, f = _lshape()
    else:
        a, b = rng.choice(["CUBE", "TETRA", "OCTA"]), rng.choice(["CUBE", "TETRA", "OCTA"])
        va, vb = np.array(COORDS[a], float), np.array(COORDS[b], float)
        fa, fb = np.array(BASES[a]), np.array(BASES[b])
        if kind == "two":
            vb = vb + np.array([5.0, 0.3, -0.2])
            v, f = np.concatenate([va, vb]), np.concatenate([fa, fb + len(va)])
        else:  # the second body touches the first in ONE vertex (index shared): reflected so that it lies beyond the supporting plane there
            d = va[0] - va.mean(axis=0)
            d /= np.linalg.norm(d)
            wb = vb - vb[0]
            e = wb.mean(axis=0)
            e /= np.linalg.norm(e)
            w = e - d
            H = np.eye(3) if np.linalg.norm(w) < 1e-12 else np.eye(3) - 2 * np.outer(w, w) / np.dot(w, w)
            vb = va[0] + 0.5 * wb @ H.T
            fb2 = fb + len(va) - 1
            fb2[fb == 0] = 0
            v, f = np.concatenate([va, vb[1:]]), np.concatenate([fa, fb2])
    if rng.random() < 0.5:  # generic position: a random rotation-free affine stretch and shift keeps the combinatorics
        v = v * nps.uniform(0.7, 1.4, 3) + nps.uniform(-1, 1, 3)
    return kind, np.ascontiguousarray(v, float), np.ascontiguousarray(f, int)


def make_variant(rng, v, f, how):
    """returns vertices, faces, sigma (new index of old vertex), face order (variant face k = base face order[k])"""
    n, m = len(v), len(f)
    sigma = np.arange(n)
    order = np.arange(m)
    f2 = f.copy()
    if how in ("renumber", "all"):
        sigma = np.array(rng.sample(range(n), n))
    if how in ("faceperm", "all"):
        order = np.array(rng.sample(range(m), m))
    v2 = np.empty_like(v)
    v2[sigma] = v
    f2 = sigma[f2][order]
    if how in ("rotate", "all"):
        f2 = np.array([np.roll(t, rng.randrange(3)) for t in f2])
    if how in ("flip", "all"):
        p = rng.choice([0.2, 0.5, 0.8, 1.0])
        f2 = np.array([t[[0, 2, 1]] if rng.random() < p else t for t in f2])
    return v2, np.ascontiguousarray(f2), sigma, order


def canon_faces(faces, sigma):
    """set of oriented faces in the base numbering, each rotated to start with its smallest index"""
    inv = np.argsort(sigma)
    out = []
    for t in inv[np.asarray(faces)]:
        k = int(np.argmin(t))
        out.append(tuple(int(x) for x in np.roll(t, -k)))
    return sorted(out)


def observers(rng, nps, v, k):
    lo, hi = v.min(axis=0), v.max(axis=0)
    cen, ext = (lo + hi) / 2, (hi - lo)
    pts = []
    for _ in range(k):
        c = rng.random()
        if c < 0.5:
            pts.append(cen + nps.uniform(-0.45, 0.45, 3) * ext)      # in the box: inside or outside the body
        elif c < 0.8:
            pts.append(cen + nps.uniform(-1.5, 1.5, 3) * ext)
        else:
            pts.append(cen + nps.uniform(-1, 1, 3) * ext * 10 ** nps.uniform(0.5, 2))
    return np.array(pts)


def run_stream(ctx, n_cases):
    import magpylib._src.fields.field_BH_triangularmesh as tm
    from magpylib import mu_0

    rng = ctx.rng
    stats = {"meshes": 0, "variants": {k: 0 for k in VARIANTS}, "rows_reorient": 0, "rows_facesubsets": 0, "rows_field": 0,
             "field_inside_rows": 0, "with_flipped_faces": 0, "kinds": {}, "disagreements": 0, "tolerance_field": 1e-7,
             "cross_variant_face_set_differs": 0, "cross_variant_field_differs": 0, "cross_variant_checks": 0, "distinct": 0}
    lines, expect = [], []
    with warnings.catch_warnings():
        warnings.simplefilter("ignore")
        for _ in range(n_cases):
            nps = np.random.default_rng(rng.randrange(2**31))
            kind, v, f = gen_base(rng, nps)
            stats["kinds"][kind] = stats["kinds"].get(kind, 0) + 1
            stats["meshes"] += 1
            obs = observers(rng, nps, v, 2)
            pol = nps.uniform(-1, 1, 3)
            fld = rng.choice("BBHJ")
            base_set, base_field = None, None
            for how in VARIANTS:
                v2, f2, sigma, order = make_variant(rng, v, f, how)
                stats["variants"][how] += 1
                # (1) reorientation + vertices[faces]
                mask = tm.get_inwards_mask(v2.copy(), f2.copy())
                fixed = tm.fix_trimesh_orientation(v2.copy(), f2.copy())
                msh = v2[fixed]
                head = f"{len(v2)} {enc(v2)} {len(f2)} " + " ".join(" ".join(map(str, t)) for t in f2.tolist())
                lines.append("trimesh reorient " + head)
                expect.append(("reorient", how, kind, v2, f2,
                               "reorient mask " + "".join("1" if b else "0" for b in mask) + " faces " +
                               " ".join(",".join(str(int(x)) for x in t) for t in fixed) + " mesh " + " ".join(enc(t) for t in msh)))
                stats["rows_reorient"] += 1
                stats["with_flipped_faces"] += bool(mask.any())
                # (2) the face subsets
                subs = tm.get_disconnected_faces_subsets(f2.copy())
                lines.append("mesh facesubsets " + f"{len(f2)} " + " ".join(" ".join(map(str, t)) for t in f2.tolist()))
                expect.append(("facesubsets", how, kind, v2, f2,
                               "facesubsets " + " | ".join(" ".join(",".join(str(int(x)) for x in t) for t in s) for s in subs)))
                stats["rows_facesubsets"] += 1
                # (3) the field
                fields = []
                for o in obs:
                    real = np.asarray(tm.BHJM_magnet_trimesh(fld, o[None].copy(), msh[None].copy(), pol[None].copy()), float)[0]
                    ins = bool(tm.mask_inside_trimesh(o[None].copy(), msh.copy())[0])
                    lines.append(f"trimesh meshfield {fld} " + head + f" {enc(pol)} {enc(o)}")
                    expect.append(("field", how, kind, v2, f2, (ins, real, fld, o, pol)))
                    stats["rows_field"] += 1
                    stats["field_inside_rows"] += ins
                    fields.append(real)
                # across the variants (real code only)
                cs = canon_faces(fixed, sigma)
                fields = np.array(fields)
                if base_set is None:
                    base_set, base_field = cs, fields
                else:
                    stats["cross_variant_checks"] += 1
                    scale = float(np.abs(pol).max()) * (1.0 if fld in "BJ" else 1.0 / mu_0)
                    if cs != base_set:
                        stats["cross_variant_face_set_differs"] += 1
                        ctx.failing.append({"key": f"perm:{kind}:{how}:oriented-faces", "desc": "reoriented faces of a variant differ from the base mesh's",
                                            "replay": {"vertices": v2.tolist(), "faces": f2.tolist(), "variant": how}})
                    elif not np.all(np.abs(fields - base_field) <= 1e-7 * scale):
                        stats["cross_variant_field_differs"] += 1
                        ctx.failing.append({"key": f"perm:{kind}:{how}:field", "desc": "field of a variant differs from the base mesh's",
                                            "replay": {"vertices": v2.tolist(), "faces": f2.tolist(), "variant": how, "observers": obs.tolist(),
                                                       "polarization": pol.tolist(), "field": fld}})
    out = run_driver(lines) if lines else []
    seen = set()
    for o, (what, how, kind, v2, f2, want) in zip(out, expect):
        if what == "field":
            ins, real, fld, ob, pol = want
            toks = o.split()
            ok = False
            try:
                got_ins = toks[0] == "true"
                got = np.array([unbits(t) for t in toks[1:4]])
                scale = float(np.abs(pol).max()) * (1.0 if fld in "BJ" else 1.0 / mu_0)
                ok = got_ins == ins and bool(np.all(np.abs(got - real) <= 1e-7 * max(scale, float(np.abs(real).max()))))
            except Exception:  # noqa: BLE001
                got = o
            seen.add((kind, how, ins))
            detail = {"what": what, "variant": how, "kind": kind, "vertices": v2.tolist(), "faces": f2.tolist(), "observer": ob.tolist(),
                      "polarization": pol.tolist(), "field": fld, "model": o[:300], "real": [ins, real.tolist()]}
        else:
            ok = o.strip() == want.strip()
            seen.add((kind, how, what, want[:60]))
            detail = {"what": what, "variant": how, "kind": kind, "vertices": v2.tolist(), "faces": f2.tolist(), "model": o[:600], "real": want[:600]}
        if not ok:
            stats["disagreements"] += 1
            if stats["disagreements"] <= 3:
                ctx.broken.append({"kind": "correspondence", "name": "meshperm", "detail": detail})
    stats["distinct"] = len(seen)
    stats["samples"] = [{"line": lines[0][:200], "model": out[0][:200]}] if lines else []
    return stats
