"""correspondence stream `disp` (C19): the discrete parts of the display pipeline of the real code against
Model/Display.lean — exact integer comparison.

  inds     get_rot_pos_from_path(obj, show_path) on objects with integer paths of length 1..8 (x-coordinate of
           path row r is r, so the selected rows are read back exactly from the returned positions): the returned
           `inds` array and the selected rows; when the real function raises, the exception class.
  cuboid   make_Cuboid(backend, dimension=(a,b,c), position=None|(x,y,z)): 2*x, 2*y, 2*z and the i, j, k arrays.
  tetra    make_Tetrahedron(vertices=4 integer points, non-degenerate): x, y, z (after check_chirality) and i, j, k.
  prism    make_Prism(base=N): i, j, k.     pyramid  make_Pyramid(base=N): i, j, k.
"""
import warnings

import numpy as np

from vlib.driver import run_driver


def _ints(a):
    a = np.asarray(a)
    out = []
    for v in a.reshape(-1).tolist():
        if v != int(v):
            raise ValueError(f"non-integer value {v!r}")
        out.append(int(v))
    return out


def _fmt(*lists):
    return "ok " + " ; ".join(" ".join(map(str, l)) for l in lists)


# ---------------------------------------------------------------- generators
def gen_show_path(rng, n):
    """(python value, driver encoding)"""
    r = rng.random()
    if r < 0.08:
        return None, "none"
    if r < 0.14:
        return True, "true"
    if r < 0.20:
        return False, "false"
    if r < 0.45:
        k = rng.choice([0, 1, 2, 3, -1, -2, -3, n, -n, n + 1, rng.randint(-10, 10), rng.randint(-10, 10)])
        return k, f"int {k}"
    if r < 0.93:
        m = rng.choice([0, 1, 1, 2, 2, 3, 4, 6])
        lo = -n - 2 if rng.random() < 0.25 else (-n if rng.random() < 0.5 else 0)
        l = [rng.randint(lo, n + 3) for _ in range(m)]
        if l and rng.random() < 0.3:
            l.append(rng.choice(l))  # duplicate
        if l and rng.random() < 0.15:
            l.append(l[0] - n)  # the same row once more through a negative index
        val = tuple(l) if rng.random() < 0.5 else list(l)
        return val, f"list {len(l)} " + " ".join(map(str, l))
    # anything that is neither None / bool / int / iterable nor == 0
    val = rng.choice([2.5, -1.0, "ab", np.int64(rng.choice([1, 2, -1])), np.float64(3.0)])
    return val, "other"


def make_obj(magpy, rng, n):
    from scipy.spatial.transform import Rotation as R

    kind = rng.choice(["Cuboid", "Sensor", "Circle", "Dipole"])
    if kind == "Cuboid":
        o = magpy.magnet.Cuboid(polarization=(0, 0, 1), dimension=(1, 2, 3))
    elif kind == "Sensor":
        o = magpy.Sensor()
    elif kind == "Circle":
        o = magpy.current.Circle(current=1, diameter=1)
    else:
        o = magpy.misc.Dipole(moment=(0, 0, 1))
    y, z = rng.randint(-5, 5), rng.randint(-5, 5)
    o.position = [(r, y, z) for r in range(n)]
    o.orientation = R.from_rotvec([(0, 0, 0.3 * r) for r in range(n)])
    assert o._position.shape == (n, 3)
    return o


def real_inds(obj, sp, n):
    from magpylib._src.display.traces_utility import get_rot_pos_from_path

    try:
        rots, poss, inds = get_rot_pos_from_path(obj, sp)
    except (IndexError, ValueError) as e:
        return "err " + type(e).__name__, None, None
    rows = _ints(poss[:, 0])
    # the orientations are the same rows
    q_all = obj._orientation.as_quat()
    if len(rots) != len(rows) or not np.allclose(rots.as_quat(), q_all[rows], atol=1e-12, rtol=0):
        return "orientation rows differ from position rows", None, None
    return "ok " + " ".join(map(str, _ints(inds))) + " | " + " ".join(map(str, rows)), _ints(inds), rows


def trace_of(model, backend):
    """x, y, z, i, j, k of a model dict returned by a make_* function"""
    if backend == "plotly-dict":
        t = model
        return [t[c] for c in "xyzijk"]
    if backend == "matplotlib":
        x, y, z = model["args"]
        tri = np.asarray(model["kwargs"]["triangles"])
        return [x, y, z, tri[:, 0], tri[:, 1], tri[:, 2]]
    t = model["kwargs"]
    return [t[c] for c in "xyzijk"]


def run_stream(ctx, n):
    import magpylib as magpy
    from magpylib._src.display import traces_base as tb

    rng = ctx.rng
    cases, lines = [], []
    for _ in range(n):
        r = rng.random()
        if r < 0.62:
            plen = rng.randint(1, 8)
            val, enc = gen_show_path(rng, plen)
            cases.append(("inds", plen, val))
            lines.append(f"disp inds {plen} {enc}")
        elif r < 0.82:
            dim = tuple(rng.choice([0, -rng.randint(1, 9)]) if rng.random() < 0.04 else rng.randint(1, 40) for _ in range(3))
            pos = None if rng.random() < 0.4 else tuple(rng.randint(-20, 20) for _ in range(3))
            backend = rng.choice(["generic", "plotly-dict", "matplotlib", "plotly"])
            cases.append(("cuboid", dim, pos, backend))
            lines.append("disp cuboid " + " ".join(map(str, dim)) + (" 0" if pos is None else " 1 " + " ".join(map(str, pos))))
        elif r < 0.92:
            while True:
                pts = [[rng.randint(-6, 6) for _ in range(3)] for _ in range(4)]
                a = np.array(pts[1:], dtype=np.int64) - np.array(pts[0], dtype=np.int64)
                det = int(round(float(np.linalg.det(a.astype(float)))))
                exact = (a[0, 0] * (a[1, 1] * a[2, 2] - a[1, 2] * a[2, 1]) - a[0, 1] * (a[1, 0] * a[2, 2] - a[1, 2] * a[2, 0])
                         + a[0, 2] * (a[1, 0] * a[2, 1] - a[1, 1] * a[2, 0]))
                if exact != 0:
                    break
            backend = rng.choice(["generic", "plotly-dict"])
            cases.append(("tetra", pts, backend, int(exact)))
            lines.append("disp tetra " + " ".join(str(c) for p in pts for c in p))
        else:
            kind = "prism" if r < 0.96 else "pyramid"
            N = rng.choice([0, 1, 2, 3, 3, 4, 5, 6, 7, 8, 12, 30, 50])
            cases.append((kind, N))
            lines.append(f"disp {kind} {N}")
    out = run_driver(lines)

    stats = {"cases": n, "inds": 0, "inds_errors": 0, "inds_negative_returned": 0, "inds_row_drawn_twice": 0, "inds_last_row_missing": 0,
             "cuboid": 0, "tetra": 0, "tetra_swapped": 0, "prism": 0, "pyramid": 0, "disagreements": 0, "distinct": 0}
    seen, samples = set(), []
    objs = {}
    with warnings.catch_warnings():
        warnings.simplefilter("ignore")
        for c, line, mo in zip(cases, lines, out):
            kind = c[0]
            stats[kind] += 1
            try:
                if kind == "inds":
                    _, plen, val = c
                    if plen not in objs or rng.random() < 0.1:
                        objs[plen] = make_obj(magpy, rng, plen)
                    real, inds, rows = real_inds(objs[plen], val, plen)
                    if rows is None:
                        stats["inds_errors"] += 1
                    else:
                        stats["inds_negative_returned"] += any(v < 0 for v in inds)
                        stats["inds_row_drawn_twice"] += len(set(rows)) < len(rows)
                        stats["inds_last_row_missing"] += (plen - 1) not in rows
                elif kind == "cuboid":
                    _, dim, pos, backend = c
                    x, y, z, i, j, k = trace_of(tb.make_Cuboid(backend, dimension=dim, position=pos), backend)
                    real = _fmt(_ints(2 * np.asarray(x)), _ints(2 * np.asarray(y)), _ints(2 * np.asarray(z)), _ints(i), _ints(j), _ints(k))
                elif kind == "tetra":
                    _, pts, backend, det = c
                    x, y, z, i, j, k = trace_of(tb.make_Tetrahedron(backend, vertices=np.array(pts, dtype=float)), backend)
                    real = _fmt(_ints(x), _ints(y), _ints(z), _ints(i), _ints(j), _ints(k))
                    stats["tetra_swapped"] += det < 0
                else:
                    _, N = c
                    f = tb.make_Prism if kind == "prism" else tb.make_Pyramid
                    try:
                        x, y, z, i, j, k = trace_of(f("generic", base=N), "generic")
                        nv = 2 * N + 2 if kind == "prism" else N + 1
                        real = _fmt(_ints(i), _ints(j), _ints(k)) if len(x) == len(y) == len(z) == nv else f"vertex count {len(x)} != {nv}"
                    except IndexError:
                        real = "err IndexError"
            except Exception as e:  # the harness could not canonicalise what the real code returned
                real = f"harness: {type(e).__name__}: {e}"
            seen.add((kind, real))
            if len(samples) < 6 and kind not in [s["kind"] for s in samples]:
                samples.append({"kind": kind, "line": line, "model": mo[:200], "real": real[:200]})
            if real.strip() != mo.strip():
                stats["disagreements"] += 1
                if stats["disagreements"] <= 3:
                    ctx.broken.append({"kind": "correspondence", "name": "disp", "detail": {"line": line, "case": repr(c)[:300], "model": mo[:400], "real": real[:400]}})
    stats["distinct"] = len(seen)
    stats["samples"] = samples
    return stats
