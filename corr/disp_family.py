"""correspondence stream `disp` (C19): the discrete parts of the display pipeline of the real code against
Model/Display.lean — exact integer comparison.

  inds     get_rot_pos_from_path(obj, show_path) on objects with integer paths of length 1..8 (x-coordinate of
           path row r is r, so the selected rows are read back exactly from the returned positions): the returned
           `inds` array and the selected rows; when the real function raises, the exception class.
  cuboid   make_Cuboid(backend, dimension=(a,b,c), position=None|(x,y,z)): 2*x, 2*y, 2*z and the i, j, k arrays.
  tetra    make_Tetrahedron(vertices=4 integer points, non-degenerate): x, y, z (after check_chirality) and i, j, k.
  prism    make_Prism(base=N): i, j, k.     pyramid  make_Pyramid(base=N): i, j, k.

Vertex COORDINATES of the generators that use sin / cos against Model/DisplayTrig.lean evaluated at Float (IEEE
double on both sides, floats travel as bit patterns): lengths and order exact, values to relative 1e-12
(`TRIG_RTOL`; in practice bit-identical, counted as `trig_bit_exact`):
  prismv   make_Prism(base=N, diameter, height): x, y, z (2N+2 rows), N = 1..60
  pyrv     make_Pyramid(base=N, diameter, height, pivot): x, y, z (N+1 rows)
  segv     make_CylinderSegment(dimension=(r1,r2,h,phi1,phi2), vert): x, y, z (4N rows, N = max(5, int(vert*|phi1-phi2|/360)));
           r1 = 0, phi1 = phi2, phi2-phi1 = 360, negative / beyond-360 / reversed angle ranges included
  ellv     make_Ellipsoid(dimension=(a,b,c), vert=N): x, y, z (N*N-2N+2 rows) for N >= 4, ValueError for N <= 3
  circ     traces_core.make_Circle(obj, base) line trace: x, y, z (base rows), base = 0..100
  polyl    traces_core.make_Polyline(obj) line trace: x, y, z (bit-exact)
Rows of Model/DisplayIdx.lean (`run_idx`; integer data exact, floats as bit patterns):
  ellidx   make_Ellipsoid(vert=N): i, j, k, every N = 0..40 on every run (ValueError for N <= 3), index range against len(x)
  segidx   make_CylinderSegment(dimension, vert): N, caps present?, i, j, k for vert = 3..60 x 10 angle ranges on every run
           (incl. exactly 360, 360 up to rounding, beyond 360, zero and reversed span, r1 = 0) plus random ones
  arrow    make_Arrow(base=N): i, j, k (N = 0..30);  arrowv: x, y, z (relative 1e-12)
  mmesh    merge_mesh3d(*traces) on 1-5 random integer traces (different vertex / face counts, empty traces, intensity /
           facecolor present in all / only the first / missing in the first, extra keys): all fields, KeyError / IndexError kinds
  mscat    merge_scatter3d(*traces) on 0-5 random integer line traces (mode None / "" / markers / lines / markers+lines /
           markers+text+lines, None gaps inside the inputs, empty lines): x, y, z with the None separators, mode, other keys; the
           pieces between the separators; whether the FIRST INPUT dict was modified (counted, it is for an empty mode)
  path     make_path(obj) + rescale_traces on objects with random paths (length 2-6) and unit factors: bit-exact
  autounit unit_prefix(x, as_tuple=True)[2] + "m" and get_unit_factor(unit, target_unit="m") for x = 10^k * {0.999, 1, 1.001, 5},
           k = -27..27 on every run plus random x: unit string (UTF-8 bytes), power, decimal exponent of the factor
  ranges   get_scene_ranges(*traces, zoom) on random scatter / mesh traces (mesh: only vertices used by a face count), then
           rmax = amax(abs(ranges)) and the auto unit as get_frames computes them: bit-exact
"""
import struct
import warnings

import numpy as np

from vlib.driver import run_driver

TRIG_RTOL = 1e-12
TRIG_KINDS = ("prismv", "pyrv", "segv", "ellv", "circ", "polyl", "arrowc", "arrowl", "pixels")


def _bits(x):
    return str(struct.unpack("<Q", struct.pack("<d", float(x)))[0])


def _unbits(t):
    return struct.unpack("<d", struct.pack("<Q", int(t)))[0]


def _rfloat(rng, allow_neg=False):
    """a double with a random mantissa over a few decades"""
    v = rng.uniform(0.1, 1.0) * 10.0 ** rng.randint(-3, 3)
    if rng.random() < 0.3:
        v = float(rng.randint(1, 20))
    if allow_neg and rng.random() < 0.1:
        v = -v
    return v


def gen_trig(rng):
    """(case tuple, driver line)"""
    if rng.random() < 0.22:
        q = rng.random()
        if q < 0.45:
            # draw_arrow_on_circle, directly (any sign / angle) or through make_Circle (sign of the current, angle from style.arrow.offset)
            d, size = _rfloat(rng), _rfloat(rng)
            scaled = rng.random() < 0.6
            if rng.random() < 0.5:
                sign = rng.choice([1.0, -1.0, 0.0, 2.5, -0.3])
                ang = rng.choice([0.0, 0.0, 90.0, 180.0, 45.0, -30.0, rng.uniform(-360.0, 360.0)])
                return ("arrowc", "direct", sign, d, size, scaled, ang), f"disp arrowc {_bits(sign)} {_bits(d)} {_bits(size)} {int(scaled)} {_bits(ang)}"
            cur = rng.choice([1.0, -1.0, 0.0, 3.5, -2.0, None])
            off = rng.choice([0.0, 0.25, 0.5, rng.random()])
            base = 72
            ang = float(360 * np.round(off * base) / base)
            sign = 0.0 if cur is None else float(np.sign(cur))
            return ("arrowc", "circle", cur, d, size, scaled, off, ang), f"disp arrowc {_bits(sign)} {_bits(d)} {_bits(size)} {int(scaled)} {_bits(ang)}"
        if q < 0.65:
            sign = rng.choice([1.0, -1.0, 0.0, 4.0])
            size, apos, L = _rfloat(rng), rng.choice([0.5, 0.5, 0.0, 1.0, rng.random()]), _rfloat(rng)
            return ("arrowl", sign, size, apos, L), f"disp arrowl {_bits(sign)} {_bits(size)} {_bits(apos)} {_bits(L)}"
        # sensor pixels
        m = rng.choice([1, 1, 2, 3, 4, 6, 8])
        sc = 10.0 ** rng.randint(-3, 1)
        ps = [[rng.choice([0.0, float(rng.randint(-3, 3)), rng.uniform(-2, 2)]) * sc for _ in range(3)] for _ in range(m)]
        if m > 1 and rng.random() < 0.3:
            ps[-1] = list(ps[0])  # a repeated pixel (np.unique drops it)
        if m == 1 and rng.random() < 0.3:
            ps = [[0.0, 0.0, 0.0]]  # one pixel at the origin: min_dist == 0
        scaled = rng.random() < 0.7
        psize = rng.choice([1.0, 1.0, 0.5, 2.0, 0.0, rng.uniform(0.1, 3.0)])
        uniq = np.unique(np.array(ps, dtype=float).reshape((-1, 3)), axis=0)  # what make_Sensor does first
        if len(uniq) == 1:
            hull = np.concatenate([[[0.0, 0.0, 0.0]], uniq])
        else:
            hull = uniq
        dim_ext = float(max(np.mean(np.array([1.0] * 3)), np.min(hull.max(axis=0) - hull.min(axis=0))))  # default style.size = 1, autosize None
        return (("pixels", ps, scaled, psize, dim_ext, uniq.tolist()),
                "disp pixels %d %s %s %d %s" % (int(scaled), _bits(psize), _bits(dim_ext), len(uniq), " ".join(_bits(c) for p_ in uniq.tolist() for c in p_)))
    r = rng.random()
    if r < 0.24:
        N = rng.choice([1, 2, 3, 3, 4, 5, 6, 50, 50]) if rng.random() < 0.3 else rng.randint(3, 60)
        d, h = _rfloat(rng, True), _rfloat(rng, True)
        return ("prismv", N, d, h), f"disp prismv {N} {_bits(d)} {_bits(h)}"
    if r < 0.32:
        N = rng.randint(1, 60)
        d, h = _rfloat(rng), _rfloat(rng)
        pivot = rng.choice(["tail", "tip", "middle"])
        return ("pyrv", N, d, h, pivot), f"disp pyrv {N} {_bits(d)} {_bits(h)} {pivot}"
    if r < 0.60:
        vert = rng.choice([0, 1, 5, 10, 25, 25, 50, 50, 100, rng.randint(2, 200)])
        r2 = _rfloat(rng)
        r1 = 0.0 if rng.random() < 0.2 else r2 * rng.uniform(0.0, 1.0)
        h = _rfloat(rng)
        q = rng.random()
        if q < 0.35:
            phi1 = rng.uniform(-720.0, 720.0)
            phi2 = phi1 + rng.uniform(0.0, 360.0)
        elif q < 0.55:
            phi1 = float(rng.choice([-360, -270, -180, -90, -45, 0, 30, 45, 90, 180, 270, 360, 400, 720]))
            phi2 = phi1 + float(rng.choice([0, 1, 30, 45, 90, 180, 270, 359, 360, 360, 361, 720]))
        elif q < 0.70:
            phi1 = rng.uniform(-400.0, 400.0)
            phi2 = phi1 + 360.0
        elif q < 0.80:
            phi1 = rng.uniform(-400.0, 400.0)
            phi2 = phi1
        elif q < 0.90:
            phi2 = rng.uniform(-720.0, 720.0)  # reversed range (rejected by the CylinderSegment validator, accepted by the generator)
            phi1 = phi2 + rng.uniform(0.0, 500.0)
        else:
            phi1 = rng.uniform(-1e-3, 1e-3)
            phi2 = phi1 + rng.uniform(0.0, 1e3)
        return ("segv", vert, r1, r2, h, phi1, phi2), "disp segv %d %s" % (vert, " ".join(_bits(v) for v in (r1, r2, h, phi1, phi2)))
    if r < 0.75:
        N = rng.choice([0, 1, 2, 3]) if rng.random() < 0.12 else rng.randint(4, 24)
        a, b, c = _rfloat(rng), _rfloat(rng), _rfloat(rng)
        if rng.random() < 0.4:
            b = c = a  # sphere
        return ("ellv", N, a, b, c), f"disp ellv {N} {_bits(a)} {_bits(b)} {_bits(c)}"
    if r < 0.93:
        base = rng.choice([0, 1, 2, 3, 72, 72, 72]) if rng.random() < 0.35 else rng.randint(2, 100)
        d = _rfloat(rng)
        return ("circ", base, d), f"disp circ {base} {_bits(d)}"
    m = rng.randint(2, 7)
    vs = [[rng.choice([0.0, float(rng.randint(-5, 5)), rng.uniform(-10, 10), rng.gauss(0, 1e-3)]) for _ in range(3)] for _ in range(m)]
    return ("polyl", vs), "disp polyl %d %s" % (m, " ".join(_bits(c) for v in vs for c in v))


def real_trig(magpy, tb, tc, c):
    """x, y, z arrays of the real generator (or 'err <Class>')"""
    kind = c[0]
    if kind == "prismv":
        _, N, d, h = c
        t = tb.make_Prism("generic", base=N, diameter=d, height=h)["kwargs"]
    elif kind == "pyrv":
        _, N, d, h, pivot = c
        t = tb.make_Pyramid("generic", base=N, diameter=d, height=h, pivot=pivot)["kwargs"]
    elif kind == "segv":
        _, vert, r1, r2, h, p1, p2 = c
        t = tb.make_CylinderSegment("generic", dimension=np.array([r1, r2, h, p1, p2]), vert=vert)["kwargs"]
    elif kind == "ellv":
        _, N, a, b, cc = c
        try:
            t = tb.make_Ellipsoid("generic", dimension=np.array([a, b, cc]), vert=N)["kwargs"]
        except ValueError:
            return "err ValueError"
    elif kind == "arrowc":
        from magpylib._src.display.traces_utility import draw_arrow_on_circle

        if c[1] == "direct":
            _, _, sign, d, size, scaled, ang = c
            v = draw_arrow_on_circle(sign, d, size, scaled=scaled, angle_pos_deg=ang)
            return [np.asarray(v[:, k], dtype=float) for k in range(3)]
        _, _, cur, d, size, scaled, off, ang = c
        o = magpy.current.Circle(current=cur, diameter=d)
        o.style.arrow.show, o.style.line.show = True, False
        o.style.arrow.size, o.style.arrow.offset, o.style.arrow.sizemode = size, off, ("scaled" if scaled else "absolute")
        (t,) = tc.make_Circle(o, base=72)
    elif kind == "arrowl":
        from magpylib._src.display.traces_utility import draw_arrowed_line

        _, sign, size, apos, L = c
        v = draw_arrowed_line((0.0, L, 0.0), (0.0, 0.0, 0.0), sign=sign, arrow_size=size, arrow_pos=apos)  # along +y: no rotation, the template itself
        return [np.asarray(v[:, k], dtype=float) for k in range(3)]
    elif kind == "pixels":
        from magpylib._src.display.sensor_mesh import get_sensor_mesh

        _, ps, scaled, psize, dim_ext, uniq = c
        o = magpy.Sensor(pixel=ps)
        o.style.pixel.size, o.style.pixel.sizemode, o.style.pixel.color = psize, ("scaled" if scaled else "absolute"), "red"
        o.style.size, o.style.sizemode = 1.0, "scaled"  # the object's own leaves are None until show() resolves them: the defaults, spelled out
        t = tc.make_Sensor(o, autosize=None)
        n0 = len(get_sensor_mesh()["x"])
        npx = 8 * len(uniq) if psize > 0 else 0
        if len(t["x"]) != n0 + npx + 8:
            return f"err vertex count {len(t['x'])} != {n0} + {npx} + 8"
        return [np.asarray(t[k], dtype=float).reshape(-1)[n0:n0 + npx] for k in "xyz"]
    elif kind == "circ":
        _, base, d = c
        o = magpy.current.Circle(current=1.0, diameter=d)
        o.style.arrow.show = False
        o.style.line.show = True
        (t,) = tc.make_Circle(o, base=base)
    else:
        _, vs = c
        o = magpy.current.Polyline(current=1.0, vertices=vs)
        o.style.arrow.show = False
        o.style.line.show = True
        (t,) = tc.make_Polyline(o)
    return [np.asarray(t[k], dtype=float).reshape(-1) for k in "xyz"]


def compare_trig(kind, real, mo, stats, scale=0.0):
    """None when equal (lengths / order exact, values to TRIG_RTOL relative to max(|a|, |b|, scale); polyl bit-exact), else a description"""
    if isinstance(real, str):
        return None if real == mo.strip() else "error kinds differ"
    if not mo.startswith("ok"):
        return "model reports " + mo[:60]
    parts = mo[2:].split(";")
    if len(parts) != 3:
        return "model line malformed"
    for name, ra, part in zip("xyz", real, parts):
        ma = [_unbits(t) for t in part.split()]
        if len(ma) != len(ra):
            return f"length of {name}: model {len(ma)} real {len(ra)}"
        for idx, (a, b) in enumerate(zip(ra.tolist(), ma)):
            if a == b:
                stats["trig_bit_exact"] += (_bits(a) == _bits(b)) or a == 0.0
                stats["trig_values"] += 1
                continue
            stats["trig_values"] += 1
            if a != a or b != b or kind == "polyl":
                return f"{name}[{idx}]: model {b!r} real {a!r}"
            dev = abs(a - b) / max(abs(a), abs(b), scale)
            stats["trig_max_rel_dev"] = max(stats["trig_max_rel_dev"], dev)
            if dev > TRIG_RTOL:
                return f"{name}[{idx}]: model {b!r} real {a!r} rel {dev:.3g}"
    return None


def _ints(a):
    a = np.asarray(a)
    out = []
    for v in a.reshape(-1).tolist():
        if v != int(v):
            raise ValueError(f"non-integer value {v!r}")
        out.append(int(v))
    return out


def _fmt(*lists):
    return "ok " + " ; ".join(" ".join(map(str, l)) for l in lists)


# ---------------------------------------------------------------- generators
def gen_show_path(rng, n):
    """(python value, driver encoding)"""
    r = rng.random()
    if r < 0.08:
        return None, "none"
    if r < 0.14:
        return True, "true"
    if r < 0.20:
        return False, "false"
    if r < 0.45:
        k = rng.choice([0, 1, 2, 3, -1, -2, -3, n, -n, n + 1, rng.randint(-10, 10), rng.randint(-10, 10)])
        return k, f"int {k}"
    if r < 0.93:
        m = rng.choice([0, 1, 1, 2, 2, 3, 4, 6])
        lo = -n - 2 if rng.random() < 0.25 else (-n if rng.random() < 0.5 else 0)
        l = [rng.randint(lo, n + 3) for _ in range(m)]
        if l and rng.random() < 0.3:
            l.append(rng.choice(l))  # duplicate
        if l and rng.random() < 0.15:
            l.append(l[0] - n)  # the same row once more through a negative index
        val = tuple(l) if rng.random() < 0.5 else list(l)
        return val, f"list {len(l)} " + " ".join(map(str, l))
    # anything that is neither None / bool / int / iterable nor == 0
    val = rng.choice([2.5, -1.0, "ab", np.int64(rng.choice([1, 2, -1])), np.float64(3.0)])
    return val, "other"


def make_obj(magpy, rng, n):
    from scipy.spatial.transform import Rotation as R

    kind = rng.choice(["Cuboid", "Sensor", "Circle", "Dipole"])
    if kind == "Cuboid":
        o = magpy.magnet.Cuboid(polarization=(0, 0, 1), dimension=(1, 2, 3))
    elif kind == "Sensor":
        o = magpy.Sensor()
    elif kind == "Circle":
        o = magpy.current.Circle(current=1, diameter=1)
    else:
        o = magpy.misc.Dipole(moment=(0, 0, 1))
    y, z = rng.randint(-5, 5), rng.randint(-5, 5)
    o.position = [(r, y, z) for r in range(n)]
    o.orientation = R.from_rotvec([(0, 0, 0.3 * r) for r in range(n)])
    assert o._position.shape == (n, 3)
    return o


def real_inds(obj, sp, n):
    from magpylib._src.display.traces_utility import get_rot_pos_from_path

    try:
        rots, poss, inds = get_rot_pos_from_path(obj, sp)
    except (IndexError, ValueError) as e:
        return "err " + type(e).__name__, None, None
    rows = _ints(poss[:, 0])
    # the orientations are the same rows
    q_all = obj._orientation.as_quat()
    if len(rots) != len(rows) or not np.allclose(rots.as_quat(), q_all[rows], atol=1e-12, rtol=0):
        return "orientation rows differ from position rows", None, None
    return "ok " + " ".join(map(str, _ints(inds))) + " | " + " ".join(map(str, rows)), _ints(inds), rows


def trace_of(model, backend):
    """x, y, z, i, j, k of a model dict returned by a make_* function"""
    if backend == "plotly-dict":
        t = model
        return [t[c] for c in "xyzijk"]
    if backend == "matplotlib":
        x, y, z = model["args"]
        tri = np.asarray(model["kwargs"]["triangles"])
        return [x, y, z, tri[:, 0], tri[:, 1], tri[:, 2]]
    t = model["kwargs"]
    return [t[c] for c in "xyzijk"]


# ------------------------------------------------------------------------------------------------------------------
# place_and_orient_model3d against Display.placeModel (driver `disp place`): dyadic data, every number is sent as an
# integer multiple of 1/64 (integer vertices and positions, octahedral rotations, scale / length_factor powers of two)
Q = 64


def _q(x):
    return str(int(round(float(x) * Q)))


def _enc_tval(v):
    if v[0] == "o":
        return f"o {v[1]}"
    a = np.asarray(v[1])
    return f"a {a.ndim} {' '.join(map(str, a.shape))} {a.size} {' '.join(_q(t) for t in a.reshape(-1))}"


def _canon_tval(v):
    """canonical text of a value found in a real trace dict / args (None if it cannot be put on the 1/64 grid)"""
    if isinstance(v, str):
        return f"o {v[1:]}"
    a = np.asarray(v, dtype=float)
    g = a * Q
    r = np.rint(g)
    if a.size and np.max(np.abs(g - r)) > 1e-6:
        return None
    return f"a {a.ndim} {' '.join(map(str, a.shape))} {a.size} {' '.join(str(int(t)) for t in r.reshape(-1))}"


def _norm(t):
    return " ".join(t.split())


def gen_place(rng):
    from vlib.octa import OCTA
    n = rng.randint(1, 5)
    shape = (n,) if rng.random() < 0.75 else (rng.randint(1, 3), rng.randint(1, 3))
    coords = [np.array([rng.randint(-5, 5) for _ in range(int(np.prod(shape)))]).reshape(shape) for _ in range(3)]
    mode = rng.choice(["keys", "keys", "keys", "keys-custom", "args", "args", "args-custom", "both"])
    others = [("type", ("o", rng.randint(0, 9))), ("i", ("a", np.array([rng.randint(0, 4) for _ in range(rng.randint(1, 4))]))),
              ("color", ("o", rng.randint(0, 9))), ("opacity", ("a", np.array(rng.choice([0.5, 1.0, 0.25]))))]
    others = [o for o in others if rng.random() < 0.6]
    kw, args, ca = [], None, None
    names = ("x", "y", "z")
    if mode in ("keys", "both"):
        kw = [(k, ("a", c)) for k, c in zip(names, coords)]
    elif mode == "keys-custom":
        names = tuple(rng.sample(["u", "v", "w", "x", "y", "z"], 3))
        kw = [(k, ("a", c)) for k, c in zip(names, coords)]
        ca = ("k",) + names
    if mode in ("args", "both"):
        acoords = coords if mode == "args" else [c + 1 for c in coords]
        args = [("a", c) for c in acoords] + ([("o", 7)] if rng.random() < 0.3 else [])
    elif mode == "args-custom":
        perm = rng.sample(range(4), 3)
        args = [("o", 3)] * 4
        for j, c in zip(perm, coords):
            args[j] = ("a", c)
        ca = ("a",) + tuple(perm)
    elif rng.random() < 0.3:
        args = []
    kw = kw + others
    rng.shuffle(kw)
    fault = rng.random()
    if fault < 0.05 and mode.startswith("keys") and kw:  # a coordinate key is missing
        kw = [e for e in kw if e[0] != names[rng.randrange(3)]]
    elif fault < 0.08 and mode.startswith("args"):  # an args index beyond the tuple
        ca = ("a", 0, 1, len(args))
    elif fault < 0.13:  # coordinate arrays of different shapes
        bad = ("a", np.array([rng.randint(-5, 5) for _ in range(n + 1)]))
        if mode in ("args", "both"):
            args[1] = bad
        elif mode == "args-custom":
            args[ca[2]] = bad
        else:
            kw = [(k, bad) if k == names[1] else (k, v) for k, v in kw]
    extra = []
    for _ in range(rng.choice([0, 0, 1, 2])):
        k = rng.choice(["name", "type", "x", "legendgroup"])
        if k not in [e[0] for e in extra]:
            extra.append((k, ("o", rng.randint(10, 19))))
    pw = lambda: 1 if rng.random() < 0.5 else 2.0 ** rng.randint(-2, 3)
    return {"kw": kw, "args": args, "ca": ca, "ori": None if rng.random() < 0.4 else rng.randrange(24),
            "pos": None if rng.random() < 0.4 else [rng.randint(-6, 6) for _ in range(3)], "scale": pw(), "f": pw(), "extra": extra,
            "ret": (rng.random() < 0.6, rng.random() < 0.5), "style": rng.randrange(3), "OCTA": None}


def place_line(c):
    from vlib.octa import OCTA
    kv = lambda l: f"{len(l)} " + " ".join(f"{k} {_enc_tval(v)}" for k, v in l)
    a = "0" if c["args"] is None else f"1 {len(c['args'])} " + " ".join(_enc_tval(v) for v in c["args"])
    r = "0" if c["ori"] is None else "1 " + " ".join(_q(t) for t in np.asarray(OCTA[c["ori"]]).reshape(-1))
    x = "0" if c["pos"] is None else "1 " + " ".join(_q(t) for t in c["pos"])
    ca = "0" if c["ca"] is None else f"1 {c['ca'][0]} " + " ".join(map(str, c["ca"][1:]))
    return _norm(f"disp place K {kv(c['kw'])} A {a} R {r} X {x} C {ca} S {_q(c['scale'])} F {_q(c['f'])} E {kv(c['extra'])} "
                 f"RET {int(c['ret'][0])} {int(c['ret'][1])}")


def real_place(c):
    """returns (canonical line, notes)"""
    import copy

    from magpylib._src.display.traces_utility import place_and_orient_model3d
    from vlib.octa import OCTA, rot_from

    def val(v):
        if v[0] == "o":
            return f"t{v[1]}"
        a = np.asarray(v[1])
        return [a.copy(), a.astype(float), a.tolist()][c["style"]]

    model_kwargs = {k: val(v) for k, v in c["kw"]}
    model_args = None if c["args"] is None else (tuple if c["style"] != 1 else list)(val(v) for v in c["args"])
    coordsargs = None if c["ca"] is None else {k: (n if c["ca"][0] == "k" else f"args[{n}]") for k, n in zip("xyz", c["ca"][1:])}
    position = None if c["pos"] is None else [np.array(c["pos"]), tuple(c["pos"]), list(c["pos"])][c["style"]]
    orientation = None if c["ori"] is None else rot_from(OCTA[c["ori"]])
    extra = {k: val(v) for k, v in c["extra"]}
    snap = copy.deepcopy((model_kwargs, model_args, coordsargs, position, extra))
    kwargs = dict(model_args=model_args, orientation=orientation, position=position, coordsargs=coordsargs,
                  return_model_args=c["ret"][0], return_coordsargs=c["ret"][1], **extra)
    if c["scale"] != 1 or c["style"] == 0:
        kwargs["scale"] = c["scale"]
    if c["f"] != 1 or c["style"] == 0:
        kwargs["length_factor"] = c["f"]
    try:
        out = place_and_orient_model3d(model_kwargs, **kwargs)
    except ValueError:
        return "err ValueError", []
    except IndexError:
        return "err IndexError", []
    except Exception as e:
        return f"EXC {type(e).__name__}: {str(e)[:120]}", []
    notes = []

    def same(a, b):
        if isinstance(a, dict):
            return isinstance(b, dict) and list(a) == list(b) and all(same(a[k], b[k]) for k in a)
        if isinstance(a, (list, tuple)) and not (a and isinstance(a[0], (int, float))):
            return type(a) is type(b) and len(a) == len(b) and all(same(u, w) for u, w in zip(a, b))
        if isinstance(a, np.ndarray):
            return isinstance(b, np.ndarray) and a.dtype == b.dtype and a.shape == b.shape and np.array_equal(a, b)
        return type(a) is type(b) and a == b

    if not same(snap, (model_kwargs, model_args, coordsargs, position, extra)):
        notes.append("an input (model_kwargs / model_args / coordsargs / position / kwargs) was modified")
    nret = 1 + c["ret"][0] + c["ret"][1]
    if nret == 1:
        out = (out,)
    if not isinstance(out, tuple) or len(out) != nret:
        return f"RETURN-ARITY {type(out).__name__}", notes
    d = out[0]
    parts = [(k, _canon_tval(v)) for k, v in d.items()]
    a = ca = "-"
    if c["ret"][0]:
        ra = out[1]
        a = "none" if ra is None else f"{len(ra)} " + " ".join(str(_canon_tval(v)) for v in ra)
    if c["ret"][1]:
        rc = out[-1]
        ca = "none" if rc is None else " ".join(rc[k] for k in "xyz")
    if any(t is None for _, t in parts) or "None" in a:
        return "UNSNAPPABLE", notes
    return _norm(f"ok {len(parts)} " + " ".join(f"{k} {t}" for k, t in parts) + f" | {a} | {ca}"), notes


def run_place(ctx, n, stats):
    cases = [gen_place(ctx.rng) for _ in range(n)]
    out = run_driver([place_line(c) for c in cases])
    st = {"place": 0, "place_errors": {}, "place_early_return": 0, "place_scale_ignored_in_early_return": 0, "place_rotated": 0, "place_args": 0,
          "place_custom_coordsargs": 0, "place_2d_arrays": 0, "place_extra_overrides": 0, "place_inputs_compared_before_after": 0, "place_distinct": 0}
    seen = set()
    for c, mo in zip(cases, out):
        real, notes = real_place(c)
        mo = _norm(mo)
        st["place"] += 1
        early = c["ori"] is None and c["pos"] is None and c["f"] == 1
        st["place_early_return"] += early
        st["place_scale_ignored_in_early_return"] += early and c["scale"] != 1
        st["place_rotated"] += c["ori"] is not None
        st["place_args"] += c["args"] is not None and len(c["args"]) > 0
        st["place_custom_coordsargs"] += c["ca"] is not None
        st["place_2d_arrays"] += any(v[0] == "a" and np.asarray(v[1]).ndim == 2 for _, v in c["kw"])
        st["place_extra_overrides"] += any(k in [e[0] for e in c["kw"]] for k, _ in c["extra"])
        st["place_inputs_compared_before_after"] += real.startswith("ok")
        if real.startswith("err"):
            st["place_errors"][real] = st["place_errors"].get(real, 0) + 1
        seen.add(real)
        if real != mo or notes:
            stats["disagreements"] += 1
            if stats["disagreements"] <= 3:
                c = {k: (v if not isinstance(v, np.ndarray) else v.tolist()) for k, v in c.items()}
                ctx.broken.append({"kind": "correspondence", "name": "disp-place", "detail": {"line": place_line(c)[:500], "model": mo[:500], "real": real[:500], "notes": notes}})
    st["place_distinct"] = len(seen)
    stats.update(st)
    stats["distinct"] += len(seen)


# ------------------------------------------------------------------------------------------------------------------
# Model/DisplayIdx.lean rows
SEG_RANGES = [(0.0, 90.0), (0.0, 360.0), (0.0, 359.9), (10.0, 370.0), (0.1, 360.1), (-180.0, 180.0), (0.0, 720.0), (45.0, 45.0), (90.0, 0.0), (-30.0, 300.0)]


def _ijk_real(t):
    return [_ints(t[c]) for c in "ijk"]


def _rint_list(rng, n, lo=-9, hi=9):
    return [rng.randint(lo, hi) for _ in range(n)]


def gen_mmesh(rng):
    T = rng.choice([0, 1, 2, 2, 3, 3, 4, 5]) if rng.random() < 0.97 else 0
    pat_i = rng.choice(["none", "none", "all", "all", "first", "notfirst", "firstNone"])
    pat_f = rng.choice(["none", "none", "all", "first", "notfirst"])
    ts = []
    for t in range(T):
        nv = rng.choice([0, 1, 2, 3, 4, 6])
        ny, nz = (nv, nv) if rng.random() < 0.9 else (rng.randint(0, 4), rng.randint(0, 4))  # the offsets use len(x) only
        nf = rng.choice([0, 1, 2, 3, 5])
        hi = max(nv - 1, 0)
        tr = {"x": _rint_list(rng, nv), "y": _rint_list(rng, ny), "z": _rint_list(rng, nz), "i": _rint_list(rng, nf, 0, hi),
              "j": _rint_list(rng, nf, 0, hi), "k": _rint_list(rng, nf, 0, hi), "rest": []}
        def has(pat):
            return pat == "all" or (pat in ("first", "firstNone") and t == 0) or (pat == "notfirst" and t > 0)
        tr["intensity"] = _rint_list(rng, nv) if has(pat_i) else None
        tr["intensity_None"] = pat_i == "firstNone" and t == 0
        tr["facecolor"] = _rint_list(rng, nf, 0, 5) if has(pat_f) else None
        for key in ("type", "color", "opacity", "name"):
            if rng.random() < 0.4:
                tr["rest"].append((key, rng.randint(0, 9)))
        ts.append(tr)
    return ts


def mmesh_line(ts):
    def one(tr):
        o = lambda l: "0" if l is None else f"1 {len(l)} " + " ".join(map(str, l))
        it = None if tr["intensity_None"] else tr["intensity"]
        return _norm(f"{len(tr['x'])} {' '.join(map(str, tr['x']))} {len(tr['y'])} {' '.join(map(str, tr['y']))} {len(tr['z'])} {' '.join(map(str, tr['z']))} "
                     f"{len(tr['i'])} {' '.join(map(str, tr['i']))} {' '.join(map(str, tr['j']))} {' '.join(map(str, tr['k']))} {o(it)} {o(tr['facecolor'])} "
                     f"{len(tr['rest'])} " + " ".join(f"{k} {v}" for k, v in tr["rest"]))
    return _norm(f"disp mmesh {len(ts)} " + " ".join(one(t) for t in ts))


def real_mmesh(ts):
    import copy

    from magpylib._src.display.traces_utility import merge_mesh3d
    ds = []
    for tr in ts:
        d = {}
        for k, v in tr["rest"][: len(tr["rest"]) // 2]:
            d[k] = v
        for c in "xyz":
            d[c] = np.array(tr[c], dtype=float)
        for c in "ijk":
            d[c] = np.array(tr[c], dtype=int)
        if tr["intensity"] is not None:
            d["intensity"] = None if tr["intensity_None"] else np.array(tr["intensity"], dtype=float)
        if tr["facecolor"] is not None:
            d["facecolor"] = np.array(tr["facecolor"], dtype=int)
        for k, v in tr["rest"][len(tr["rest"]) // 2:]:
            d[k] = v
        ds.append(d)
    snap = copy.deepcopy(ds)
    try:
        m = merge_mesh3d(*ds)
    except KeyError:
        return "err KeyError", False
    except IndexError:
        return "err IndexError", False
    changed = not all(list(a) == list(b) and all(np.array_equal(a[k], b[k]) if isinstance(a[k], np.ndarray) else a[k] == b[k] for k in a) for a, b in zip(snap, ds))
    o = lambda k: "-" if m.get(k) is None else "[" + " ".join(map(str, _ints(m[k]))) + "]"
    rest = [(k, v) for k, v in m.items() if k not in "xyzijk" and k not in ("intensity", "facecolor")]
    # the model keeps the first trace's other entries in the order given on the line
    order = {k: n for n, (k, _) in enumerate(ts[0]["rest"])}
    rest.sort(key=lambda kv: order[kv[0]])
    return _norm("ok " + " ; ".join(" ".join(map(str, _ints(m[c]))) for c in "xyzijk") + f" ; {o('intensity')} ; {o('facecolor')} ; " + " ".join(f"{k}={v}" for k, v in rest)), changed


MODES = [None, "", "markers", "lines", "markers+lines", "markers+text+lines", "lines+markers", "text"]


def gen_mscat(rng):
    T = rng.choice([0, 1, 2, 2, 3, 3, 4, 5]) if rng.random() < 0.97 else 0
    ts = []
    for t in range(T):
        m = rng.choice([0, 1, 2, 3, 5])
        gaps = rng.random() < 0.25
        cols = []
        for _ in range(3):
            cols.append([None if gaps and rng.random() < 0.25 else rng.randint(-9, 9) for _ in range(m)])
        if gaps:  # a gap is a gap in all three arrays
            cols[1] = [None if a is None else b if b is not None else 0 for a, b in zip(cols[0], cols[1])]
            cols[2] = [None if a is None else b if b is not None else 0 for a, b in zip(cols[0], cols[2])]
        mode = rng.choice(MODES)
        absent = mode is None and rng.random() < 0.5
        ts.append({"x": cols[0], "y": cols[1], "z": cols[2], "mode": mode, "mode_absent": absent,
                   "rest": [(k, rng.randint(0, 9)) for k in ("type", "name", "line_color") if rng.random() < 0.4]})
    return ts


def mscat_line(ts):
    o = lambda l: f"{len(l)} " + " ".join("N" if v is None else str(v) for v in l)
    md = lambda m: "_" if m is None else ("E" if m == "" else m)
    return _norm(f"disp mscat {len(ts)} " + " ".join(f"{o(t['x'])} {o(t['y'])} {o(t['z'])} {md(t['mode'])} {len(t['rest'])} " + " ".join(f"{k} {v}" for k, v in t["rest"]) for t in ts))


def real_mscat(ts):
    from magpylib._src.display.traces_utility import merge_scatter3d
    ds = []
    for tr in ts:
        d = {k: v for k, v in tr["rest"]}
        for c in "xyz":
            d[c] = np.array(tr[c], dtype=object if any(v is None for v in tr[c]) else float)
        if not tr["mode_absent"]:
            d["mode"] = tr["mode"]
        ds.append(d)
    before = [dict(d) for d in ds]
    try:
        m = merge_scatter3d(*ds)
    except IndexError:
        return "err IndexError", False
    mutated = bool(ds) and (list(before[0].items()) != list(ds[0].items())) and len(ds) != 1
    if len(ds) == 1:
        mutated = False
    f = lambda a: " ".join("N" if v is None else str(int(v)) for v in np.asarray(a, dtype=object).reshape(-1).tolist())
    pieces, cur = [], []
    for v in np.asarray(m["x"], dtype=object).reshape(-1).tolist():
        if v is None:
            pieces.append(cur)
            cur = []
        else:
            cur.append(int(v))
    pieces.append(cur)
    mode = m.get("mode")
    md = "_" if mode is None else ("E" if mode == "" else mode)
    rest = [(k, v) for k, v in m.items() if k not in ("x", "y", "z", "mode")]
    order = {k: n for n, (k, _) in enumerate(ts[0]["rest"])}
    rest.sort(key=lambda kv: order[kv[0]])
    return _norm(f"ok {f(m['x'])} ; {f(m['y'])} ; {f(m['z'])} ; {md} ; " + " ".join(f"{k}={v}" for k, v in rest) + " ; " + " | ".join(" ".join(map(str, p)) for p in pieces)), mutated


def _hex(s):
    return s.encode("utf-8").hex() if s else "-"


def real_autounit(x):
    from magpylib._src.utility import _UNIT_PREFIX_REVERSED, get_unit_factor, unit_prefix
    pref = unit_prefix(x, as_tuple=True)[2]
    unit = f"{pref}m"
    factor = get_unit_factor(unit, target_unit="m")
    power = _UNIT_PREFIX_REVERSED[pref]
    return unit, power, factor


def _exp_of(factor, power):
    """decimal exponent e with factor == 10^e to 1e-15 relative (None otherwise)"""
    e = -power
    ref = float(f"1e{e}")
    return e if abs(float(factor) - ref) <= 1e-15 * ref else None


GROUP_POOL = {
    "legendgroup": ["", "A", "A1", "B", None],
    "opacity": [1, 1.0, 0.5, "0.5", 0.51, None, 11],
    "row": [1, 11, 2, "1", None, 12],
    "col": [1, 11, 2, 12, 21, None],
    "color": ["red", "blue", None, "", "r"],
    "colorscale": ["Viridis", None, "ed"],
    "mode": ["lines", "markers", "lines+markers", None, ""],
    "marker_color": ["red", None, "k"], "marker_symbol": ["circle", "x"], "marker_size": [1, 2, 12], "marker": ["m"],
    "line_dash": ["solid", "dash"], "line_color": ["red", "k", None], "line_width": [1, 2, 21],
}


def gen_group(rng):
    """random plotly-style trace dicts for group_traces: type mesh3d / scatter3d / other, a random subset of the keys that enter the group key (values from
    small pools chosen so that different value tuples can concatenate to the same string: row 1 col 12 / row 11 col 2, opacity 0.5 row 11 / opacity 0.51 row 1,
    numbers and their strings), nested `line` / `marker` dicts (linearised by the function), keys that do NOT enter (name, showlegend); each trace's x holds its
    index so that the members of a merged trace can be read off"""
    n = rng.randint(1, 7)
    ts = []
    base = None
    for idx in range(n):
        if base is not None and rng.random() < 0.45:
            t = {k: (dict(v) if isinstance(v, dict) else v) for k, v in base.items()}  # a copy of an earlier trace: same group unless perturbed
            if rng.random() < 0.5:
                k = rng.choice(["row", "col", "opacity", "legendgroup", "color"])
                t[k] = rng.choice(GROUP_POOL[k])
        else:
            ty = rng.choice(["mesh3d", "mesh3d", "scatter3d", "scatter3d", "surface"])
            t = {"type": ty}
            for k in ("legendgroup", "opacity", "row", "col", "color"):
                if rng.random() < 0.6:
                    t[k] = rng.choice(GROUP_POOL[k])
            if ty == "mesh3d":
                if rng.random() < 0.4:
                    t["colorscale"] = rng.choice(GROUP_POOL["colorscale"])
                t["_fc"] = rng.random() < 0.3
            elif ty == "scatter3d":
                if rng.random() < 0.7:
                    t["mode"] = rng.choice(GROUP_POOL["mode"])
                for grp in ("line", "marker"):
                    r = rng.random()
                    sub = {a: rng.choice(GROUP_POOL[f"{grp}_{a}"]) for a in (("dash", "color", "width") if grp == "line" else ("color", "symbol", "size")) if rng.random() < 0.5}
                    if r < 0.35:
                        t[grp] = sub  # nested dict
                    elif r < 0.6:
                        for a, v in sub.items():
                            t[f"{grp}_{a}"] = v  # already flat
                    elif r < 0.65 and grp == "marker":
                        t["marker"] = "m"  # a non-dict value under the key `marker`
            if rng.random() < 0.3:
                t["name"] = rng.choice(["n1", "n2"])
            base = t
        t = dict(t)
        t["_id"] = idx
        ts.append(t)
    return ts


def _group_flat(t):
    """(type, facecolor is None, [(linearised key, str(value))]) of a generated trace — the harness's own flattening, nested dicts one level"""
    props = []
    for k, v in t.items():
        if k in ("_id", "_fc", "type"):
            continue
        if isinstance(v, dict):
            props += [(f"{k}_{a}", str(b)) for a, b in v.items()]
        else:
            props.append((k, str(v)))
    return t["type"], not t.get("_fc", False), props


def group_line(ts):
    out = [f"disp group {len(ts)}"]
    for t in ts:
        ty, fcnone, props = _group_flat(t)
        out.append(f"{ty} {int(fcnone)} {len(props)} " + " ".join(f"{k} ~{v}" for k, v in props))
    return " ".join(out)


def real_group(ts):
    from magpylib._src.display.traces_utility import group_traces

    real_ts = []
    for t in ts:
        d = {k: (dict(v) if isinstance(v, dict) else v) for k, v in t.items() if k not in ("_id", "_fc")}
        i = float(t["_id"])
        d.update(x=np.array([i, i, i]), y=np.zeros(3), z=np.zeros(3))
        if t["type"] == "mesh3d":
            d.update(i=np.array([0]), j=np.array([1]), k=np.array([2]))
            if t.get("_fc"):
                d["facecolor"] = np.array(["red"])
        real_ts.append(d)
    try:
        out = group_traces(*real_ts)
    except Exception as e:  # noqa: BLE001
        return f"err {type(e).__name__}"
    res = []
    for o in out:
        ids = [int(v) for v in np.asarray(o["x"], dtype=object).reshape(-1) if v is not None]
        ids = list(dict.fromkeys(ids))
        res.append(f"{o['type']}:" + ",".join(map(str, ids)))
    return "ok " + " ".join(res)


def real_wind(tb, c):
    """winding report of the real generator's index arrays: `ok <faces> ; <directed edges not used exactly once> ; <directed edges whose reverse
    is not used>`, both in order of first occurrence among (i>j, j>k, k>i) face by face"""
    gen = c[1]
    try:
        if gen == "seg":
            N, full = c[2], c[3]
            dim = np.array([0.5, 1.0, 1.0, 0.0, 360.0]) if full else np.array([0.5, 1.0, 1.0, 0.0, 90.0])
            t = tb.make_CylinderSegment("generic", dimension=dim, vert=N if full else 4 * N)["kwargs"]
            if len(t["x"]) != 4 * N:
                return f"harness: arc count {len(t['x']) // 4} instead of {N}"
        elif gen == "ell":
            t = tb.make_Ellipsoid("generic", vert=c[2])["kwargs"]
        elif gen == "prism":
            t = tb.make_Prism("generic", base=c[2])["kwargs"]
        elif gen == "pyr":
            t = tb.make_Pyramid("generic", base=c[2])["kwargs"]
        elif gen == "arrow":
            t = tb.make_Arrow("generic", base=c[2])["kwargs"]
        elif gen == "cuboid":
            t = tb.make_Cuboid("generic", dimension=(1.0, 2.0, 3.0))["kwargs"]
        else:
            t = tb.make_Tetrahedron("generic", vertices=[(0, 0, 0), (1, 0, 0), (0, 1, 0), (0, 0, 1)])["kwargs"]
    except ValueError:
        return "err ValueError"
    except IndexError:
        return "err IndexError"
    i, j, k = _ijk_real(t)
    d = [e for a, b, c_ in zip(i, j, k) for e in ((a, b), (b, c_), (c_, a))]
    cnt = {}
    for e in d:
        cnt[e] = cnt.get(e, 0) + 1
    first = list(dict.fromkeys(d))
    bad = [e for e in first if cnt[e] != 1]
    un = [e for e in first if (e[1], e[0]) not in cnt]
    fmt = lambda l: " ".join(f"{a}>{b}" for a, b in l)
    return f"ok {len(i)} ; {fmt(bad)} ; {fmt(un)}"


def run_idx(ctx, n, stats):
    import magpylib as magpy
    from magpylib._src.display import traces_base as tb
    from magpylib._src.display.traces_generic import make_path
    from magpylib._src.display.traces_utility import get_scene_ranges, rescale_traces

    rng = ctx.rng
    st = {"wind": 0, "group": 0, "ellidx": 0, "ellidx_errors": 0, "segidx": 0, "segidx_full": 0, "segidx_r1_zero": 0, "arrow": 0, "arrowv": 0, "mmesh": 0, "mmesh_errors": {},
          "mmesh_inputs_modified": 0, "mscat": 0, "mscat_line_mode": 0, "mscat_first_input_modified": 0, "mscat_errors": 0, "path": 0, "autounit": 0,
          "autounit_below_one": 0, "autounit_displayed_below_1": 0, "autounit_displayed_min": None, "autounit_displayed_max": None,
          "autounit_factor_not_power_of_ten": 0, "ranges": 0, "idx_distinct": 0}
    cases, lines = [], []

    def add(c, line):
        cases.append(c)
        lines.append(line)

    for N in range(0, 41):
        add(("ellidx", N), f"disp ellidx {N}")
    for vert in range(3, 61):
        for p1, p2 in SEG_RANGES:
            add(("segidx", vert, 0.0 if (vert + int(p1)) % 3 == 0 else 0.5, p1, p2), f"disp segidx {vert} {_bits(p1)} {_bits(p2)}")
    for N in range(0, 31):
        add(("arrow", N), f"disp arrow {N}")
    for k in range(-27, 28):
        for mnt in (0.999, 1.0, 1.001, 5.0):
            x = float(f"{mnt}e{k}")
            add(("autounit", x), f"disp autounit {_bits(x)}")
    # winding of every mesh generator (Props/C19 *_consistently_wound / cylinder_segment_winding): directed edges not used exactly once and
    # directed edges without reverse, of the REAL index arrays, against Display.windingDefects / unmatchedEdges of the model triangulation
    for N in range(5, 61):  # the real arc count is max(5, int(vert * |phi1 - phi2| / 360)): vert = 4 N over 90 degrees gives N
        add(("wind", "seg", N, 0), f"disp wind seg {N} 0")
        add(("wind", "seg", N, 1), f"disp wind seg {N} 1")
    for N in range(0, 25):
        add(("wind", "ell", N), f"disp wind ell {N}")
    for N in range(0, 61):
        add(("wind", "prism", N), f"disp wind prism {N}")
        add(("wind", "pyr", N), f"disp wind pyr {N}")
    for N in range(0, 41):
        add(("wind", "arrow", N), f"disp wind arrow {N}")
    add(("wind", "cuboid"), "disp wind cuboid")
    add(("wind", "tetra"), "disp wind tetra")
    for _ in range(n):
        if rng.random() < 0.25:
            ts = gen_group(rng)
            add(("group", ts), group_line(ts))
            continue
        r = rng.random()
        if r < 0.10:
            vert = rng.randint(0, 200)
            p1 = rng.uniform(-720.0, 720.0)
            p2 = p1 + rng.choice([360.0, 360.0, rng.uniform(0.0, 400.0), rng.uniform(359.9999999, 360.0000001)])
            add(("segidx", vert, rng.choice([0.0, 0.3]), p1, p2), f"disp segidx {vert} {_bits(p1)} {_bits(p2)}")
        elif r < 0.16:
            N = rng.randint(1, 40)
            d, h = _rfloat(rng), _rfloat(rng)
            pivot = rng.choice(["tail", "tip", "middle"])
            add(("arrowv", N, d, h, pivot), f"disp arrowv {N} {_bits(d)} {_bits(h)} {pivot}")
        elif r < 0.42:
            ts = gen_mmesh(rng)
            add(("mmesh", ts), mmesh_line(ts))
        elif r < 0.64:
            ts = gen_mscat(rng)
            add(("mscat", ts), mscat_line(ts))
        elif r < 0.76:
            m = rng.randint(2, 6)
            ps = [[rng.choice([0.0, float(rng.randint(-5, 5)), rng.uniform(-10, 10), rng.gauss(0, 1e-3)]) for _ in range(3)] for _ in range(m)]
            f = rng.choice([1.0, 1.0, 1000.0, 0.001, 100.0, 1e6, 1e-3, 1e9])
            add(("path", ps, f), "disp path %d %s %s" % (m, " ".join(_bits(c) for p in ps for c in p), _bits(f)))
        elif r < 0.88:
            x = rng.uniform(0.1, 10.0) * 10.0 ** rng.randint(-30, 30)
            if rng.random() < 0.3:
                x = float(np.nextafter(10.0 ** rng.randint(-26, 26), rng.choice([0.0, np.inf])))
            add(("autounit", x), f"disp autounit {_bits(x)}")
        else:
            T = rng.randint(1, 4)
            scale = 10.0 ** rng.randint(-9, 6)
            trs, pts = [], []
            for _ in range(T):
                m = rng.randint(1, 6)
                P = [[rng.uniform(-1, 1) * scale + (rng.uniform(-3, 3) * scale if rng.random() < 0.5 else 0.0) for _ in range(3)] for _ in range(m)]
                if rng.random() < 0.5 and m >= 3:
                    nf = rng.randint(1, 3)
                    F = [[rng.randrange(m) for _ in range(3)] for _ in range(nf)]
                    trs.append({"type": "mesh3d", "x": [p[0] for p in P], "y": [p[1] for p in P], "z": [p[2] for p in P],
                                "i": [f[0] for f in F], "j": [f[1] for f in F], "k": [f[2] for f in F]})
                    pts += [P[v] for f in F for v in f]
                else:
                    trs.append({"type": "scatter3d", "x": [p[0] for p in P], "y": [p[1] for p in P], "z": [p[2] for p in P]})
                    pts += P
            if rng.random() < 0.1:
                pts = [pts[0]] * 2
                trs = [{"type": "scatter3d", "x": [pts[0][0]] * 2, "y": [pts[0][1]] * 2, "z": [pts[0][2]] * 2}]
            zo = rng.choice([0.0, 0.0, 1.0, 0.5, 2.0])
            add(("ranges", trs, zo), "disp ranges %d %s %s" % (len(pts), " ".join(_bits(c) for p in pts for c in p), _bits(zo)))
    out = run_driver(lines)
    seen = set()
    samples = stats.setdefault("samples", [])
    with warnings.catch_warnings():
        warnings.simplefilter("ignore")
        for c, line, mo in zip(cases, lines, out):
            kind = c[0]
            st[kind] += 1
            why, real = None, "?"
            try:
                if kind == "ellidx":
                    try:
                        t = tb.make_Ellipsoid("generic", vert=c[1])["kwargs"]
                        i, j, k = _ijk_real(t)
                        real = _fmt(i, j, k)
                        if max(i + j + k) >= len(t["x"]) or min(i + j + k) < 0:
                            why = "index out of the vertex array"
                    except ValueError:
                        real = "err ValueError"
                        st["ellidx_errors"] += 1
                elif kind == "segidx":
                    _, vert, r1, p1, p2 = c
                    t = tb.make_CylinderSegment("generic", dimension=np.array([r1, 1.0, 1.0, p1, p2]), vert=vert)["kwargs"]
                    i, j, k = _ijk_real(t)
                    N = len(t["x"]) // 4
                    full = len(i) == 8 * (N - 1)
                    st["segidx_full"] += full
                    st["segidx_r1_zero"] += r1 == 0.0
                    real = f"ok {N} {int(full)} ; " + " ; ".join(" ".join(map(str, l)) for l in (i, j, k))
                    if max(i + j + k) >= len(t["x"]) or len(i) not in (8 * (N - 1), 8 * (N - 1) + 4):
                        why = "index out of the vertex array / unexpected face count"
                elif kind == "group":
                    real = real_group(c[1])
                    outs = real.split()[1:]
                    st["group_merged_outputs"] = st.get("group_merged_outputs", 0) + sum("," in o for o in outs)
                    st["group_inputs"] = st.get("group_inputs", 0) + len(c[1])
                    st["group_errors"] = st.get("group_errors", 0) + real.startswith("err")
                    if real.startswith("ok") and sorted(int(v) for o in outs for v in o.split(":")[1].split(",")) != list(range(len(c[1]))):
                        why = "an input trace is lost or duplicated by group_traces"
                elif kind == "wind":
                    real = real_wind(tb, c)
                    st["wind_" + c[1]] = st.get("wind_" + c[1], 0) + 1
                    if real.startswith("ok") and real.split(" ; ")[1].strip():
                        st["wind_defective"] = st.get("wind_defective", 0) + 1
                elif kind == "arrow":
                    try:
                        t = tb.make_Arrow("generic", base=c[1])["kwargs"]
                        real = _fmt(*_ijk_real(t)) if len(t["x"]) == 3 * c[1] + 3 else f"vertex count {len(t['x'])}"
                    except IndexError:
                        real = "err IndexError"
                elif kind == "arrowv":
                    _, N, d, h, pivot = c
                    t = tb.make_Arrow("generic", base=N, diameter=d, height=h, pivot=pivot)["kwargs"]
                    why = compare_trig("arrowv", [np.asarray(t[k], dtype=float).reshape(-1) for k in "xyz"], mo, stats)
                    real = mo if why is None else "differs"
                elif kind == "mmesh":
                    real, changed = real_mmesh(c[1])
                    st["mmesh_inputs_modified"] += changed
                    if real.startswith("err"):
                        st["mmesh_errors"][real] = st["mmesh_errors"].get(real, 0) + 1
                    if changed:
                        why = "merge_mesh3d modified an input trace"
                elif kind == "mscat":
                    real, mutated = real_mscat(c[1])
                    st["mscat_first_input_modified"] += mutated
                    st["mscat_errors"] += real.startswith("err")
                    st["mscat_line_mode"] += len(c[1]) > 1 and "line" in (c[1][0]["mode"] or "")
                    if mutated != (len(c[1]) > 1 and not c[1][0]["mode"]):
                        why = "first input dict modified although its mode is non-empty (or not modified although empty)"
                elif kind == "path":
                    _, ps, f = c
                    o = magpy.misc.Dipole(moment=(0, 0, 1), position=ps)
                    tr = make_path(o)
                    if not (np.array_equal(tr["x"], np.array(ps)[:, 0]) and tr["type"] == "scatter3d" and "lines" in tr["mode"]):
                        why = "make_path does not return the path positions as a line trace"
                    (tr2,) = rescale_traces([tr], factors={(1, 1): f})
                    real = "ok " + " ; ".join(" ".join(_bits(v) for v in np.asarray(tr2[k], dtype=float)) for k in "xyz")
                elif kind == "autounit":
                    x = c[1]
                    unit, power, factor = real_autounit(x)
                    e = _exp_of(factor, power)
                    st["autounit_factor_not_power_of_ten"] += e is None
                    real = f"ok {_hex(unit)} {power} {e} {mo.split()[-1] if mo.startswith('ok') else '?'}"
                    shown = x * factor
                    st["autounit_below_one"] += x < 1
                    if 1e-24 <= x < 1e27:
                        st["autounit_displayed_below_1"] += shown < 1
                        st["autounit_displayed_min"] = shown if st["autounit_displayed_min"] is None else min(shown, st["autounit_displayed_min"])
                        st["autounit_displayed_max"] = shown if st["autounit_displayed_max"] is None else max(shown, st["autounit_displayed_max"])
                else:
                    _, trs, zo = c
                    rr = get_scene_ranges(*trs, zoom=zo)[(1, 1)]
                    rmax = float(np.amax(np.abs(rr)))
                    unit, power, factor = real_autounit(rmax)
                    real = "ok " + " ".join(_bits(v) for v in np.asarray(rr).reshape(-1)) + f" ; {_bits(rmax)} ; {_hex(unit)} {power} {_exp_of(factor, power)}"
            except Exception as e:
                real = f"harness: {type(e).__name__}: {e}"
            if why is None and kind != "arrowv" and _norm(real) != _norm(mo):
                why = "model and real differ"
            seen.add((kind, _norm(real)[:300]))
            if kind not in [s_["kind"] for s_ in samples] and len(samples) < 24:
                samples.append({"kind": kind, "line": line[:200], "model": mo[:200], "real": real[:200]})
            if why is not None:
                stats["disagreements"] += 1
                if stats["disagreements"] <= 3:
                    ctx.broken.append({"kind": "correspondence", "name": "disp-idx", "detail": {"line": line[:400], "why": why, "model": mo[:400], "real": real[:400]}})
    st["idx_distinct"] = len(seen)
    st["idx_cases"] = len(cases)
    stats.update(st)
    stats["distinct"] += len(seen)
    stats["cases"] += len(cases)


def run_stream(ctx, n):
    import magpylib as magpy
    from magpylib._src.display import traces_base as tb
    from magpylib._src.display import traces_core as tc

    rng = ctx.rng
    cases, lines = [], []
    for _ in range(n):
        if rng.random() < 0.4:
            c, line = gen_trig(rng)
            cases.append(c)
            lines.append(line)
            continue
        r = rng.random()
        if r < 0.62:
            plen = rng.randint(1, 8)
            val, enc = gen_show_path(rng, plen)
            cases.append(("inds", plen, val))
            lines.append(f"disp inds {plen} {enc}")
        elif r < 0.82:
            dim = tuple(rng.choice([0, -rng.randint(1, 9)]) if rng.random() < 0.04 else rng.randint(1, 40) for _ in range(3))
            pos = None if rng.random() < 0.4 else tuple(rng.randint(-20, 20) for _ in range(3))
            backend = rng.choice(["generic", "plotly-dict", "matplotlib", "plotly"])
            cases.append(("cuboid", dim, pos, backend))
            lines.append("disp cuboid " + " ".join(map(str, dim)) + (" 0" if pos is None else " 1 " + " ".join(map(str, pos))))
        elif r < 0.92:
            while True:
                pts = [[rng.randint(-6, 6) for _ in range(3)] for _ in range(4)]
                a = np.array(pts[1:], dtype=np.int64) - np.array(pts[0], dtype=np.int64)
                det = int(round(float(np.linalg.det(a.astype(float)))))
                exact = (a[0, 0] * (a[1, 1] * a[2, 2] - a[1, 2] * a[2, 1]) - a[0, 1] * (a[1, 0] * a[2, 2] - a[1, 2] * a[2, 0])
                         + a[0, 2] * (a[1, 0] * a[2, 1] - a[1, 1] * a[2, 0]))
                if exact != 0:
                    break
            backend = rng.choice(["generic", "plotly-dict"])
            cases.append(("tetra", pts, backend, int(exact)))
            lines.append("disp tetra " + " ".join(str(c) for p in pts for c in p))
        else:
            kind = "prism" if r < 0.96 else "pyramid"
            N = rng.choice([0, 1, 2, 3, 3, 4, 5, 6, 7, 8, 12, 30, 50])
            cases.append((kind, N))
            lines.append(f"disp {kind} {N}")
    out = run_driver(lines)

    stats = {"cases": n, "inds": 0, "inds_errors": 0, "inds_negative_returned": 0, "inds_row_drawn_twice": 0, "inds_last_row_missing": 0,
             "cuboid": 0, "tetra": 0, "tetra_swapped": 0, "prism": 0, "pyramid": 0, "disagreements": 0, "distinct": 0,
             "prismv": 0, "pyrv": 0, "segv": 0, "segv_r1_zero": 0, "segv_full_360": 0, "segv_zero_span": 0, "segv_reversed": 0, "segv_beyond_360": 0,
             "segv_negative": 0, "ellv": 0, "ellv_errors": 0, "circ": 0, "polyl": 0, "arrowc": 0, "arrowl": 0, "pixels": 0, "trig_values": 0, "trig_bit_exact": 0, "trig_max_rel_dev": 0.0,
             "trig_rtol": TRIG_RTOL}
    seen, samples = set(), []
    objs = {}
    with warnings.catch_warnings():
        warnings.simplefilter("ignore")
        for c, line, mo in zip(cases, lines, out):
            kind = c[0]
            stats[kind] += 1
            if kind in TRIG_KINDS:
                try:
                    real = real_trig(magpy, tb, tc, c)
                    # the rotated arrow head has components that cancel to ~0: compared relative to the size of the drawn thing
                    scale = abs(c[3]) * (1 + abs(c[4])) if kind == "arrowc" else 0.0
                    why = compare_trig(kind, real, mo, stats, scale)
                except Exception as e:
                    real, why = None, f"harness: {type(e).__name__}: {e}"
                if kind == "segv":
                    _, vert, r1, r2, h, p1, p2 = c
                    stats["segv_r1_zero"] += r1 == 0.0
                    stats["segv_full_360"] += p2 - p1 == 360
                    stats["segv_zero_span"] += p1 == p2
                    stats["segv_reversed"] += p2 < p1
                    stats["segv_beyond_360"] += max(abs(p1), abs(p2)) > 360 or abs(p2 - p1) > 360
                    stats["segv_negative"] += p1 < 0
                if kind == "ellv":
                    stats["ellv_errors"] += isinstance(real, str)
                shown = real if isinstance(real, str) else ("ok " + " ; ".join(" ".join(repr(v) for v in a.tolist()[:4]) for a in real) if real is not None else "?")
                seen.add((kind, line))
                if len(samples) < 12 and kind not in [s_["kind"] for s_ in samples]:
                    samples.append({"kind": kind, "line": line, "model": mo[:200], "real": shown[:200]})
                if why is not None:
                    stats["disagreements"] += 1
                    if stats["disagreements"] <= 3:
                        ctx.broken.append({"kind": "correspondence", "name": "disp", "detail": {"line": line, "case": repr(c)[:300], "why": why, "model": mo[:300], "real": shown[:300]}})
                continue
            try:
                if kind == "inds":
                    _, plen, val = c
                    if plen not in objs or rng.random() < 0.1:
                        objs[plen] = make_obj(magpy, rng, plen)
                    real, inds, rows = real_inds(objs[plen], val, plen)
                    if rows is None:
                        stats["inds_errors"] += 1
                    else:
                        stats["inds_negative_returned"] += any(v < 0 for v in inds)
                        stats["inds_row_drawn_twice"] += len(set(rows)) < len(rows)
                        stats["inds_last_row_missing"] += (plen - 1) not in rows
                elif kind == "cuboid":
                    _, dim, pos, backend = c
                    x, y, z, i, j, k = trace_of(tb.make_Cuboid(backend, dimension=dim, position=pos), backend)
                    real = _fmt(_ints(2 * np.asarray(x)), _ints(2 * np.asarray(y)), _ints(2 * np.asarray(z)), _ints(i), _ints(j), _ints(k))
                elif kind == "tetra":
                    _, pts, backend, det = c
                    x, y, z, i, j, k = trace_of(tb.make_Tetrahedron(backend, vertices=np.array(pts, dtype=float)), backend)
                    real = _fmt(_ints(x), _ints(y), _ints(z), _ints(i), _ints(j), _ints(k))
                    stats["tetra_swapped"] += det < 0
                else:
                    _, N = c
                    f = tb.make_Prism if kind == "prism" else tb.make_Pyramid
                    try:
                        x, y, z, i, j, k = trace_of(f("generic", base=N), "generic")
                        nv = 2 * N + 2 if kind == "prism" else N + 1
                        real = _fmt(_ints(i), _ints(j), _ints(k)) if len(x) == len(y) == len(z) == nv else f"vertex count {len(x)} != {nv}"
                    except IndexError:
                        real = "err IndexError"
            except Exception as e:  # the harness could not canonicalise what the real code returned
                real = f"harness: {type(e).__name__}: {e}"
            seen.add((kind, real))
            if len(samples) < 12 and kind not in [s["kind"] for s in samples]:
                samples.append({"kind": kind, "line": line, "model": mo[:200], "real": real[:200]})
            if real.strip() != mo.strip():
                stats["disagreements"] += 1
                if stats["disagreements"] <= 3:
                    ctx.broken.append({"kind": "correspondence", "name": "disp", "detail": {"line": line, "case": repr(c)[:300], "model": mo[:400], "real": real[:400]}})
    stats["distinct"] = len(seen)
    stats["samples"] = samples
    # place_and_orient_model3d rows (the `place` of Props/C19 place_is_pose / place_inverse / place_preserves_extent)
    run_place(ctx, max(40, n // 2), stats)
    # index arrays of Ellipsoid / CylinderSegment / Arrow, trace merging, path trace, auto unit (Model/DisplayIdx.lean)
    run_idx(ctx, max(120, n // 2), stats)
    return stats
