"""correspondence stream `seff` (C20): the EFFECTIVE style after a random history.

A random history (generator of corr/stylestate_family.py: updates in every notation, attribute assignments, resets,
`obj.style = …`, on the real `magpylib.defaults` and on real objects) is applied to the real objects; then the REAL
`magpylib._src.style.get_style(obj, magpylib.defaults, **show_kwargs)` is called for one of the objects with a few random
`style_<magic>` keywords (sometimes none, sometimes a keyword of another family — silently dropped by get_style —,
sometimes an unknown first segment — ValueError of validate_style_keys —, sometimes a refused value) and its result is
compared with Model/StyleEffective.lean (`getStyleW`) run by the Lean driver on the world Model/StyleState.lean reaches
for the same history: the WHOLE resolved `as_dict()` and `as_dict(flatten=True, separator="_")`, values as indices into the
regenerated value panel, exactly; for a raising call the class of the exception.  The model takes the families from the
regenerated table `Gen.StyleSchema.families` (probed from the real `get_families`), the real `get_style` calls
`get_families` itself.

`magpylib.defaults` is process-global: it is reset before and after every history (try/finally).  Rows in which a stored
value lies outside the value panel are skipped and counted."""
from corr import stylestate_family as ssf
from vlib.driver import run_driver


def gen_show_kwargs(rng, P, cls):
    """style keywords (without the `style_` prefix) for an object whose style class is `cls`"""
    kw = {}
    r = rng.random()
    if r < 0.25:
        return kw
    for _ in range(rng.choice([1, 1, 1, 2, 3])):
        c = cls if rng.random() < 0.75 else rng.choice(P["objects"])[1]      # a keyword that belongs to another family
        q, v = ssf.gen_entry(rng, P, c)
        cut = rng.randrange(1, len(q) + 1)
        for k in reversed(q[cut:]):
            v = {k: v}
        kw["_".join(q[:cut])] = v
    return kw


def apply_history(P, real, ops):
    """the operations of a history on the real objects (outcomes are not recorded here: the sstate stream compares them)"""
    import magpylib as magpy
    from magpylib._src.defaults.defaults_utility import MagicProperties

    def root(i):
        return magpy.defaults if i == 0 else real[i - 1].style

    for op in ops:
        touched = 0
        try:
            if op[0] == "U":
                _, i, recv, arg, kwargs, mt, rno = op
                touched = i
                x = root(i)
                for k in recv:
                    x = getattr(x, k)
                x.update(ssf.to_real(P, arg), _match_properties=mt, _replace_None_only=rno, **ssf.to_real(P, kwargs))
                ssf.clean_shadows(root(i))
            elif op[0] == "S":
                _, i, recv, name, v = op
                touched = i
                x = root(i)
                for k in recv:
                    x = getattr(x, k)
                if isinstance(x, MagicProperties) and not isinstance(getattr(type(x), name, None), property):
                    saved = dict(vars(x))
                    try:
                        setattr(x, name, ssf.to_real(P, v))
                    except Exception:  # noqa: BLE001
                        pass
                    finally:
                        vars(x).clear()
                        vars(x).update(saved)
                else:
                    setattr(x, name, ssf.to_real(P, v))
            elif op[0] == "R":
                magpy.defaults.reset()
            elif op[0] == "RS":
                magpy.defaults.display.style.reset()
            elif op[0] == "Y":
                touched = op[1]
                real[op[1] - 1].style = ssf.to_real(P, op[2])
            elif op[0] == "YO":
                touched = op[1]
                real[op[1] - 1].style = real[op[2] - 1].style
        except Exception:  # noqa: BLE001
            ssf.clean_shadows(root(touched))


def run_real(P, objs, ops, j, kw):
    import magpylib as magpy
    from magpylib._src.style import get_style

    magpy.defaults.reset()
    try:
        real = [ssf.make_object(P["objects"][o][0]) for o in objs]
        apply_history(P, real, ops)
        world = " | ".join(ssf.enc_val(P, (magpy.defaults if i == 0 else real[i - 1].style).as_dict()) for i in range(len(real) + 1))
        own_before = ssf.enc_val(P, real[j - 1].style.as_dict())
        dflt_before = ssf.enc_val(P, magpy.defaults.as_dict())
        try:
            st = get_style(real[j - 1], magpy.defaults, **{"style_" + k: v for k, v in ssf.to_real(P, kw).items()})
            res = "ok " + ssf.enc_val(P, st.as_dict()) + " # " + ssf.enc_val(P, st.as_dict(flatten=True, separator="_"))
        except Exception as e:  # noqa: BLE001
            res = "err " + ssf.ERRK.get(type(e), "other:" + type(e).__name__)
        # get_style works on a copy: neither the object's own style nor the defaults may have changed
        untouched = own_before == ssf.enc_val(P, real[j - 1].style.as_dict()) and dflt_before == ssf.enc_val(P, magpy.defaults.as_dict())
    finally:
        ssf.clean_shadows(magpy.defaults)
        magpy.defaults.reset()
    return res, world, untouched


def run_stream(ctx, n):
    P = ssf.schema()
    rng = ctx.rng
    stats = {"histories": 0, "ops": 0, "resolved_ok": 0, "raised": {}, "no_keywords": 0, "keywords": 0, "by_object_class": {}, "disagreements": 0,
             "skipped_value_outside_panel": 0, "resolved_leaves": 0, "resolved_leaves_not_none": 0, "get_style_changed_its_inputs": 0}
    lines, reals, meta, fails = [], [], [], []
    for _ in range(n):
        objs, ops = ssf.gen_history(rng, P)
        if not objs:
            objs = [rng.randrange(len(P["objects"]))]
        j = rng.randrange(1, len(objs) + 1)
        name, cls = P["objects"][objs[j - 1]]
        kw = gen_show_kwargs(rng, P, cls)
        line = "seff" + ssf.enc_history(P, objs, ops)[len("sstate"):] + f" Q {j} {name} {ssf.enc_model(kw)}"
        res, world, untouched = run_real(P, objs, ops, j, kw)
        lines.append(line)
        reals.append((res, world))
        meta.append((name, kw))
        stats["histories"] += 1
        stats["ops"] += len(ops)
        stats["by_object_class"][name] = stats["by_object_class"].get(name, 0) + 1
        stats["keywords" if kw else "no_keywords"] += 1
        if res.startswith("ok"):
            stats["resolved_ok"] += 1
            flat = res.split(" # ")[1]
            stats["resolved_leaves"] += flat.count(" N") + flat.count(" L ")
            stats["resolved_leaves_not_none"] += flat.count(" L ")
        else:
            stats["raised"][res[4:]] = stats["raised"].get(res[4:], 0) + 1
            if not kw:
                stats["raised_without_keywords"] = stats.get("raised_without_keywords", 0) + 1
        if not untouched:
            stats["get_style_changed_its_inputs"] += 1
            if len(fails) < 3:
                fails.append({"key": "get-style-changes-inputs", "desc": "get_style changed the object's own style or the defaults",
                              "replay": {"stream": "seff", "line": line}})
    out = run_driver(lines)
    for line, (res, world), m, (name, kw) in zip(lines, reals, out, meta):
        if "L 9999" in res or "L 9999" in world:
            stats["skipped_value_outside_panel"] += 1
            continue
        if res.strip() != m.strip():
            stats["disagreements"] += 1
            if stats["disagreements"] <= 3:
                ctx.broken.append({"kind": "correspondence", "name": "seff",
                                   "detail": {"line": line[:3000], "object_class": name, "show_kwargs": repr(kw)[:400], "real": res[:1500], "model": m[:1500]}})
    stats["cases"] = len(lines)
    stats["samples"] = [{"line": lines[k][:600], "real": reals[k][0][:300], "model": out[k][:300]} for k in (0, len(lines) // 2)] if lines else []
    return stats, fails
