"""correspondence stream `poly` (C06, C01): batches of Polyline instances through current_vertices_field of the real code
against Model/Polyline.lean (IEEE double in the driver): both batch branches (all instances with the same number of
vertices -> reshape/sum; different numbers -> np.split at the cumulative segment counts), instances with repeated
vertices (zero-length segments), observers on the carrier line of a segment (masked rows), fields B/H/J/M.
Values compared with |a-b| <= 1e-10*max(|a|,|b|,scale)."""
import numpy as np

from corr.kern_family import bits, enc, unbits
from vlib.driver import run_driver


def gen_batch(rng, nps):
    k = rng.choice([1, 2, 3, 5])
    equal = rng.random() < 0.5
    n_equal = rng.choice([2, 3, 4, 6])
    sc = 10.0 ** nps.uniform(-2, 2)
    insts = []
    for _ in range(k):
        nv = n_equal if equal else rng.choice([2, 3, 4, 5, 7])
        v = nps.uniform(-1, 1, (nv, 3)) * sc
        if nv > 2 and rng.random() < 0.25:
            j = rng.randrange(1, nv)
            v[j] = v[j - 1]  # zero-length segment
        r = rng.random()
        if r < 0.15:  # on the carrier line of the first segment, beyond its end
            obs = v[0] + nps.uniform(1.2, 2.5) * (v[1] - v[0]) if not np.array_equal(v[0], v[1]) else nps.uniform(-2, 2, 3) * sc
        elif r < 0.3:  # exactly on a vertex-free point of the first segment
            obs = v[0] + 0.5 * (v[1] - v[0])
        else:
            obs = nps.uniform(-2, 2, 3) * sc * 10 ** nps.uniform(-1, 1)
        insts.append((float(nps.uniform(-3, 3)), v, obs))
    return insts, equal


def run_stream(ctx, n):
    from magpylib._src.fields.field_BH_polyline import current_vertices_field
    from magpylib import mu_0

    rng = ctx.rng
    lines, expect = [], []
    stats = {"batches": n, "instances": 0, "equal_branch": 0, "ragged_branch": 0, "disagreements": 0, "zero_rows": 0}
    for _ in range(n):
        nps = np.random.default_rng(rng.randrange(2**31))
        insts, _ = gen_batch(rng, nps)
        f = rng.choice("BBHHJM")
        same = len({len(v) for _, v, _ in insts}) == 1
        stats["equal_branch" if same else "ragged_branch"] += 1
        obs = np.array([o for _, _, o in insts])
        cur = np.array([c for c, _, _ in insts])
        if same:
            verts = np.array([v for _, v, _ in insts])
        else:
            verts = np.empty(len(insts), dtype=object)
            for i, (_, v, _) in enumerate(insts):
                verts[i] = v
        real = np.asarray(current_vertices_field(f, obs.copy(), cur.copy(), vertices=verts), dtype=float)
        lines.append(f"poly batch {f} {len(insts)} " + " ".join(f"{bits(c)} {len(v)} {enc(v)} {enc(o)}" for c, v, o in insts))
        scale = [abs(c) / (4 * np.pi * (np.linalg.norm(v.max(axis=0) - v.min(axis=0)) + 1e-300)) * (mu_0 if f == "B" else 1) * 1e-3 for c, v, _ in insts]
        expect.append((real, scale, f, [len(v) for _, v, _ in insts]))
        stats["instances"] += len(insts)
    out = run_driver(lines)
    for o, (real, scale, f, nvs) in zip(out, expect):
        try:
            got = np.array([unbits(t) for t in o.split()]).reshape(-1, 3)
        except Exception:  # noqa: BLE001
            got = None
        ok = got is not None and got.shape == real.shape
        if ok:
            for g, r, s in zip(got, real, scale):
                if not np.all((np.isnan(g) & np.isnan(r)) | (np.abs(g - r) <= 1e-10 * np.maximum(np.maximum(np.abs(g), np.abs(r)), s))):
                    ok = False
                if not np.any(r):
                    stats["zero_rows"] += 1
        if not ok:
            stats["disagreements"] += 1
            if stats["disagreements"] <= 3:
                ctx.broken.append({"kind": "correspondence", "name": "poly", "detail": {"field": f, "vertex_counts": nvs, "model": str(got), "real": str(real)}})
    return stats
