#!/bin/bash
# run every registered quick (or thorough) check on the current tree; prints one summary line each
cd "$(dirname "$0")"
tier=${1:-quick}
for id in $(python3 -c "import json;print(' '.join(c['property_id'] for c in json.load(open('MANIFEST.json'))['checks']))"); do
  /venv/bin/python check.py $id --tier $tier 2>&1 | grep -E "^(VIOLATION|KNOWN-FINDING|BROKEN|C[0-9]+ tier)" | cut -c1-220
done
